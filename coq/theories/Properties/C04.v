(* C04 — An instruction statement assembles to the encoding of what was written.
   Statements only.  Model of src/arm6m/mod.rs: Arm/AsmStmtModel.v (mnemonic table `template`, register tables `regl` / `sysl`,
   the `convert!` converters, per-instruction operand processing `assemble_args`, `assemble_stmt`); the expression evaluator is
   the model of asm::simplify::evaluate under a constant table lk (`ev_of lk`, Arm/AsmEvalLink.v) or, where stated, ANY
   evaluator `ev`.  Oracles: Arm/AsmOperands.v -- `operands i addr` (the operand VALUES of a statement for instruction i:
   PC-relative operands are the absolute target = statement address + 4 (word-aligned first for ADR / literal LDR) + offset),
   `writes lk p a` / `written` (the documented ways of WRITING an operand: any spelling of a register / special register /
   flag name, any expression tree the evaluator reduces to the value, [b + e] | [e + b] | [b], {register lists} in any order),
   `reads ev p a` (the same through an arbitrary evaluator), `mnemonic_names` (BCS/BHS, BCC/BLO, BICS/BIC), `respelled`,
   `kinds` / `verdict` (which operand kind a template expects where and what its converter answers).

   PROVED, over argument trees and over SOURCE TEXT:
   * accepted (completeness): every statement written in a documented way for an encodable instruction i -- mnemonic in any
     letter case or alias, names in any spelling, immediates / targets as arbitrary constant expressions, all memory operand
     forms -- assembles to exactly i (C04_immediate_expressions, C04_spelling_names); from the CHARACTERS, with any
     separators / comments / line breaks / redundant parentheses / number spellings (C04_text, C04_text_canonical,
     C04_text_respelled; composition with C09's text theorems).  The bytes of i are the table's by C01.
   * never wrapped (soundness): a statement that assembles to i was read as exactly the operand values of i, and the encoder's
     answer on i is the ARMv6-M table's answer (C04_no_wrap, C04_branch_exact, C04_branch_offset, C04_literal_offset).
   * rejected: unknown mnemonic, wrong operand count, and -- with the right count -- the first operand (left to right) whose
     converter rejects it decides the diagnostic: wrong kind = DArgType, unknown register = DNoSuchRegister, number outside
     i32 / u32 = DValueRange (the C04_rejects_ theorems); no statement panics (C04_never_panics).
   * post-conversion checks (section 5; Arm/AsmPostChecks.v, Arm/AsmPostChecksStmt.v): `stmt_outcome` = operand processing
     followed by the encoder model (an encoder error is the diagnostic DEncode, nothing is written).  For EVERY operand value
     (unbounded Z, all registers): a statement whose operands satisfy the ARMv6-M operand rule of its mnemonic
     (`operand_rule`: register classes, immediate ranges and scaling, list contents -- proved to be exactly the domain of the
     ARMv6-M table) emits exactly the instruction written with the table's halfwords; every other one is a diagnostic,
     never an instruction: C04_operand_rule_decides and, family by family, the checks of ArmInstr::assemble
     (C04_number_range BKPT/SVC/UDF, C04_rsbs_zero, C04_flag_names, C04_ldrs_register_offset, C04_branch_target,
     C04_bl_target, C04_literal_target) and of the encoder (C04_shift_amount, C04_addsub_immediate, C04_add_sp, C04_sub_sp,
     C04_mov_cmp_immediate, C04_load_store_offset, C04_push_pop_list, C04_ldm_stm_list, C04_low_registers,
     C04_branch_register, C04_special_register).
   * every statement, accepted or rejected, from the CHARACTERS (section 6; Arm/AsmSpellSpec.v, Arm/AsmOutcomeViews.v,
     Arm/AsmRejectText.v): `text_outcome` = tokenizer + parser + stmt_outcome.  The outcome (Emits i hws | Rejects d | Defers c,
     never Panics) depends only on the mnemonic and on what the operand converters observe of each argument
     (C04_outcome_same_operands); every spelling (`spells`: names of the same register, letter case of flags, numbers as any
     literal expression tree, the memory operand forms, register lists in any order) is indistinguishable from what it spells
     (C04_spelling_indistinguishable), so REJECTED statements are invariant under respelling too (C04_outcome_spelled) and, for
     any separators incl. nested block comments / number spellings / redundant parentheses, the text has the outcome of the
     canonical statement for its mnemonic and operand values (C04_text_outcome, C04_text_outcome_values).  All rejection
     theorems lift through C04_text_outcome_tree: C04_text_rejects_operand_rule, _arity, _unknown_mnemonic, _first_failure.
   * the Context (section 7; Asm/InstrOutcomeSpec.v, Asm/InstrOutcome.v): CtxModel.step on an instruction statement is
     `instr_step` (C04_step_is_instr_step) and, by outcome (C04_outcome_is_context): Emits i hws -- exactly the little-endian
     bytes of hws appended at the statement's address, or the capacity diagnostic of C13; Rejects d -- the diagnostic at the
     statement's position, then nothing more (unknown mnemonic, encoder refused: Fatal) or, when a converter refused, the
     placeholder: 0xBE bytes of the template's length and a task (Arm6M::assemble treats a diagnosed statement like a
     deferred one; observed on the real assembler: `wfi r0;` leaves BE BE and reports the diagnostic); Defers -- placeholder + task.
   NOT proved here: (a) that assemble_stmt IS what src/arm6m/mod.rs does -- the model is compared with the real assembler by
   the C04 / C19 correspondence streams; (b) placing the bytes at the statement's address in the image is C05's business.
   Accepted although UNPREDICTABLE in the manual: LDM / STM with an empty register list (DESIGN.md section 4: pinned by an
   existing test of trion, listed in the table). *)
From Coq Require Import ZArith NArith List Bool String.
From Trion Require Import Text.Types Text.ParseModel Text.Render Text.ParseProofs Text.ShowSpec Expr.I64 Expr.EvalModel Expr.Denote Expr.C08Sound
  Arm.Instr Arm.EncodeModel Arm.Armv6mSpec Arm.CodecCheck Arm.DisplayModel Arm.DisplayArgs Arm.AsmStmtModel Arm.AsmStmtProofs Arm.AsmEvalLink
  Arm.AsmOperands Arm.AsmRejects Arm.AsmSpelling Arm.AsmImmediates Arm.AsmRespell Arm.AsmNoWrap Arm.AsmText Bin.TextRoundtrip
  Arm.AsmPostChecks Arm.AsmPostChecksStmt Text.ShowNested Arm.AsmSpellSpec Arm.AsmOutcomeViews Arm.AsmRejectText.
From Trion Require Mem.MapModel Asm.CtxSeg Asm.CtxModel Asm.SegProofs Asm.CtxNoPanic Asm.InstrOutcomeSpec Asm.InstrOutcome.
Import ListNotations.
Open Scope N_scope.

(* register operands: every canonical name, any letter case *)
Theorem C04_register_names : forall r, regl (reg_name r) = Some r.
Proof. exact regl_reg_name. Qed.
Theorem C04_register_case : forall s, regl (upper_str s) = regl s.
Proof. exact regl_case_insensitive. Qed.
Theorem C04_special_register_names : forall s, sysl (sysreg_name s) = Some s.
Proof. exact sysl_sysreg_name. Qed.

(* a branch statement that assembles: its operand evaluated to a target inside the address space, the offset
   is exactly target - (statement address + 4), even and inside the instruction's range — never wrapped *)
Theorem C04_branch_exact : forall ev local addr c a off st',
  assemble_args ev local addr (B c 0%Z) (mkAst [a] 0) = COk (B c off) st' ->
  exists tgt, fst (ev a) = AConst (Z.of_N tgt) /\ tgt < 4294967296 /\
    off = (Z.of_N tgt - (Z.of_N addr + 4))%Z /\ Z.land off 1 = 0%Z /\
    (if cond_eqb c Always then (-2048 <= off <= 2046)%Z else (-256 <= off <= 254)%Z).
Proof. exact branch_stmt_exact. Qed.

(* the two PC-relative offset computations: exact difference, range and alignment checked, or a diagnostic *)
Theorem C04_branch_offset : forall addr tgt lo hi st off st', branch_offset addr tgt lo hi st = COk off st' ->
  off = (Z.of_N tgt - (Z.of_N addr + 4))%Z /\ (lo <= off <= hi)%Z /\ Z.land off 1 = 0%Z.
Proof. exact branch_offset_inv. Qed.
Theorem C04_literal_offset : forall addr tgt st off st', lit_offset addr tgt st = COk off st' ->
  off = (Z.of_N tgt - (Z.of_N (N.land addr 0xFFFFFFFC) + 4))%Z /\ (0 <= off <= 1020)%Z /\ Z.land off 3 = 0%Z.
Proof. exact lit_offset_inv. Qed.

(* the documented operand syntax of every instruction kind is accepted and yields exactly the operands written
   (shared with C19: the statement printed for i is the documented syntax) *)
Theorem C04_documented_syntax : forall ev local i addr hws, ev_display ev ->
  wf_instr i -> enc i = EncOk hws -> addr < 4294967296 -> target_in_space i addr = true ->
  conv_val (assemble_stmt ev local addr (mnemonic i) (display_args i addr)) = Some i.
Proof. exact stmt_roundtrip. Qed.

(* ------------------------------------------------------------------------------------------------------------------ *)
(* mnemonics: any letter case, and the aliases, select the instruction's template *)
Theorem C04_mnemonic_spelling : forall i name, In (upper_str name) (mnemonic_names i) -> template name = Some (kind_template i).
Proof. exact template_spelling. Qed.

(* 1. spelling of names: in the statement printed for an encodable instruction i (C04_documented_syntax / C19), the mnemonic
   replaced by any string whose upper-casing is one of i's mnemonics, every register / special register identifier (also
   inside [..] and {..}) by any spelling of the same register, the CPS flag and the barrier option by any letter case:
   the statement still assembles to i *)
Theorem C04_spelling_names : forall lk, (forall t, t < 4294967296 -> lk (label t) = Found (Z.of_N t)) ->
  forall local i addr hws name args', wf_instr i -> enc i = EncOk hws -> target_in_space i addr = true ->
  In (upper_str name) (mnemonic_names i) -> Forall2 respelled (display_args i addr) args' ->
  conv_val (assemble_stmt (ev_of lk) local addr name args') = Some i.
Proof. exact respelled_assembles. Qed.

(* 2. immediates and targets as arbitrary constant expressions, every documented operand form: any argument list that WRITES
   the operand values of i (AsmOperands.writes: names in any spelling; in every number position any expression tree e with
   evaluate lk is_register e = Ok (AConst v, Complete _); memory operands [b + e], [e + b], [b] for offset 0, [b + r];
   register lists in any order with repetitions) assembles to i.  No hypothesis about the table lk. *)
Theorem C04_immediate_expressions : forall lk local i addr hws name args,
  wf_instr i -> enc i = EncOk hws -> target_in_space i addr = true ->
  In (upper_str name) (mnemonic_names i) -> Forall2 (writes lk) (operands i addr) args ->
  conv_val (assemble_stmt (ev_of lk) local addr name args) = Some i.
Proof. exact written_assembles. Qed.

(* ... for ANY evaluator: arguments that are READ as the operand values (also LDR Rt, [PC + off] for the literal load) *)
Theorem C04_reads_assembles : forall ev local i addr hws name args,
  wf_instr i -> enc i = EncOk hws -> target_in_space i addr = true ->
  In (upper_str name) (mnemonic_names i) -> stmt_reads ev i addr args ->
  conv_val (assemble_stmt ev local addr name args) = Some i.
Proof. exact stmt_reads_assembles. Qed.

(* which expressions qualify: every literal expression whose ideal value is v (C07: each intermediate result fits i64) ... *)
Theorem C04_literal_immediates : forall lk t v, literal_tree t = true -> ideal t = Val v -> wval lk v t.
Proof. exact wval_literal. Qed.
(* ... a symbol the table has a value for; and whatever qualifies has the checked 64-bit value of the expression under every
   assignment compatible with the table (C08) *)
Theorem C04_symbol_immediates : forall lk s v, is_register s = false -> lk s = Found v -> wval lk v (AIdent s).
Proof. exact wval_symbol. Qed.
Theorem C04_immediate_value : forall lk rho e v v', wval lk v e -> compat rho lk is_register -> den64 rho e = Some v' -> v = v'.
Proof. exact wval_den64. Qed.

(* register lists: the bits of {..} are exactly the registers named, in any order, with repetitions *)
Theorem C04_register_list_bits : forall rs n, N.testbit (mask_of rs) n = existsb (fun r => N.eqb (reg_num r) n) rs.
Proof. exact mask_of_spec. Qed.

(* 3. rejections *)
Theorem C04_rejects_unknown_mnemonic : forall ev local addr name args, template name = None ->
  assemble_stmt ev local addr name args = CDiag DNotFound (mkAst args 0).
Proof. exact stmt_unknown_mnemonic. Qed.

Theorem C04_rejects_too_many : forall ev local addr name t args, template name = Some t ->
  (List.length (kinds t) < List.length args)%nat -> assemble_stmt ev local addr name args = CDiag DTooMany (mkAst args 0).
Proof. exact stmt_too_many. Qed.

Theorem C04_rejects_not_enough : forall ev local addr name t args, template name = Some t ->
  (List.length args < List.length (kinds t))%nat -> assemble_stmt ev local addr name args = CDiag DNotEnough (mkAst args 0).
Proof. exact stmt_not_enough. Qed.

(* right count: the first operand (left to right) whose converter rejects it decides the diagnostic *)
Theorem C04_rejects_first_failure : forall ev local addr name t args p k a d, template name = Some t ->
  List.length args = List.length (kinds t) ->
  nth_error (kinds t) p = Some k -> nth_error args p = Some a -> verdict ev local k a = VDiag d ->
  (forall q kq aq, (q < p)%nat -> nth_error (kinds t) q = Some kq -> nth_error args q = Some aq -> verdict ev local kq aq = VAccept) ->
  exists st, assemble_stmt ev local addr name args = CDiag d st.
Proof. exact stmt_first_failure. Qed.

(* the verdicts: an operand (after evaluation, for the evaluated kinds) of a shape the kind does not take is DArgType ... *)
Theorem C04_rejects_wrong_kind : forall ev local k a a', seen ev k a a' -> kind_shape k a' = false ->
  verdict ev local k a = VDiag DArgType.
Proof. exact verdict_wrong_kind. Qed.

(* ... an identifier that is not a (special) register name where one is expected is DNoSuchRegister ... *)
Theorem C04_rejects_unknown_register : forall ev local k a s, seen ev k a (AIdent s) ->
  match k with KReg | KImmReg => regl s = None | KSys => sysl s = None | _ => False end ->
  verdict ev local k a = VDiag DNoSuchRegister.
Proof. exact verdict_unknown_register. Qed.

(* ... a number outside i32 (immediates) / u32 (targets, BKPT) is DValueRange: never truncated ... *)
Theorem C04_rejects_out_of_range : forall ev local k a v, seen ev k a (AConst v) ->
  match k with
  | KImm | KImmReg => (v < -2147483648 \/ 2147483647 < v)%Z
  | KOff | KAddrOff => (v < 0 \/ 4294967295 < v)%Z
  | _ => False
  end -> verdict ev local k a = VDiag DValueRange.
Proof. exact verdict_out_of_range. Qed.

(* ... in a register list the first item that is not a register name decides *)
Theorem C04_rejects_regset_item : forall ev local items pre post, items = map AIdent pre ++ post ->
  Forall (fun n => regl n <> None) pre ->
  match post with
  | AIdent s :: _ => regl s = None -> verdict ev local KSet (ASeq items) = VDiag DNoSuchRegister
  | x :: _ => is_ident x = false -> verdict ev local KSet (ASeq items) = VDiag DArgType
  | [] => True
  end.
Proof. exact verdict_regset_item. Qed.

(* no index out of bounds, no unreachable arm, for any statement and any evaluator *)
Theorem C04_never_panics : forall ev local addr name args, assemble_stmt ev local addr name args <> CPanic.
Proof. exact stmt_no_panic. Qed.

(* never a wrapped, truncated or neighbouring encoding: what assembles to i is the mnemonic of i, was read as exactly the
   operand values of i (each field of i is the value of its argument; PC-relative: target - (address + 4) exactly), i is
   within the Rust field types, and the encoder's answer on i is the ARMv6-M table's answer (bytes or Unrepresentable) *)
Theorem C04_no_wrap : forall ev local addr name args i st',
  assemble_stmt ev local addr name args = COk i st' ->
  template name = Some (kind_template i) /\ wf_instr i /\ stmt_reads ev i addr args /\ enc i = of_spec (armv6m_enc i).
Proof. exact no_wrap. Qed.

(* 4. from the CHARACTERS: the statement written as the tokens ws (any rendering of its argument trees: redundant parentheses
   anywhere; every number in radix 2/8/10/16, either digit case, leading zeros, or as a character literal) with any
   separators seps (white space, comments, line breaks) that do not fuse tokens *)
Theorem C04_text : forall lk local i addr hws name args ws seps,
  wf_instr i -> enc i = EncOk hws -> target_in_space i addr = true ->
  In (upper_str name) (mnemonic_names i) -> Forall2 (writes lk) (operands i addr) args ->
  RendStmts [EInstruction name args] (map wtok_val ws) -> Forall wtok_ok ws -> wseps_ok ws seps ->
  asm_text lk local addr (showw ws seps) = Some i.
Proof. exact written_text_assembles. Qed.

Theorem C04_text_canonical : forall lk local i addr hws name args seps,
  wf_instr i -> enc i = EncOk hws -> target_in_space i addr = true ->
  In (upper_str name) (mnemonic_names i) -> Forall2 (writes lk) (operands i addr) args ->
  writable_stmt (EInstruction name args) = true -> seps_ok (render_stmt (EInstruction name args)) seps ->
  asm_text lk local addr (show (render_stmt (EInstruction name args)) seps) = Some i.
Proof. exact written_text_assembles_canonical. Qed.

Theorem C04_text_respelled : forall lk local i addr hws name args' ws seps,
  (forall t, t < 4294967296 -> lk (label t) = Found (Z.of_N t)) ->
  wf_instr i -> enc i = EncOk hws -> target_in_space i addr = true ->
  In (upper_str name) (mnemonic_names i) -> Forall2 respelled (display_args i addr) args' ->
  RendStmts [EInstruction name args'] (map wtok_val ws) -> Forall wtok_ok ws -> wseps_ok ws seps ->
  asm_text lk local addr (showw ws seps) = Some i.
Proof. exact respelled_text_assembles. Qed.

(* ------------------------------------------------------------------------------------------------------------------ *)
(* 5. the checks made after the operands are converted.  stmt_outcome ev local addr name args = Emits i hws | Rejects d |
   Defers c | Panics: operand processing (assemble_stmt), then the encoder; in the vocabulary of the model: *)
Theorem C04_outcome_meaning : forall ev local addr name args,
  match stmt_outcome ev local addr name args with
  | Emits i hws => exists st, assemble_stmt ev local addr name args = COk i st /\ enc i = EncOk hws
  | Rejects d => (exists st, assemble_stmt ev local addr name args = CDiag d st) \/
                 (d = DEncode /\ exists i st, assemble_stmt ev local addr name args = COk i st /\ enc_bytes i 4 = EbUnrep)
  | Defers c => exists st, assemble_stmt ev local addr name args = CDefer c st
  | Panics => False
  end.
Proof. exact outcome_meaning. Qed.

(* every instruction value i (all registers, unbounded immediates), every statement whose arguments are read as the operands
   of i (stored as written: everything but the PC-relative targets): the ARMv6-M operand rule of i decides -- it holds:
   exactly i with the table's halfwords; it fails: a diagnostic (DValueRange if a value does not fit its type), never an
   instruction.  emits_table o i := exists hws, armv6m_enc i = Some hws /\ o = Emits i hws *)
Theorem C04_operand_rule_decides : forall ev local addr name i ops args,
  In (upper_str name) (mnemonic_names i) -> In ops (direct_forms i addr) -> Forall2 (reads ev) ops args ->
  if operand_rule i then emits_table (stmt_outcome ev local addr name args) i
  else stmt_outcome ev local addr name args = Rejects (if in_types i then DEncode else DValueRange).
Proof. exact rule_decides. Qed.

(* the operand rule (written for reading, AsmPostChecks.operand_rule) is exactly the domain of the ARMv6-M table *)
Theorem C04_operand_rule_is_table : forall i, wf_instr i -> (operand_rule i = true <-> armv6m_enc i <> None).
Proof. exact rule_is_table. Qed.

(* 5a. checks of ArmInstr::assemble.  BKPT / SVC / UDF.N #0..255, UDF.W #0..65535: any other number is DValueRange *)
Theorem C04_number_range : forall ev local addr name mk hi a v,
  In (upper_str name, mk, hi) [($"BKPT", Bkpt, 255); ($"SVC", Svc, 255); ($"UDF.N", Udf, 255); ($"UDF.W", Udfw, 65535)]%Z ->
  ev a = (AConst v, SComplete) ->
  if zin v 0 hi then emits_table (stmt_outcome ev local addr name [a]) (mk (Z.to_N v))
  else stmt_outcome ev local addr name [a] = Rejects DValueRange.
Proof. exact number_checked. Qed.

(* RSBS Rd, Rn, #0: any other number is DValueRange *)
Theorem C04_rsbs_zero : forall ev local addr name sd sn a d n v,
  upper_str name = $"RSBS" -> regl sd = Some d -> regl sn = Some n -> ev a = (AConst v, SComplete) ->
  let out := stmt_outcome ev local addr name [AIdent sd; AIdent sn; a] in
  if Z.eqb v 0 then (if low d && low n then emits_table out (Rsb d n) else out = Rejects DEncode)
  else out = Rejects DValueRange.
Proof. exact rsbs_zero. Qed.

(* CPSIE / CPSID i; DMB / DSB / ISB SY: the flag in any letter case, any other identifier is DValueRange *)
Theorem C04_flag_names : forall ev local addr name lit i s,
  In (upper_str name, lit, i)
     [($"CPSIE", "i", Cps true); ($"CPSID", "i", Cps false); ($"DMB", "SY", Dmb); ($"DSB", "SY", Dsb); ($"ISB", "SY", Isb)]%string ->
  (upper_str s = upper_str ($ lit) -> emits_table (stmt_outcome ev local addr name [AIdent s]) i) /\
  (upper_str s <> upper_str ($ lit) -> stmt_outcome ev local addr name [AIdent s] = Rejects DValueRange).
Proof. exact flag_checked. Qed.

(* LDRSB / LDRSH Rt, [Rn + Rm]: an immediate offset is DValueRange *)
Theorem C04_ldrs_register_offset : forall ev local addr name mk sd d a inner b x,
  In (upper_str name, mk) [($"LDRSB", Ldrsb); ($"LDRSH", Ldrsh)] -> regl sd = Some d ->
  ev a = (AAddr inner, SComplete) -> addr_off inner = inl (b, Some x) ->
  let out := stmt_outcome ev local addr name [AIdent sd; a] in
  match x with
  | Reg o => if low d && low b && low o then emits_table out (mk d b o) else out = Rejects DEncode
  | Imm _ => out = Rejects DValueRange
  end.
Proof. exact ldrs_register_offset. Qed.

(* B / B<c> target (any number t): outside the address space DValueRange; offset t - (address + 4) outside -2048..2046
   (B) / -256..254 (B<c>) DRange; odd DAlignment; otherwise exactly that offset *)
Theorem C04_branch_target : forall ev local addr name c a t,
  In (upper_str name) (mnemonic_names (B c 0)) -> ev a = (AConst t, SComplete) ->
  let off := (t - (Z.of_N addr + 4))%Z in
  let out := stmt_outcome ev local addr name [a] in
  if negb (zin t 0 4294967295) then out = Rejects DValueRange
  else if negb (zin off (fst (branch_range c)) (snd (branch_range c))) then out = Rejects DRange
  else if negb (mult off 2) then out = Rejects DAlignment
  else emits_table out (B c off).
Proof. exact branch_target_checked. Qed.

(* BL target: offset -2^24 .. 2^24 - 1 and even *)
Theorem C04_bl_target : forall ev local addr name a t,
  upper_str name = $"BL" -> ev a = (AConst t, SComplete) ->
  let off := (t - (Z.of_N addr + 4))%Z in
  let out := stmt_outcome ev local addr name [a] in
  if negb (zin t 0 4294967295) then out = Rejects DValueRange
  else if negb (zin off (-16777216) 16777215) then out = Rejects DRange
  else if negb (mult off 2) then out = Rejects DAlignment
  else emits_table out (Bl off).
Proof. exact bl_target_checked. Qed.

(* ADR Rd, target / LDR Rt, target: offset from the word-aligned statement address + 4 in 0..1020, a multiple of 4, Rd low *)
Theorem C04_literal_target : forall ev local addr name mk sd d a t,
  In (upper_str name, mk) [($"ADR", fun off => Adr d (Z.to_N off)); ($"LDR", fun off => Ldr d PC (Imm off))] ->
  regl sd = Some d -> ev a = (AConst t, SComplete) ->
  let off := (t - (Z.of_N (N.land addr 0xFFFFFFFC) + 4))%Z in
  let out := stmt_outcome ev local addr name [AIdent sd; a] in
  if negb (zin t 0 4294967295) then out = Rejects DValueRange
  else if negb (zin off 0 1020) then out = Rejects DRange
  else if negb (mult off 4) then out = Rejects DAlignment
  else if low d then emits_table out (mk off) else out = Rejects DEncode.
Proof. exact literal_target_checked. Qed.

(* 5b. checks of the encoder, by mnemonic family (instances of C04_operand_rule_decides).  Shift amounts *)
Theorem C04_shift_amount : forall ev local addr name mk hi sd sm a d m v,
  In (upper_str name, mk, hi) [($"LSLS", Lsl, 31); ($"LSRS", Lsr, 32); ($"ASRS", Asr, 32)]%Z ->
  regl sd = Some d -> regl sm = Some m -> ev a = (AConst v, SComplete) ->
  let out := stmt_outcome ev local addr name [AIdent sd; AIdent sm; a] in
  if low d && low m && zin v 1 hi then emits_table out (mk d m (Imm v))
  else out = Rejects (if i32b v then DEncode else DValueRange).
Proof. exact shift_amount_checked. Qed.

(* ADDS / SUBS Rd, Rn, #imm: 0..255 when Rd = Rn, 0..7 otherwise; low registers *)
Theorem C04_addsub_immediate : forall ev local addr name mk sd sn a d n v,
  In (upper_str name, mk) [($"ADDS", Add true); ($"SUBS", Sub true)] ->
  regl sd = Some d -> regl sn = Some n -> ev a = (AConst v, SComplete) ->
  let out := stmt_outcome ev local addr name [AIdent sd; AIdent sn; a] in
  if (if same d n then low d && zin v 0 255 else low d && low n && zin v 0 7) then emits_table out (mk d n (Imm v))
  else out = Rejects (if i32b v then DEncode else DValueRange).
Proof. exact addsub_immediate_checked. Qed.

(* ADD Rd, SP, #0..1020 step 4 (Rd low) | ADD SP, SP, #0..508 step 4;  SUB SP, SP, #0..508 step 4 *)
Theorem C04_add_sp : forall ev local addr name sd sn a d n v,
  upper_str name = $"ADD" -> regl sd = Some d -> regl sn = Some n -> ev a = (AConst v, SComplete) ->
  let out := stmt_outcome ev local addr name [AIdent sd; AIdent sn; a] in
  if isSP n && mult v 4 && (if isSP d then zin v 0 508 else low d && zin v 0 1020) then emits_table out (Add false d n (Imm v))
  else out = Rejects (if i32b v then DEncode else DValueRange).
Proof. exact add_sp_checked. Qed.
Theorem C04_sub_sp : forall ev local addr name sd sn a d n v,
  upper_str name = $"SUB" -> regl sd = Some d -> regl sn = Some n -> ev a = (AConst v, SComplete) ->
  let out := stmt_outcome ev local addr name [AIdent sd; AIdent sn; a] in
  if isSP d && isSP n && mult v 4 && zin v 0 508 then emits_table out (Sub false d n (Imm v))
  else out = Rejects (if i32b v then DEncode else DValueRange).
Proof. exact sub_sp_checked. Qed.

(* MOVS / CMP Rd, #0..255 (Rd low); MOV has no immediate form *)
Theorem C04_mov_cmp_immediate : forall ev local addr name mk has sd a d v,
  In (upper_str name, mk, has) [($"MOVS", Mov true, true); ($"CMP", Cmp, true); ($"MOV", Mov false, false)] ->
  regl sd = Some d -> ev a = (AConst v, SComplete) ->
  let out := stmt_outcome ev local addr name [AIdent sd; a] in
  if has && (low d && zin v 0 255) then emits_table out (mk d (Imm v))
  else out = Rejects (if i32b v then DEncode else DValueRange).
Proof. exact mov_cmp_immediate_checked. Qed.

(* loads / stores [Rn + #imm]: word 0..124 step 4 (SP-relative, and PC-relative for LDR: 0..1020 step 4), halfword 0..62 step 2,
   byte 0..31; low registers (word_load_rule, word_store_rule, half_rule, byte_rule in Arm/AsmPostChecksStmt.v) *)
Theorem C04_load_store_offset : forall ev local addr name mk rule st a inner t n v,
  In (upper_str name, mk, rule) [($"LDR", Ldr, word_load_rule); ($"STR", Str, word_store_rule); ($"LDRH", Ldrh, half_rule);
                                 ($"STRH", Strh, half_rule); ($"LDRB", Ldrb, byte_rule); ($"STRB", Strb, byte_rule)] ->
  regl st = Some t -> ev a = (AAddr inner, SComplete) -> addr_off inner = inl (n, Some (Imm v)) ->
  let out := stmt_outcome ev local addr name [AIdent st; a] in
  if rule t n v then emits_table out (mk t n (Imm v)) else out = Rejects DEncode.
Proof. exact offset_checked. Qed.

(* PUSH {R0-R7, LR} / POP {R0-R7, PC}: by the registers NAMED (any spelling, order, repetitions), not empty *)
Theorem C04_push_pop_list : forall ev local addr name mk extra names rs,
  In (upper_str name, mk, extra) [($"PUSH", Push, LR); ($"POP", Pop, PC)] ->
  Forall2 (fun s r => regl s = Some r) names rs ->
  let out := stmt_outcome ev local addr name [ASeq (map AIdent names)] in
  if negb (isnil rs) && forallb (fun r => low r || same r extra) rs then emits_table out (mk (mask_of rs))
  else out = Rejects DEncode.
Proof. exact push_pop_list_checked. Qed.

(* LDM / STM Rn, {R0-R7}: Rn low *)
Theorem C04_ldm_stm_list : forall ev local addr name mk sn n names rs,
  In (upper_str name, mk) [($"LDM", Ldm); ($"STM", Stm)] -> regl sn = Some n ->
  Forall2 (fun s r => regl s = Some r) names rs ->
  let out := stmt_outcome ev local addr name [AIdent sn; ASeq (map AIdent names)] in
  if low n && forallb low rs then emits_table out (mk n (mask_of rs)) else out = Rejects DEncode.
Proof. exact ldm_stm_list_checked. Qed.

(* register classes: two-register data processing takes R0-R7; BX / BLX any register but PC; MRS / MSR neither SP nor PC *)
Theorem C04_low_registers : forall ev local addr name mk sd sm d m,
  In (upper_str name, mk) low_pair_stmts -> regl sd = Some d -> regl sm = Some m ->
  let out := stmt_outcome ev local addr name [AIdent sd; AIdent sm] in
  if low d && low m then emits_table out (mk d m) else out = Rejects DEncode.
Proof. exact low_registers_checked. Qed.
Theorem C04_branch_register : forall ev local addr name mk sm m,
  In (upper_str name, mk) [($"BX", Bx); ($"BLX", Blx)] -> regl sm = Some m ->
  let out := stmt_outcome ev local addr name [AIdent sm] in
  if negb (isPC m) then emits_table out (mk m) else out = Rejects DEncode.
Proof. exact branch_register_checked. Qed.
Theorem C04_special_register : forall ev local addr name sr ss r s,
  regl sr = Some r -> sysl ss = Some s ->
  (upper_str name = $"MRS" ->
     let out := stmt_outcome ev local addr name [AIdent sr; AIdent ss] in
     if negb (isSP r) && negb (isPC r) then emits_table out (Mrs r s) else out = Rejects DEncode) /\
  (upper_str name = $"MSR" ->
     let out := stmt_outcome ev local addr name [AIdent ss; AIdent sr] in
     if negb (isSP r) && negb (isPC r) then emits_table out (Msr s r) else out = Rejects DEncode).
Proof. exact special_register_checked. Qed.

(* ------------------------------------------------------------------------------------------------------------------ *)
(* 6. EVERY statement from its characters.  text_outcome lk local addr text = Some (stmt_outcome (ev_of lk) local addr name args)
   when the tokenizer and parser models read the text as the one instruction statement `name args`, None otherwise.
   The operand converters see an argument either as written (view_syn: which register / special register an identifier names,
   whether it is `i` / `SY` up to letter case, the bits of a register list) or evaluated (view_ev: the number, the register, the
   decomposed memory operand, the deferral cause, the error class); same_operands ev t args args' = no converter of the
   template t tells args from args'.  Then the outcome is the same: instruction AND halfwords, diagnostic, deferral cause *)
Theorem C04_outcome_same_operands : forall ev local addr name name' t args args',
  template name = Some t -> template name' = Some t -> same_operands ev t args args' ->
  stmt_outcome ev local addr name args = stmt_outcome ev local addr name' args'.
Proof. exact outcome_same_operands. Qed.

(* mnemonic identity: letter case, and the alias mnemonics of one instruction *)
Theorem C04_mnemonic_identity : forall name name', upper_str name = upper_str name' -> template name = template name'.
Proof. exact template_same_upper. Qed.
Theorem C04_mnemonic_aliases : forall i name name', In (upper_str name) (mnemonic_names i) -> In (upper_str name') (mnemonic_names i) ->
  template name = template name'.
Proof. exact template_same_instr. Qed.

(* a spelling a of the tree c (AsmSpellSpec.spells: any name of the same register / special register; another letter case of
   an identifier the constant table does not tell apart; the number v as any expression tree, not a lone identifier, that
   evaluates to v; [b + v] as [b' + e], [v + b] as [e + b'], for v >= 0 [b + v] as [e + b'], [b + 0] as [b'], [b + r] as
   [b' + r']; register lists item by item or as any list naming the same set) is indistinguishable from c for EVERY converter *)
Theorem C04_spelling_indistinguishable : forall lk c a, spells lk c a -> same_operand (ev_of lk) c a.
Proof. exact spells_same. Qed.

(* every literal expression tree with ideal value v (C07) spells the number v *)
Theorem C04_literal_spelling : forall lk t v, literal_tree t = true -> ideal t = Val v -> spells lk (AConst v) t.
Proof. exact literal_spells. Qed.

(* hence the outcome -- of accepted AND of rejected statements -- does not depend on the spelling of mnemonic and operands *)
Theorem C04_outcome_spelled : forall lk local addr name cname args cargs,
  template name = template cname -> Forall2 (spells lk) cargs args ->
  stmt_outcome (ev_of lk) local addr name args = stmt_outcome (ev_of lk) local addr cname cargs.
Proof. exact outcome_spelled. Qed.

(* characters -> argument trees: the statement written as the tokens ws (any rendering of its argument trees: redundant
   parentheses; every number in any radix / digit case / leading zeros / as a character literal) with any separators seps
   (white space, line breaks, line comments, block comments nested to any depth below 2^31) that do not fuse tokens has the
   outcome of its argument trees.  Through this, every theorem about stmt_outcome above is a theorem about source text *)
Theorem C04_text_outcome_tree : forall lk local addr name args ws seps,
  RendStmts [EInstruction name args] (map wtok_val ws) -> Forall wtok_ok ws -> nwseps_ok ws seps ->
  text_outcome lk local addr (showw ws seps) = Some (stmt_outcome (ev_of lk) local addr name args).
Proof. exact text_outcome_tree. Qed.

(* both: the text of ANY statement has the outcome of the canonical statement it spells *)
Theorem C04_text_outcome : forall lk local addr name cname args cargs ws seps,
  template name = template cname -> Forall2 (spells lk) cargs args ->
  RendStmts [EInstruction name args] (map wtok_val ws) -> Forall wtok_ok ws -> nwseps_ok ws seps ->
  text_outcome lk local addr (showw ws seps) = Some (stmt_outcome (ev_of lk) local addr cname cargs).
Proof. exact text_outcome_spelled. Qed.

(* ... by operand VALUES (ops : any list of AsmOperands.opspec -- any count, any kinds, any numbers): when each argument is a
   documented way of writing the value (AsmOperands.writes, with the side conditions of AsmSpellSpec.denotes) the outcome is
   that of `cname (map canon ops)`: registers by their canonical names, numbers as constants, [b + v], {..} in ascending
   order.  The outcome is a function of the mnemonic and the operand values only *)
Theorem C04_text_outcome_values : forall lk local addr name cname ops args ws seps,
  template name = template cname -> Forall2 (denotes lk) ops args ->
  RendStmts [EInstruction name args] (map wtok_val ws) -> Forall wtok_ok ws -> nwseps_ok ws seps ->
  text_outcome lk local addr (showw ws seps) = Some (stmt_outcome (ev_of lk) local addr cname (map canon ops)).
Proof. exact text_outcome_values. Qed.

(* no text panics *)
Theorem C04_text_never_panics : forall lk local addr text, text_outcome lk local addr text <> Some Panics.
Proof. exact text_never_panics. Qed.

(* the rejections from the characters.  The operand rule decides (C04_operand_rule_decides as text): operands read as the
   operand values of i -- the rule holds: exactly i with the table's halfwords; it fails: a diagnostic, never bytes *)
Theorem C04_text_operand_rule : forall lk local addr name i ops args ws seps,
  In (upper_str name) (mnemonic_names i) -> In ops (direct_forms i addr) -> Forall2 (reads (ev_of lk)) ops args ->
  RendStmts [EInstruction name args] (map wtok_val ws) -> Forall wtok_ok ws -> nwseps_ok ws seps ->
  if operand_rule i then exists hws, armv6m_enc i = Some hws /\ text_outcome lk local addr (showw ws seps) = Some (Emits i hws)
  else text_outcome lk local addr (showw ws seps) = Some (Rejects (if in_types i then DEncode else DValueRange)).
Proof. exact text_operand_rule. Qed.

Theorem C04_text_rejects_operand_rule : forall lk local addr name i ops args ws seps,
  In (upper_str name) (mnemonic_names i) -> In ops (direct_forms i addr) -> Forall2 (reads (ev_of lk)) ops args ->
  RendStmts [EInstruction name args] (map wtok_val ws) -> Forall wtok_ok ws -> nwseps_ok ws seps ->
  operand_rule i = false ->
  text_outcome lk local addr (showw ws seps) = Some (Rejects (if in_types i then DEncode else DValueRange)).
Proof. exact text_rejects_operand_rule. Qed.

(* ... with the operands WRITTEN in a documented way (opspec_ok: memory offsets non-negative and within i32) *)
Theorem C04_text_rejects_operand_rule_written : forall lk local addr name i ops args ws seps,
  In (upper_str name) (mnemonic_names i) -> In ops (direct_forms i addr) -> Forall opspec_ok ops -> Forall2 (writes lk) ops args ->
  RendStmts [EInstruction name args] (map wtok_val ws) -> Forall wtok_ok ws -> nwseps_ok ws seps ->
  operand_rule i = false ->
  text_outcome lk local addr (showw ws seps) = Some (Rejects (if in_types i then DEncode else DValueRange)).
Proof. exact text_rejects_operand_rule_written. Qed.

(* one operand too many / too few (any number of them) *)
Theorem C04_text_rejects_arity : forall lk local addr name t args ws seps,
  template name = Some t -> List.length args <> List.length (kinds t) ->
  RendStmts [EInstruction name args] (map wtok_val ws) -> Forall wtok_ok ws -> nwseps_ok ws seps ->
  text_outcome lk local addr (showw ws seps) =
    Some (Rejects (if Nat.ltb (List.length (kinds t)) (List.length args) then DTooMany else DNotEnough)).
Proof. exact text_rejects_arity. Qed.

Theorem C04_text_rejects_unknown_mnemonic : forall lk local addr name args ws seps,
  template name = None ->
  RendStmts [EInstruction name args] (map wtok_val ws) -> Forall wtok_ok ws -> nwseps_ok ws seps ->
  text_outcome lk local addr (showw ws seps) = Some (Rejects DNotFound).
Proof. exact text_rejects_unknown_mnemonic. Qed.

(* right count: the first operand whose converter rejects it (C04_rejects_wrong_kind, _unknown_register, _out_of_range,
   _regset_item say when) decides *)
Theorem C04_text_rejects_first_failure : forall lk local addr name t args p k a d ws seps,
  template name = Some t -> List.length args = List.length (kinds t) ->
  nth_error (kinds t) p = Some k -> nth_error args p = Some a -> verdict (ev_of lk) local k a = VDiag d ->
  (forall q kq aq, (q < p)%nat -> nth_error (kinds t) q = Some kq -> nth_error args q = Some aq -> verdict (ev_of lk) local kq aq = VAccept) ->
  RendStmts [EInstruction name args] (map wtok_val ws) -> Forall wtok_ok ws -> nwseps_ok ws seps ->
  text_outcome lk local addr (showw ws seps) = Some (Rejects d).
Proof. exact text_rejects_first_failure. Qed.

(* ------------------------------------------------------------------------------------------------------------------ *)
(* 7. the Context.  From a state that satisfies the segment invariant of C13 (SegProofs.Inv) with the active segment s, when no
   evaluation of an argument panics, the Context model's step on the instruction statement e = `name args` at (line, col) is
   InstrOutcomeSpec.instr_step: room for 2 bytes, mnemonic lookup, operand processing at the address curr_addr s with the
   Context's evaluator, then by the result -- see InstrOutcomeSpec.v (place, placeholder) *)
Theorem C04_step_is_instr_step : forall dbg fs inc st s e name args,
  SegProofs.Inv st -> CtxModel.active st = CtxModel.Active s -> e_val e = EInstruction name args -> CtxModel.first_panic st args = None ->
  CtxModel.step dbg fs inc st e = InstrOutcomeSpec.instr_step st s (e_line e) (e_col e) name args.
Proof. exact InstrOutcome.step_instr. Qed.

(* a full segment (fewer than 2 bytes left): the capacity diagnostic of C13 at the statement's position, nothing else *)
Theorem C04_full_segment : forall dbg fs inc st s e name args,
  SegProofs.Inv st -> CtxModel.active st = CtxModel.Active s -> e_val e = EInstruction name args ->
  CtxSeg.s_max s - CtxSeg.blen s < 2 ->
  CtxModel.step dbg fs inc st e
    = CtxModel.Ret (Some CtxModel.Fatal) (CtxModel.push_error st (e_line e) (e_col e) CtxModel.KInstrSegOverflow).
Proof. exact InstrOutcome.step_instr_no_room. Qed.

(* by outcome (ev_ok: the constant table of the current realm exists).  place st s f l c data = data appended to the active
   segment at the statement's address curr_addr s, or -- beyond the segment's limit -- the diagnostic KInstrSegOverflow at
   (f, l, c) with result Fatal and nothing written.  placeholder st s f l c ai = the partially converted template ai encoded:
   as many 0xBE bytes as its encoding has are placed and the statement is scheduled as a local task (result Ok); a partial
   template without encoding: the diagnostic DEncode, Fatal, nothing written.
   Emits i hws: exactly the little-endian bytes of hws.  Rejects d: the diagnostic d at the statement's position is pushed;
   unknown mnemonic / encoder refused the converted instruction: result Fatal, no bytes; a converter refused: the placeholder
   on top of the diagnostic (the statement is treated like a deferred one).  Defers c: the placeholder *)
Theorem C04_outcome_is_context : forall dbg fs inc st s e name args,
  SegProofs.Inv st -> CtxNoPanic.ev_ok st -> CtxModel.active st = CtxModel.Active s -> e_val e = EInstruction name args ->
  2 <= CtxSeg.s_max s - CtxSeg.blen s ->
  let file := CtxModel.curr_name st in let line := e_line e in let col := e_col e in let addr := CtxSeg.curr_addr s in
  match stmt_outcome (CtxModel.instr_ev st) true addr name args with
  | Emits i hws => CtxModel.step dbg fs inc st e = InstrOutcomeSpec.place st s file line col (le_bytes hws)
  | Rejects d =>
      let st1 := CtxModel.push_error_in st file line col (CtxModel.KInstr d) in
      ((template name = None \/ exists i a, assemble_stmt (CtxModel.instr_ev st) true addr name args = COk i a) /\
       CtxModel.step dbg fs inc st e = CtxModel.Ret (Some CtxModel.Fatal) st1)
      \/ exists t a, template name = Some t /\ assemble_args (CtxModel.instr_ev st) true addr t (mkAst args 0) = CDiag d a /\
           CtxModel.step dbg fs inc st e
             = InstrOutcomeSpec.placeholder st1 s file line col (CtxModel.mkAI file line col addr (CtxModel.partial_instr t a) a)
  | Defers c => exists t a, template name = Some t /\ assemble_args (CtxModel.instr_ev st) true addr t (mkAst args 0) = CDefer c a /\
           CtxModel.step dbg fs inc st e
             = InstrOutcomeSpec.placeholder st s file line col (CtxModel.mkAI file line col addr (CtxModel.partial_instr t a) a)
  | Panics => False
  end.
Proof. exact InstrOutcome.outcome_is_context. Qed.

Local Open Scope string_scope.
Theorem C04_examples :
  regl (bytes_of_string "r13"%string) = Some SP /\ regl (bytes_of_string "Lr"%string) = Some LR /\ regl (bytes_of_string "R16"%string) = None /\
  template (bytes_of_string "bics"%string) = Some (Bic R0 R0) /\ template (bytes_of_string "BICSS"%string) = None /\
  is_register (bytes_of_string "primask"%string) = true /\
  (* source text -> instruction, with the table k = 3 *)
  let lk := fun s => if str_eqb s (bytes_of_string "k"%string) then Found 3%Z else NotFound in
  let txt (s : string) := asm_text lk false 0x100 (bytes_of_string s) in
  let dg name args := conv_diag (assemble_stmt (ev_of lk) false 0x100 (bytes_of_string name) args) in
  txt "ldrB r1 , [ 2*2 + R13 ] /* c */ ;"%string = Some (Ldrb R1 SP (Imm 4)) /\
  txt "bHs 0x100+4+(k-1)*2;"%string = Some (B CarrySet 4) /\
  txt "LDR r7,0x104+0b1000;"%string = Some (Ldr R7 PC (Imm 8)) /\
  txt "push {lr, R4, r4,r14};"%string = Some (Push 16400) /\
  txt "cpsie I;"%string = Some (Cps true) /\ txt "str r0, [sp];"%string = Some (Str R0 SP (Imm 0)) /\
  dg "movs"%string [AIdent (bytes_of_string "r0"%string); AConst 4294967296] = Some DValueRange /\
  dg "movs"%string [AIdent (bytes_of_string "r16"%string); AConst 1] = Some DNoSuchRegister /\
  dg "movs"%string [AConst 1; AConst 1] = Some DArgType /\
  dg "movs"%string [AIdent (bytes_of_string "r0"%string)] = Some DNotEnough /\
  dg "beq"%string [AConst 0x204] = Some DRange /\ dg "beq"%string [AConst 0x107] = Some DAlignment /\
  (* converts, but the table has no row: the encoder rejects, nothing is truncated *)
  conv_val (assemble_stmt (ev_of lk) false 0x100 (bytes_of_string "movs"%string) [AIdent (bytes_of_string "r0"%string); AConst 256])
    = Some (Mov true R0 (Imm 256)) /\ enc (Mov true R0 (Imm 256)) = EncUnrep /\
  (* post-conversion checks: at the edge of each rule, and just beyond *)
  let go name args := stmt_outcome (ev_of lk) false 0x100 (bytes_of_string name) args in
  let r (s : string) := AIdent (bytes_of_string s) in
  go "bkpt"%string [AConst 255] = Emits (Bkpt 255) [0xBEFF] /\ go "bkpt"%string [AConst 256] = Rejects DValueRange /\
  go "BKPT"%string [ANeg (AConst 1)] = Rejects DValueRange /\ go "svc"%string [AConst 256] = Rejects DValueRange /\
  go "udf.w"%string [AConst 65535] = Emits (Udfw 65535) [0xF7FF; 0xAFFF] /\ go "udf.w"%string [AConst 65536] = Rejects DValueRange /\
  go "rsbs"%string [r "r0"; r "r1"; AConst 0] = Emits (Rsb R0 R1) [0x4248] /\ go "rsbs"%string [r "r0"; r "r1"; AConst 1] = Rejects DValueRange /\
  go "cpsid"%string [r "I"] = Emits (Cps false) [0xB672] /\ go "cpsie"%string [r "f"] = Rejects DValueRange /\
  go "dmb"%string [r "ish"] = Rejects DValueRange /\
  go "ldrsb"%string [r "r0"; AAddr (AAdd (r "r1") (AConst 4))] = Rejects DValueRange /\
  go "lsrs"%string [r "r0"; r "r1"; AConst 32] = Emits (Lsr R0 R1 (Imm 32)) [0x0808] /\
  go "lsls"%string [r "r0"; r "r1"; AConst 32] = Rejects DEncode /\ go "lsls"%string [r "r0"; r "r1"; AConst 0] = Rejects DEncode /\
  go "adds"%string [r "r0"; r "r0"; AConst 255] = Emits (Add true R0 R0 (Imm 255)) [0x30FF] /\
  go "adds"%string [r "r0"; r "r1"; AConst 8] = Rejects DEncode /\
  go "add"%string [r "r0"; r "sp"; AConst 1020] = Emits (Add false R0 SP (Imm 1020)) [0xA8FF] /\
  go "add"%string [r "r0"; r "sp"; AConst 1022] = Rejects DEncode /\ go "add"%string [r "sp"; r "sp"; AConst 512] = Rejects DEncode /\
  go "ldr"%string [r "r0"; AAddr (AAdd (r "sp") (AConst 1020))] = Emits (Ldr R0 SP (Imm 1020)) [0x98FF] /\
  go "ldr"%string [r "r0"; AAddr (AAdd (r "r1") (AConst 128))] = Rejects DEncode /\
  go "ldrh"%string [r "r0"; AAddr (AAdd (r "r1") (AConst 3))] = Rejects DEncode /\
  go "push"%string [ASeq [r "lr"; r "r0"]] = Emits (Push 16385) [0xB501] /\ go "push"%string [ASeq [r "r8"]] = Rejects DEncode /\
  go "pop"%string [ASeq []] = Rejects DEncode /\ go "adcs"%string [r "r8"; r "r0"] = Rejects DEncode /\
  go "bx"%string [r "pc"] = Rejects DEncode /\ go "mrs"%string [r "sp"; r "apsr"] = Rejects DEncode /\
  go "b"%string [AConst 0x904] = Rejects DRange /\ go "bl"%string [AConst 0x1000103] = Rejects DAlignment /\
  go "adr"%string [r "r8"; AConst 0x108] = Rejects DEncode /\ go "ldr"%string [r "r0"; AConst 0x106] = Rejects DAlignment /\
  (* from the CHARACTERS to the outcome: an accepted statement in an exotic spelling with a nested comment; rejected ones:
     immediate range, value outside its type, operand count (both ways), register class *)
  let out (s : string) := text_outcome lk false 0x100 (bytes_of_string s) in
  out "sTr /* a /* nested */ c */ R1 , [ 0b10*2 + r13 ] ; // end"%string = Some (Emits (Str R1 SP (Imm 4)) [0x9101]) /\
  out "Add Sp, r13, ((0x1FC)) /* 508 */;"%string = Some (Emits (Add false SP SP (Imm 508)) [0xB07F]) /\
  out "Add Sp, r13, ((0x1FC)) + 4 /* 512 */;"%string = Some (Rejects DEncode) /\
  out "movs r0, 0x100;"%string = Some (Rejects DEncode) /\ out "UDF.w 0x10000 ;"%string = Some (Rejects DValueRange) /\
  out "wfi r0;"%string = Some (Rejects DTooMany) /\ out "movs r0;"%string = Some (Rejects DNotEnough) /\
  out "adcs r8, R0;"%string = Some (Rejects DEncode) /\ out "bx PC;"%string = Some (Rejects DEncode) /\
  out "beq 0x204;"%string = Some (Rejects DRange) /\ out "movs r0, 1"%string = None /\
  (* the Context: active segment at 0x100 with room for 16 bytes, statement at line 3, column 5 of the file f.  Observed:
     (result, bytes of the segment, diagnostics newest first, number of scheduled tasks) *)
  let st0 := CtxModel.mkState MapModel.map_new (CtxModel.Active (CtxSeg.mkSeg 0x100 [] 16)) [] (Some []) [] (Some []) []
                              [bytes_of_string "f"] (bytes_of_string "f") in
  let run name args :=
    match CtxModel.step false (fun _ => None) (fun st _ _ => CtxModel.Ret None st) st0
                        (mkElement 3 5 (EInstruction (bytes_of_string name) args)) with
    | CtxModel.Ret res st' =>
        Some (res, match CtxModel.active st' with CtxModel.Active s => CtxSeg.s_buf s | _ => [] end,
              map (fun d => (CtxModel.d_line d, CtxModel.d_col d, CtxModel.d_class d)) (CtxModel.errors st'),
              match CtxModel.local_tasks st' with Some l => List.length l | None => 99%nat end)
    | _ => None
    end in
  run "movs" [r "r0"; AConst 255] = Some (None, [0xFF; 0x20], [], 0%nat) /\
  run "movs" [r "r0"; AConst 256] = Some (Some CtxModel.Fatal, [], [(3, 5, CtxModel.KInstr DEncode)], 0%nat) /\
  run "wfi" [r "r0"] = Some (None, [0xBE; 0xBE], [(3, 5, CtxModel.KInstr DTooMany)], 1%nat) /\
  run "adcs" [r "r8"; AConst 1]
    = Some (Some CtxModel.Fatal, [], [(3, 5, CtxModel.KInstr DEncode); (3, 5, CtxModel.KInstr DArgType)], 0%nat) /\
  run "movs" [r "r0"; r "later"] = Some (None, [0xBE; 0xBE], [], 1%nat).
Proof. vm_compute. repeat split. Qed.
