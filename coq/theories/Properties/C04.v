(* C04 — An instruction statement assembles to the encoding of what was written.
   Theorems about the model of src/arm6m/mod.rs (mnemonic table, register tables, `convert!` converters,
   per-instruction operand processing); the evaluator is a parameter.  The surface-syntax clause (every
   spelling of a statement, through the real tokenizer, parser and evaluator) is decided by the C04
   correspondence stream, whose oracle StmtSpec.expected_bytes is the ARMv6-M table (C01). *)
From Coq Require Import ZArith NArith List String.
From Trion Require Import Text.Types Arm.Instr Arm.EncodeModel Arm.DisplayModel Arm.DisplayArgs Arm.AsmStmtModel Arm.AsmStmtProofs.
Import ListNotations.
Open Scope N_scope.

(* register operands: every canonical name, any letter case *)
Theorem C04_register_names : forall r, regl (reg_name r) = Some r.
Proof. exact regl_reg_name. Qed.
Theorem C04_register_case : forall s, regl (upper_str s) = regl s.
Proof. exact regl_case_insensitive. Qed.
Theorem C04_special_register_names : forall s, sysl (sysreg_name s) = Some s.
Proof. exact sysl_sysreg_name. Qed.

(* a branch statement that assembles: its operand evaluated to a target inside the address space, the offset
   is exactly target - (statement address + 4), even and inside the instruction's range — never wrapped *)
Theorem C04_branch_exact : forall ev local addr c a off st',
  assemble_args ev local addr (B c 0%Z) (mkAst [a] 0) = COk (B c off) st' ->
  exists tgt, fst (ev a) = AConst (Z.of_N tgt) /\ tgt < 4294967296 /\
    off = (Z.of_N tgt - (Z.of_N addr + 4))%Z /\ Z.land off 1 = 0%Z /\
    (if cond_eqb c Always then (-2048 <= off <= 2046)%Z else (-256 <= off <= 254)%Z).
Proof. exact branch_stmt_exact. Qed.

(* the two PC-relative offset computations: exact difference, range and alignment checked, or a diagnostic *)
Theorem C04_branch_offset : forall addr tgt lo hi st off st', branch_offset addr tgt lo hi st = COk off st' ->
  off = (Z.of_N tgt - (Z.of_N addr + 4))%Z /\ (lo <= off <= hi)%Z /\ Z.land off 1 = 0%Z.
Proof. exact branch_offset_inv. Qed.
Theorem C04_literal_offset : forall addr tgt st off st', lit_offset addr tgt st = COk off st' ->
  off = (Z.of_N tgt - (Z.of_N (N.land addr 0xFFFFFFFC) + 4))%Z /\ (0 <= off <= 1020)%Z /\ Z.land off 3 = 0%Z.
Proof. exact lit_offset_inv. Qed.

(* the documented operand syntax of every instruction kind is accepted and yields exactly the operands written
   (shared with C19: the statement printed for i is the documented syntax) *)
Theorem C04_documented_syntax : forall ev local i addr hws, ev_display ev ->
  wf_instr i -> enc i = EncOk hws -> addr < 4294967296 -> target_in_space i addr = true ->
  conv_val (assemble_stmt ev local addr (mnemonic i) (display_args i addr)) = Some i.
Proof. exact stmt_roundtrip. Qed.

Theorem C04_examples :
  regl (bytes_of_string "r13"%string) = Some SP /\ regl (bytes_of_string "Lr"%string) = Some LR /\ regl (bytes_of_string "R16"%string) = None /\
  template (bytes_of_string "bics"%string) = Some (Bic R0 R0) /\ template (bytes_of_string "BICSS"%string) = None /\
  is_register (bytes_of_string "primask"%string) = true.
Proof. vm_compute. repeat split. Qed.
