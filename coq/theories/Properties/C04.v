(* C04 — An instruction statement assembles to the encoding of what was written.
   Statements only.  Model of src/arm6m/mod.rs: Arm/AsmStmtModel.v (mnemonic table `template`, register tables `regl` / `sysl`,
   the `convert!` converters, per-instruction operand processing `assemble_args`, `assemble_stmt`); the expression evaluator is
   the model of asm::simplify::evaluate under a constant table lk (`ev_of lk`, Arm/AsmEvalLink.v) or, where stated, ANY
   evaluator `ev`.  Oracles: Arm/AsmOperands.v -- `operands i addr` (the operand VALUES of a statement for instruction i:
   PC-relative operands are the absolute target = statement address + 4 (word-aligned first for ADR / literal LDR) + offset),
   `writes lk p a` / `written` (the documented ways of WRITING an operand: any spelling of a register / special register /
   flag name, any expression tree the evaluator reduces to the value, [b + e] | [e + b] | [b], {register lists} in any order),
   `reads ev p a` (the same through an arbitrary evaluator), `mnemonic_names` (BCS/BHS, BCC/BLO, BICS/BIC), `respelled`,
   `kinds` / `verdict` (which operand kind a template expects where and what its converter answers).

   PROVED, over argument trees and over SOURCE TEXT:
   * accepted (completeness): every statement written in a documented way for an encodable instruction i -- mnemonic in any
     letter case or alias, names in any spelling, immediates / targets as arbitrary constant expressions, all memory operand
     forms -- assembles to exactly i (C04_immediate_expressions, C04_spelling_names); from the CHARACTERS, with any
     separators / comments / line breaks / redundant parentheses / number spellings (C04_text, C04_text_canonical,
     C04_text_respelled; composition with C09's text theorems).  The bytes of i are the table's by C01.
   * never wrapped (soundness): a statement that assembles to i was read as exactly the operand values of i, and the encoder's
     answer on i is the ARMv6-M table's answer (C04_no_wrap, C04_branch_exact, C04_branch_offset, C04_literal_offset).
   * rejected: unknown mnemonic, wrong operand count, and -- with the right count -- the first operand (left to right) whose
     converter rejects it decides the diagnostic: wrong kind = DArgType, unknown register = DNoSuchRegister, number outside
     i32 / u32 = DValueRange (the C04_rejects_ theorems); no statement panics (C04_never_panics).
   NOT proved here: (a) that assemble_stmt IS what src/arm6m/mod.rs does -- the model is compared with the real assembler by
   the C04 / C19 correspondence streams; (b) invariance of REJECTED statements under respelling; (c) for statements that
   convert but fail a post-conversion check (BKPT/SVC/UDF range, RSBS #0, flag name, LDRSB offset kind, PC-relative range /
   alignment) the diagnostic class is proved only for the PC-relative checks (C04_branch_offset, C04_literal_offset);
   (d) placing the bytes at the statement's address in the image is C05's business. *)
From Coq Require Import ZArith NArith List String.
From Trion Require Import Text.Types Text.ParseModel Text.Render Text.ParseProofs Text.ShowSpec Expr.I64 Expr.EvalModel Expr.Denote Expr.C08Sound
  Arm.Instr Arm.EncodeModel Arm.Armv6mSpec Arm.CodecCheck Arm.DisplayModel Arm.DisplayArgs Arm.AsmStmtModel Arm.AsmStmtProofs Arm.AsmEvalLink
  Arm.AsmOperands Arm.AsmRejects Arm.AsmSpelling Arm.AsmImmediates Arm.AsmRespell Arm.AsmNoWrap Arm.AsmText Bin.TextRoundtrip.
Import ListNotations.
Open Scope N_scope.

(* register operands: every canonical name, any letter case *)
Theorem C04_register_names : forall r, regl (reg_name r) = Some r.
Proof. exact regl_reg_name. Qed.
Theorem C04_register_case : forall s, regl (upper_str s) = regl s.
Proof. exact regl_case_insensitive. Qed.
Theorem C04_special_register_names : forall s, sysl (sysreg_name s) = Some s.
Proof. exact sysl_sysreg_name. Qed.

(* a branch statement that assembles: its operand evaluated to a target inside the address space, the offset
   is exactly target - (statement address + 4), even and inside the instruction's range — never wrapped *)
Theorem C04_branch_exact : forall ev local addr c a off st',
  assemble_args ev local addr (B c 0%Z) (mkAst [a] 0) = COk (B c off) st' ->
  exists tgt, fst (ev a) = AConst (Z.of_N tgt) /\ tgt < 4294967296 /\
    off = (Z.of_N tgt - (Z.of_N addr + 4))%Z /\ Z.land off 1 = 0%Z /\
    (if cond_eqb c Always then (-2048 <= off <= 2046)%Z else (-256 <= off <= 254)%Z).
Proof. exact branch_stmt_exact. Qed.

(* the two PC-relative offset computations: exact difference, range and alignment checked, or a diagnostic *)
Theorem C04_branch_offset : forall addr tgt lo hi st off st', branch_offset addr tgt lo hi st = COk off st' ->
  off = (Z.of_N tgt - (Z.of_N addr + 4))%Z /\ (lo <= off <= hi)%Z /\ Z.land off 1 = 0%Z.
Proof. exact branch_offset_inv. Qed.
Theorem C04_literal_offset : forall addr tgt st off st', lit_offset addr tgt st = COk off st' ->
  off = (Z.of_N tgt - (Z.of_N (N.land addr 0xFFFFFFFC) + 4))%Z /\ (0 <= off <= 1020)%Z /\ Z.land off 3 = 0%Z.
Proof. exact lit_offset_inv. Qed.

(* the documented operand syntax of every instruction kind is accepted and yields exactly the operands written
   (shared with C19: the statement printed for i is the documented syntax) *)
Theorem C04_documented_syntax : forall ev local i addr hws, ev_display ev ->
  wf_instr i -> enc i = EncOk hws -> addr < 4294967296 -> target_in_space i addr = true ->
  conv_val (assemble_stmt ev local addr (mnemonic i) (display_args i addr)) = Some i.
Proof. exact stmt_roundtrip. Qed.

(* ------------------------------------------------------------------------------------------------------------------ *)
(* mnemonics: any letter case, and the aliases, select the instruction's template *)
Theorem C04_mnemonic_spelling : forall i name, In (upper_str name) (mnemonic_names i) -> template name = Some (kind_template i).
Proof. exact template_spelling. Qed.

(* 1. spelling of names: in the statement printed for an encodable instruction i (C04_documented_syntax / C19), the mnemonic
   replaced by any string whose upper-casing is one of i's mnemonics, every register / special register identifier (also
   inside [..] and {..}) by any spelling of the same register, the CPS flag and the barrier option by any letter case:
   the statement still assembles to i *)
Theorem C04_spelling_names : forall lk, (forall t, t < 4294967296 -> lk (label t) = Found (Z.of_N t)) ->
  forall local i addr hws name args', wf_instr i -> enc i = EncOk hws -> target_in_space i addr = true ->
  In (upper_str name) (mnemonic_names i) -> Forall2 respelled (display_args i addr) args' ->
  conv_val (assemble_stmt (ev_of lk) local addr name args') = Some i.
Proof. exact respelled_assembles. Qed.

(* 2. immediates and targets as arbitrary constant expressions, every documented operand form: any argument list that WRITES
   the operand values of i (AsmOperands.writes: names in any spelling; in every number position any expression tree e with
   evaluate lk is_register e = Ok (AConst v, Complete _); memory operands [b + e], [e + b], [b] for offset 0, [b + r];
   register lists in any order with repetitions) assembles to i.  No hypothesis about the table lk. *)
Theorem C04_immediate_expressions : forall lk local i addr hws name args,
  wf_instr i -> enc i = EncOk hws -> target_in_space i addr = true ->
  In (upper_str name) (mnemonic_names i) -> Forall2 (writes lk) (operands i addr) args ->
  conv_val (assemble_stmt (ev_of lk) local addr name args) = Some i.
Proof. exact written_assembles. Qed.

(* ... for ANY evaluator: arguments that are READ as the operand values (also LDR Rt, [PC + off] for the literal load) *)
Theorem C04_reads_assembles : forall ev local i addr hws name args,
  wf_instr i -> enc i = EncOk hws -> target_in_space i addr = true ->
  In (upper_str name) (mnemonic_names i) -> stmt_reads ev i addr args ->
  conv_val (assemble_stmt ev local addr name args) = Some i.
Proof. exact stmt_reads_assembles. Qed.

(* which expressions qualify: every literal expression whose ideal value is v (C07: each intermediate result fits i64) ... *)
Theorem C04_literal_immediates : forall lk t v, literal_tree t = true -> ideal t = Val v -> wval lk v t.
Proof. exact wval_literal. Qed.
(* ... a symbol the table has a value for; and whatever qualifies has the checked 64-bit value of the expression under every
   assignment compatible with the table (C08) *)
Theorem C04_symbol_immediates : forall lk s v, is_register s = false -> lk s = Found v -> wval lk v (AIdent s).
Proof. exact wval_symbol. Qed.
Theorem C04_immediate_value : forall lk rho e v v', wval lk v e -> compat rho lk is_register -> den64 rho e = Some v' -> v = v'.
Proof. exact wval_den64. Qed.

(* register lists: the bits of {..} are exactly the registers named, in any order, with repetitions *)
Theorem C04_register_list_bits : forall rs n, N.testbit (mask_of rs) n = existsb (fun r => N.eqb (reg_num r) n) rs.
Proof. exact mask_of_spec. Qed.

(* 3. rejections *)
Theorem C04_rejects_unknown_mnemonic : forall ev local addr name args, template name = None ->
  assemble_stmt ev local addr name args = CDiag DNotFound (mkAst args 0).
Proof. exact stmt_unknown_mnemonic. Qed.

Theorem C04_rejects_too_many : forall ev local addr name t args, template name = Some t ->
  (List.length (kinds t) < List.length args)%nat -> assemble_stmt ev local addr name args = CDiag DTooMany (mkAst args 0).
Proof. exact stmt_too_many. Qed.

Theorem C04_rejects_not_enough : forall ev local addr name t args, template name = Some t ->
  (List.length args < List.length (kinds t))%nat -> assemble_stmt ev local addr name args = CDiag DNotEnough (mkAst args 0).
Proof. exact stmt_not_enough. Qed.

(* right count: the first operand (left to right) whose converter rejects it decides the diagnostic *)
Theorem C04_rejects_first_failure : forall ev local addr name t args p k a d, template name = Some t ->
  List.length args = List.length (kinds t) ->
  nth_error (kinds t) p = Some k -> nth_error args p = Some a -> verdict ev local k a = VDiag d ->
  (forall q kq aq, (q < p)%nat -> nth_error (kinds t) q = Some kq -> nth_error args q = Some aq -> verdict ev local kq aq = VAccept) ->
  exists st, assemble_stmt ev local addr name args = CDiag d st.
Proof. exact stmt_first_failure. Qed.

(* the verdicts: an operand (after evaluation, for the evaluated kinds) of a shape the kind does not take is DArgType ... *)
Theorem C04_rejects_wrong_kind : forall ev local k a a', seen ev k a a' -> kind_shape k a' = false ->
  verdict ev local k a = VDiag DArgType.
Proof. exact verdict_wrong_kind. Qed.

(* ... an identifier that is not a (special) register name where one is expected is DNoSuchRegister ... *)
Theorem C04_rejects_unknown_register : forall ev local k a s, seen ev k a (AIdent s) ->
  match k with KReg | KImmReg => regl s = None | KSys => sysl s = None | _ => False end ->
  verdict ev local k a = VDiag DNoSuchRegister.
Proof. exact verdict_unknown_register. Qed.

(* ... a number outside i32 (immediates) / u32 (targets, BKPT) is DValueRange: never truncated ... *)
Theorem C04_rejects_out_of_range : forall ev local k a v, seen ev k a (AConst v) ->
  match k with
  | KImm | KImmReg => (v < -2147483648 \/ 2147483647 < v)%Z
  | KOff | KAddrOff => (v < 0 \/ 4294967295 < v)%Z
  | _ => False
  end -> verdict ev local k a = VDiag DValueRange.
Proof. exact verdict_out_of_range. Qed.

(* ... in a register list the first item that is not a register name decides *)
Theorem C04_rejects_regset_item : forall ev local items pre post, items = map AIdent pre ++ post ->
  Forall (fun n => regl n <> None) pre ->
  match post with
  | AIdent s :: _ => regl s = None -> verdict ev local KSet (ASeq items) = VDiag DNoSuchRegister
  | x :: _ => is_ident x = false -> verdict ev local KSet (ASeq items) = VDiag DArgType
  | [] => True
  end.
Proof. exact verdict_regset_item. Qed.

(* no index out of bounds, no unreachable arm, for any statement and any evaluator *)
Theorem C04_never_panics : forall ev local addr name args, assemble_stmt ev local addr name args <> CPanic.
Proof. exact stmt_no_panic. Qed.

(* never a wrapped, truncated or neighbouring encoding: what assembles to i is the mnemonic of i, was read as exactly the
   operand values of i (each field of i is the value of its argument; PC-relative: target - (address + 4) exactly), i is
   within the Rust field types, and the encoder's answer on i is the ARMv6-M table's answer (bytes or Unrepresentable) *)
Theorem C04_no_wrap : forall ev local addr name args i st',
  assemble_stmt ev local addr name args = COk i st' ->
  template name = Some (kind_template i) /\ wf_instr i /\ stmt_reads ev i addr args /\ enc i = of_spec (armv6m_enc i).
Proof. exact no_wrap. Qed.

(* 4. from the CHARACTERS: the statement written as the tokens ws (any rendering of its argument trees: redundant parentheses
   anywhere; every number in radix 2/8/10/16, either digit case, leading zeros, or as a character literal) with any
   separators seps (white space, comments, line breaks) that do not fuse tokens *)
Theorem C04_text : forall lk local i addr hws name args ws seps,
  wf_instr i -> enc i = EncOk hws -> target_in_space i addr = true ->
  In (upper_str name) (mnemonic_names i) -> Forall2 (writes lk) (operands i addr) args ->
  RendStmts [EInstruction name args] (map wtok_val ws) -> Forall wtok_ok ws -> wseps_ok ws seps ->
  asm_text lk local addr (showw ws seps) = Some i.
Proof. exact written_text_assembles. Qed.

Theorem C04_text_canonical : forall lk local i addr hws name args seps,
  wf_instr i -> enc i = EncOk hws -> target_in_space i addr = true ->
  In (upper_str name) (mnemonic_names i) -> Forall2 (writes lk) (operands i addr) args ->
  writable_stmt (EInstruction name args) = true -> seps_ok (render_stmt (EInstruction name args)) seps ->
  asm_text lk local addr (show (render_stmt (EInstruction name args)) seps) = Some i.
Proof. exact written_text_assembles_canonical. Qed.

Theorem C04_text_respelled : forall lk local i addr hws name args' ws seps,
  (forall t, t < 4294967296 -> lk (label t) = Found (Z.of_N t)) ->
  wf_instr i -> enc i = EncOk hws -> target_in_space i addr = true ->
  In (upper_str name) (mnemonic_names i) -> Forall2 respelled (display_args i addr) args' ->
  RendStmts [EInstruction name args'] (map wtok_val ws) -> Forall wtok_ok ws -> wseps_ok ws seps ->
  asm_text lk local addr (showw ws seps) = Some i.
Proof. exact respelled_text_assembles. Qed.

Theorem C04_examples :
  regl (bytes_of_string "r13"%string) = Some SP /\ regl (bytes_of_string "Lr"%string) = Some LR /\ regl (bytes_of_string "R16"%string) = None /\
  template (bytes_of_string "bics"%string) = Some (Bic R0 R0) /\ template (bytes_of_string "BICSS"%string) = None /\
  is_register (bytes_of_string "primask"%string) = true /\
  (* source text -> instruction, with the table k = 3 *)
  let lk := fun s => if str_eqb s (bytes_of_string "k"%string) then Found 3%Z else NotFound in
  let txt (s : string) := asm_text lk false 0x100 (bytes_of_string s) in
  let dg name args := conv_diag (assemble_stmt (ev_of lk) false 0x100 (bytes_of_string name) args) in
  txt "ldrB r1 , [ 2*2 + R13 ] /* c */ ;"%string = Some (Ldrb R1 SP (Imm 4)) /\
  txt "bHs 0x100+4+(k-1)*2;"%string = Some (B CarrySet 4) /\
  txt "LDR r7,0x104+0b1000;"%string = Some (Ldr R7 PC (Imm 8)) /\
  txt "push {lr, R4, r4,r14};"%string = Some (Push 16400) /\
  txt "cpsie I;"%string = Some (Cps true) /\ txt "str r0, [sp];"%string = Some (Str R0 SP (Imm 0)) /\
  dg "movs"%string [AIdent (bytes_of_string "r0"%string); AConst 4294967296] = Some DValueRange /\
  dg "movs"%string [AIdent (bytes_of_string "r16"%string); AConst 1] = Some DNoSuchRegister /\
  dg "movs"%string [AConst 1; AConst 1] = Some DArgType /\
  dg "movs"%string [AIdent (bytes_of_string "r0"%string)] = Some DNotEnough /\
  dg "beq"%string [AConst 0x204] = Some DRange /\ dg "beq"%string [AConst 0x107] = Some DAlignment /\
  (* converts, but the table has no row: the encoder rejects, nothing is truncated *)
  conv_val (assemble_stmt (ev_of lk) false 0x100 (bytes_of_string "movs"%string) [AIdent (bytes_of_string "r0"%string); AConst 256])
    = Some (Mov true R0 (Imm 256)) /\ enc (Mov true R0 (Imm 256)) = EncUnrep.
Proof. vm_compute. repeat split. Qed.
