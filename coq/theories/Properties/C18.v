(* C18 - the `trias` output file reproduces the assembled image for the RP2040 loader.
   Statements only; proofs live in Bin/TriasProofs.v (and Bin/TriasProofs2.v).
   Model:  Bin/TriasModel.v  (`post`: the statements of src/bin/assembler.rs after ctx.finalize(): boot-sector checksum,
           page padding loop, UF2 emission; `main_model`: the decision of `main`), built on Mem/MapModel.v, Uf2/CrcModel.v,
           Uf2/WriteModel.v.
   Oracle: Bin/ImageSpec.v   (P+ = P + checksum word; refusal condition; the clauses on the file as read by the independent
           UF2 reader Uf2/ReaderSpec.v; CRC-32/MPEG-2 as the bit-serial register Uf2/CrcSpec.v).

   `Rep m`  = C15's representation invariant of the memory map, `abs m` = the address -> byte dictionary it denotes (= P).
   `Bytes m` = every stored value is < 256.
   NAMED HYPOTHESES (facts about MapModel that C15 states in the header of Properties/C15.v but did not prove; they are
   Prop parameters of the theorems below, not axioms):
     Put_spec dbg       := forall m a data, Rep m -> a < U32 -> a + len data <= SPACE ->
                           exists m' n, map_put dbg m a data = Ok (m', Some n) /\ Rep m' /\ d_put (abs m) a data = (abs m', Some n)
     IterRange_spec dbg := forall m f l, Rep m -> f <= l -> map_iter_range dbg m f l = Ok (d_iter_range (abs m) f l)

   NOT PROVED (full statements; evaluated on every run of the correspondence stream: the extracted ImageSpec on the real
   binary's file, and model = binary on every generated layout):

   C18_no_panic : forall dbg m, Rep m -> Bytes m -> Put_spec dbg -> IterRange_spec dbg ->
       (forall s, post dbg m <> PPanic s) /\ post dbg m <> POutOfFuel.
     Proved part: C18_no_panic_partial = no Panic outcome of `post` (checksum step: find, the iter_range loop with the
     slice copy, CRC, put; padding loop: the three assert_eq!(put(..), Ok(n)) hold, &BLANK_PAGE[..n] is in range, no u32
     arithmetic wraps; emission: new_vec(..).unwrap(), write_all, drop via C16_no_panic), under the extra hypothesis that
     the padded map is `small` (fewer than 2^32 bytes + regions: C16's sufficient condition for its block counter).
     Missing: fuel sufficiency of the padding loop (fuel = number of segments + 1; OutOfFuel is excluded from the
     statement, never observed in the stream) and the derivation of `small` for the padded map from a bound on P.

   C18_image : forall dbg m, Rep m -> Bytes m -> Put_spec dbg -> IterRange_spec dbg -> abs m <> [] ->
       must_refuse (abs m) = false -> exists file, post dbg m = POk file /\ image_ok (abs m) file = true.
     (image_ok = blocks_shaped && numbered && pages_distinct && checksum_ok && has_all_bytes P+ && padding_zero P+ &&
      inside_pages P+; this one statement contains C18_blocks.)
     Proved part: C18_checksum / C18_checksum_total (the map handed to the padding loop is well formed and denotes P+) and
     C18_pad_keeps_rep_partial (the padding keeps the map well formed).  Missing: the padding loop's effect on the
     dictionary (every segment starts on a page boundary, added cells are zero and inside touched pages, no two segments
     on one page) and C16's unproved C16_reconstruct / C16_blocks for the emission. *)
From Coq Require Import NArith List Bool.
From Trion Require Import Mem.MapModel Mem.DictSpec Mem.MapProofs Uf2.CrcSpec.
From Trion Require Import Bin.TriasModel Bin.ImageSpec Bin.TriasProofs Bin.TriasProofs2 Bin.TriasProofs3.
Import ListNotations.
Open Scope N_scope.

(* 0x10000000 occupied, nothing in 0x100000FC..0x100000FF: the step succeeds and the four bytes put at 0x100000FC are the
   little-endian bytes of the bit-serial CRC-32/MPEG-2 (CrcSpec, via C17) of P[0x10000000 .. +252) with gaps read as 0;
   the resulting map is well formed and denotes exactly the oracle's P+ *)
Theorem C18_checksum : forall dbg m, Rep m -> Bytes m -> IterRange_spec dbg -> Put_spec dbg ->
  d_get (abs m) FLASH_BASE <> None -> no_conflict (abs m) ->
  exists m', checksum_step dbg m = Go m' /\ Rep m' /\
             abs m' = d_write (abs m) FLASH_CRC (TriasModel.le32 (spec_crc (boot_bytes (abs m)))) /\
             abs m' = P_plus (abs m).
Proof. exact checksum_ok. Qed.

(* the oracle's refusal condition (0x10000000 occupied and a byte in 0x100000FC..0x100000FF) => `post` refuses with
   "Checksum would overwrite existing data" *)
Theorem C18_checksum_refused : forall dbg m, Rep m -> IterRange_spec dbg -> must_refuse (abs m) = true ->
  post dbg m = Refused R_checksum_overlap.
Proof. exact post_refused. Qed.

(* nothing at 0x10000000: no checksum is inserted, the map is unchanged and P+ = P *)
Theorem C18_checksum_absent : forall dbg m, Rep m -> d_get (abs m) FLASH_BASE = None ->
  checksum_step dbg m = Go m /\ P_plus (abs m) = abs m.
Proof. exact checksum_absent. Qed.

(* the checksum step is total, in both build profiles: it either hands a well-formed map denoting P+ to the padding loop
   (exactly when the oracle does not ask for a refusal) or refuses (exactly when it does); temp[first..=last],
   copy_from_slice, the u32 subtractions, find, put are all in range *)
Theorem C18_checksum_total : forall dbg m, Rep m -> Bytes m -> IterRange_spec dbg -> Put_spec dbg ->
  (exists m', checksum_step dbg m = Go m' /\ Rep m' /\ abs m' = P_plus (abs m) /\ must_refuse (abs m) = false)
  \/ (checksum_step dbg m = RStop R_checksum_overlap /\ must_refuse (abs m) = true).
Proof. exact checksum_step_total. Qed.

(* PARTIAL (fuel not shown sufficient): checksum + padding end in a refusal, in OutOfFuel, or in a well-formed map for
   the UF2 writer - every assert_eq!(put(..), Ok(n)) of the padding loop holds, &BLANK_PAGE[..n] has n <= 256, prev + 1,
   first - off, first - prev - 1 do not wrap; both build profiles *)
Theorem C18_pad_keeps_rep_partial : forall dbg m, Rep m -> Bytes m -> IterRange_spec dbg -> Put_spec dbg ->
  (exists r, padded dbg m = RStop r) \/ padded dbg m = FStop \/ exists m2, padded dbg m = Go m2 /\ Rep m2.
Proof. exact padded_safe. Qed.

(* PARTIAL (see header): `post` never returns a Panic outcome *)
Theorem C18_no_panic_partial : forall dbg m, Rep m -> Bytes m -> IterRange_spec dbg -> Put_spec dbg ->
  (forall m2, padded dbg m = Go m2 -> small m2) ->
  forall s, post dbg m <> PPanic s.
Proof. exact post_no_panic. Qed.

(* PARTIAL no-panic: the UF2 emission of a well-formed map with fewer than 2^32 bytes + regions (`small`: the condition
   under which C16 shows that the block counter cannot overflow) never panics: new_vec(..).unwrap(), every write_all,
   drop; in both build profiles - C16_no_panic applied to the calls `post` makes *)
Theorem C18_emit_no_panic_partial : forall dbg m, Rep m -> small m -> forall s, emit_step dbg m <> PStop s.
Proof. exact emit_no_panic_small. Qed.

(* model of main: an output-file operation happens only after assemble returned true and an output path was given; then
   the operations are open(create), write_all(file), set_len(|file|), in this order, and nothing panicked *)
Theorem C18_main_writes_only_on_success : forall dbg argv input effs pan,
  main_model dbg argv input = (effs, pan) -> existsb touches_output effs = true ->
  exists a0 fip fop rest p file,
    argv = a0 :: fip :: fop :: rest /\ input = Some p /\ assemble dbg p = POk file /\ pan = None /\
    effs = [E_open_create fop; E_write_all file; E_set_len (len file)].
Proof. exact main_touches_only_on_success. Qed.

(* a failed assembly (diagnostics), a refusal, an empty image, a panic, an unreadable input: no output-file operation *)
Theorem C18_failure_writes_nothing : forall dbg argv input,
  (input = None \/ exists p, input = Some p /\ forall file, assemble dbg p <> POk file) ->
  existsb touches_output (fst (main_model dbg argv input)) = false.
Proof. exact main_failure_writes_nothing. Qed.

(* non-vacuity, by evaluation of model and oracle: two regions on one page; three regions far apart (one ending at
   0xFFFFFFFF), in the overflow-checking profile; a boot sector with a gap below 0xFC - each yields a file the oracle
   accepts; a boot sector with a byte at 0x100000FE is refused; the empty image gives no file; and the segments handed
   to the UF2 writer for the far-apart layout start on page boundaries *)
Definition ex_same : mmap := [(0x20000010, 0x20000013, [1;2;3;4]); (0x20000020, 0x20000021, [5;6])].
Definition ex_far : mmap := [(0x10, 0x11, [1;2]); (0x2F0, 0x30F, repeat 7 32); (0xFFFFFFF0, 0xFFFFFFFF, repeat 9 16)].
Definition ex_boot : mmap := [(0x10000000, 0x10000003, [0x44;0x33;0x22;0x11]); (0x10000010, 0x10000010, [7])].
Definition ex_conflict : mmap := [(0x10000000, 0x10000003, [1;2;3;4]); (0x100000FE, 0x100000FE, [7])].
Definition ok_image (dbg : bool) (m : mmap) : bool :=
  match post dbg m with POk file => image_ok (abs m) file | _ => false end.

Theorem C18_examples :
  ok_image false ex_same = true /\ ok_image true ex_far = true /\ ok_image false ex_boot = true
  /\ post true ex_conflict = Refused R_checksum_overlap /\ must_refuse (abs ex_conflict) = true
  /\ post false [] = Refused R_empty
  /\ match padded false ex_far with Go m => map (fun s => (sfirst s, slast s)) m | _ => [] end
     = [(0, 0x11); (0x200, 0x30F); (0xFFFFFF00, 0xFFFFFFFF)]
  /\ fst (main_model false [[0x74]; [0x61]; [0x6F]] (Some (PipeOk ex_conflict))) = [].
Proof. vm_compute. repeat split; reflexivity. Qed.
