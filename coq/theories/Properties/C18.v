(* C18 - the `trias` output file reproduces the assembled image for the RP2040 loader.
   Statements only; proofs live in Bin/TriasProofs.v .. TriasProofs6.v, Bin/TriasEmit.v (the post-processing on a memory
   map) and Bin/PipeBytesMap.v, PipeBytes.v, PipeBytesText.v, TriasPipeline.v (the tie to the program: source text ->
   library pipeline -> post-processing -> file).
   Model:  Bin/TriasModel.v  (`post`: the statements of src/bin/assembler.rs after ctx.finalize(): boot-sector checksum,
           page padding loop, UF2 emission; `main_model`: the decision of `main`), built on Mem/MapModel.v, Uf2/CrcModel.v,
           Uf2/WriteModel.v.
   Oracle: Bin/ImageSpec.v   (P+ = P + checksum word; refusal condition; the clauses on the file as read by the independent
           UF2 reader Uf2/ReaderSpec.v; CRC-32/MPEG-2 as the bit-serial register Uf2/CrcSpec.v).

   `Rep m`  = C15's representation invariant of the memory map, `abs m` = the address -> byte dictionary it denotes (= P).
   `Bytes m` = every stored value is < 256.
   The facts about the memory map (put in every arm, iter_range) and about the UF2 writer (whole call sequences) that
   earlier versions of this file carried as hypotheses are now theorems of C15 (C15_put, C15_iter_range) and C16
   (the run lemmas of Uf2/WriteRunProofs.v behind C16_blocks / C16_reconstruct); nothing is assumed about them here.

   ONE size condition remains, inherited from C16: C16 proves its writer free of panics for call sequences with
   `cost ops <= u32::MAX` (fewer than 2^32 bytes + calls; see the header of Properties/C16.v).  For the calls `post`
   makes this reads
     padded_small dbg m := forall m2, padded dbg m = Go m2 -> small m2,   small m2 := |abs m2| + |m2| <= 2^32 - 1
   (the padded map has fewer than 2^32 bytes + regions).  C18_small derives it from a condition on the program:
     page0_free P := forall a, a < 256 -> d_get P a = None
   (the program places nothing in the first 256 addresses - boot ROM on the RP2040).  The theorems about the emitted
   file are stated under page0_free (C18_image, C18_blocks, C18_no_panic) and, more generally, under padded_small
   (C18_outcomes, C18_image_small, C18_no_panic_small).  NOT covered by a theorem: programs whose padded image has
   2^32 - 1 or more bytes + regions (an image filling the whole 4 GiB address space from page 0 on); for them the
   statement is only exercised by the correspondence stream.

   END TO END (second half of this file).  The map `m` of the theorems above is the output of the assembly pipeline:
   Bin/TriasPipeline.v defines
     trias_assemble dbg fs fuel path text : the function `assemble` of assembler.rs = CtxModel.pipeline_gen (Context::assemble,
       close_segment, finalize: the model of C05/C06/C13) followed by `post` on ctx.output() when the status is Success,
       `return false` (Refused R_diagnostics) otherwise; LibPanic / LibOutOfFuel = the pipeline model's own panic / fuel
       outcomes (never / not below the include depth: C06_never_panics, C06_no_out_of_fuel);
     trias_main dbg fs fuel argv : `main` on the file system fs (argv[1] is read from fs).
   C18_pipeline_map: whatever the pipeline returns as regions is a map with Rep and Bytes - Rep is C13_image_rep, Bytes is
   the invariant BI of Bin/PipeBytes.v (every write path of the Context model writes bytes: encoder output, .du*, string /
   hex / file bytes, 0xBE padding, MemoryMap::put), so Rep / Bytes are no longer hypotheses once the map comes from a
   program.  Two typing conditions on the INPUT remain, because the model's strings are lists of N:
     bytes text      := every element of the source text is < 256,
     fs_bytes fs     := every file of the project is such a byte string
   (PipeBytesText.v carries them through the tokenizer - slices, escapes, \u{..} encodings - and the parser to the string
   literals).  C18_end_to_end: a program that assembles with nothing at addresses 0..255 yields, through `assemble`, a file
   satisfying every clause of ImageSpec for the dictionary of its regions (or the empty-image / checksum-refusal return);
   C18_end_to_end_failure / C18_main_failure_writes_nothing: a program that does not assemble writes nothing;
   C18_assemble_total: with C06_no_out_of_fuel, no panic and no fuel outcome between the source text and the file;
   C18_reference_image_partial: with C05's reference layout (`_partial` because C05's class is: single file, no .dfile,
   deferred instructions only branches), the file decodes to exactly the reference image.
   C18_reference_image_project_partial: the same for whole PROJECTS (`.include` to any depth, `.global/.import/.export`) with the
   multi-file reference LayoutSpecExt.layout_spec_ext and the project class of C05 (LayoutMulti.C05_project_class, see
   C05_project_class_def in Properties/C05.v), both build profiles, every include fuel >= 8.

   Everything else of the property is proved for the model, in both build profiles (dbg): no theorem about the
   post-processing is `_partial`.
   * fuel: the padding loop runs on fuel = number of segments + 1; C18_pad shows that this always suffices (each
     iteration moves `prev` to the last address of a strictly later segment of the map handed to the loop), so
     OutOfFuel is not an outcome (C18_pad, C18_outcomes, C18_no_panic).
   * PFin X D (Bin/TriasProofs4.v), the effect of the padding on the dictionary: every byte of X = P+ is still in D,
     every other cell of D is a zero on a 256-byte page that X touches, and every occupied address of D that is not a
     multiple of 256 has an occupied predecessor (so every segment starts on a page boundary). *)
From Coq Require Import NArith List Bool.
From Coq Require String.
From Trion Require Import Uf2.ReaderSpec.
From Trion Require Import Mem.MapModel Mem.DictSpec Mem.MapProofs Uf2.CrcSpec.
From Trion Require Text.Types Text.ParseModel Asm.CtxModel Asm.LayoutSpec Asm.LayoutWf Asm.LayoutFinal Asm.LayoutBytes Arm.DisplayModel.
From Trion Require Import Bin.TriasModel Bin.ImageSpec Bin.TriasProofs Bin.TriasProofs2 Bin.TriasProofs3 Bin.TriasProofs4
  Bin.TriasEmit Bin.TriasProofs5 Bin.TriasProofs6.
From Trion Require Import Bin.PipeBytesMap Bin.PipeBytesText Bin.TriasPipeline.
From Trion Require Asm.LayoutSpecExt Asm.LayoutMulti Asm.LayoutMultiCheck Bin.TriasProject.
Import ListNotations.
Open Scope N_scope.

(* 0x10000000 occupied, nothing in 0x100000FC..0x100000FF: the step succeeds and the four bytes put at 0x100000FC are the
   little-endian bytes of the bit-serial CRC-32/MPEG-2 (CrcSpec, via C17) of P[0x10000000 .. +252) with gaps read as 0;
   the resulting map is well formed and denotes exactly the oracle's P+ *)
Theorem C18_checksum : forall dbg m, Rep m -> Bytes m ->
  d_get (abs m) FLASH_BASE <> None -> no_conflict (abs m) ->
  exists m', checksum_step dbg m = Go m' /\ Rep m' /\
             abs m' = d_write (abs m) FLASH_CRC (TriasModel.le32 (spec_crc (boot_bytes (abs m)))) /\
             abs m' = P_plus (abs m).
Proof. exact checksum_ok'. Qed.

(* the oracle's refusal condition (0x10000000 occupied and a byte in 0x100000FC..0x100000FF) => `post` refuses with
   "Checksum would overwrite existing data" *)
Theorem C18_checksum_refused : forall dbg m, Rep m -> must_refuse (abs m) = true ->
  post dbg m = Refused R_checksum_overlap.
Proof. exact post_refused'. Qed.

(* nothing at 0x10000000: no checksum is inserted, the map is unchanged and P+ = P *)
Theorem C18_checksum_absent : forall dbg m, Rep m -> d_get (abs m) FLASH_BASE = None ->
  checksum_step dbg m = Go m /\ P_plus (abs m) = abs m.
Proof. exact checksum_absent. Qed.

(* the checksum step is total, in both build profiles: it either hands a well-formed map denoting P+ to the padding loop
   (exactly when the oracle does not ask for a refusal) or refuses (exactly when it does); temp[first..=last],
   copy_from_slice, the u32 subtractions, find, put are all in range *)
Theorem C18_checksum_total : forall dbg m, Rep m -> Bytes m ->
  (exists m', checksum_step dbg m = Go m' /\ Rep m' /\ abs m' = P_plus (abs m) /\ must_refuse (abs m) = false)
  \/ (checksum_step dbg m = RStop R_checksum_overlap /\ must_refuse (abs m) = true).
Proof. exact checksum_step_total'. Qed.

(* checksum + padding, every case: an empty image and the oracle's refusal condition end in the corresponding
   `return false`; otherwise the padding loop finishes within its fuel without a panic (every
   assert_eq!(put(..), Ok(n)) holds, &BLANK_PAGE[..n] has n <= 256, prev + 1, first - off, first - prev - 1 do not wrap)
   and hands the UF2 writer a well-formed map whose dictionary is P+ plus zeros on touched pages only (PFin) and whose
   segments all start on a page boundary *)
Theorem C18_pad : forall dbg m, Rep m -> Bytes m ->
  (padded dbg m = RStop R_empty /\ abs m = [])
  \/ (padded dbg m = RStop R_checksum_overlap /\ must_refuse (abs m) = true)
  \/ (abs m <> [] /\ must_refuse (abs m) = false /\
      exists m2, padded dbg m = Go m2 /\ Rep m2 /\ PFin (P_plus (abs m)) (abs m2)
                 /\ (forall s, In s m2 -> sfirst s mod 256 = 0)).
Proof. exact padded_total'. Qed.

(* the UF2 emission of a well-formed map with page-aligned segments and fewer than 2^32 bytes + regions: no panic
   (new_vec(..).unwrap(), every write_all, drop), no write_all is refused, and the independent reader reads the file
   as blocks with payload 256 at 256-aligned addresses below 2^32, family-id flag + RP2040 family id and no other flag,
   numbered 0..n-1 with total n, no two on the same page; a loader stores exactly each segment's bytes at their
   addresses followed by zeros up to the end of the segment's last page (seg_items) *)
Theorem C18_emit : forall dbg m, Rep m -> small m -> (forall s, In s m -> sfirst s mod 256 = 0) ->
  exists file rs, emit_step dbg m = Go file /\ read_uf2 file = Some rs
    /\ blocks_shaped rs = true /\ numbered rs = true /\ pages_distinct rs = true
    /\ file_items rs = flat_map seg_items m.
Proof. exact emit_ok. Qed.

(* a program that places nothing in page 0 has a padded map within C16's size condition *)
Theorem C18_small : forall dbg m, Rep m -> Bytes m -> page0_free (abs m) -> padded_small dbg m.
Proof. exact page0_small. Qed.

(* every outcome of `post` (no Panic, no OutOfFuel): an empty image gives no file; the oracle's refusal condition gives
   the refusal; otherwise a file is produced and it satisfies every clause of the oracle *)
Theorem C18_outcomes : forall dbg m, Rep m -> Bytes m -> padded_small dbg m ->
  (post dbg m = Refused R_empty /\ abs m = [])
  \/ (post dbg m = Refused R_checksum_overlap /\ must_refuse (abs m) = true)
  \/ (abs m <> [] /\ must_refuse (abs m) = false /\
      exists file rs, post dbg m = POk file /\ read_uf2 file = Some rs
        /\ blocks_shaped rs = true /\ numbered rs = true /\ pages_distinct rs = true
        /\ ImageSpec.checksum_ok (abs m) (file_items rs) = true
        /\ has_all_bytes (P_plus (abs m)) (file_items rs) = true
        /\ padding_zero (P_plus (abs m)) (file_items rs) = true
        /\ inside_pages (P_plus (abs m)) (file_items rs) = true).
Proof. exact post_total. Qed.

(* THE PROPERTY: a non-empty image that need not be refused yields a file that decodes (ReaderSpec) to an image
   containing every byte of P+ at its address, zero in every other byte it contains, nothing outside the 256-byte pages
   P+ touches, the checksum word = CRC of the 252 bytes before it; every block payload 256 at a 256-aligned address,
   no two blocks on the same page, numbering and family id (image_ok = all clauses of the oracle) *)
Theorem C18_image : forall dbg m, Rep m -> Bytes m -> page0_free (abs m) -> abs m <> [] ->
  must_refuse (abs m) = false -> exists file, post dbg m = POk file /\ image_ok (abs m) file = true.
Proof. exact post_image. Qed.

Theorem C18_image_small : forall dbg m, Rep m -> Bytes m -> padded_small dbg m -> abs m <> [] ->
  must_refuse (abs m) = false -> exists file, post dbg m = POk file /\ image_ok (abs m) file = true.
Proof. exact post_image_small. Qed.

(* the block clauses on their own *)
Theorem C18_blocks : forall dbg m, Rep m -> Bytes m -> page0_free (abs m) -> abs m <> [] ->
  must_refuse (abs m) = false ->
  exists file rs, post dbg m = POk file /\ read_uf2 file = Some rs
    /\ blocks_shaped rs = true /\ numbered rs = true /\ pages_distinct rs = true.
Proof. exact post_blocks. Qed.

(* `post` never panics and never runs out of fuel (checksum step: find, the iter_range loop with the slice copy, CRC,
   put; padding loop; emission: new_vec(..).unwrap(), write_all, drop) *)
Theorem C18_no_panic : forall dbg m, Rep m -> Bytes m -> page0_free (abs m) ->
  (forall s, post dbg m <> PPanic s) /\ post dbg m <> POutOfFuel.
Proof. exact post_no_panic_page0. Qed.

Theorem C18_no_panic_small : forall dbg m, Rep m -> Bytes m -> padded_small dbg m ->
  (forall s, post dbg m <> PPanic s) /\ post dbg m <> POutOfFuel.
Proof. exact post_no_panic_small. Qed.

(* model of main: an output-file operation happens only after assemble returned true and an output path was given; then
   the operations are open(create), write_all(file), set_len(|file|), in this order, and nothing panicked *)
Theorem C18_main_writes_only_on_success : forall dbg argv input effs pan,
  main_model dbg argv input = (effs, pan) -> existsb touches_output effs = true ->
  exists a0 fip fop rest p file,
    argv = a0 :: fip :: fop :: rest /\ input = Some p /\ assemble dbg p = POk file /\ pan = None /\
    effs = [E_open_create fop; E_write_all file; E_set_len (len file)].
Proof. exact main_touches_only_on_success. Qed.

(* a failed assembly (diagnostics), a refusal, an empty image, a panic, an unreadable input: no output-file operation *)
Theorem C18_failure_writes_nothing : forall dbg argv input,
  (input = None \/ exists p, input = Some p /\ forall file, assemble dbg p <> POk file) ->
  existsb touches_output (fst (main_model dbg argv input)) = false.
Proof. exact main_failure_writes_nothing. Qed.

(* non-vacuity, by evaluation of model and oracle: two regions on one page; three regions far apart (one ending at
   0xFFFFFFFF), in the overflow-checking profile; a boot sector with a gap below 0xFC - each yields a file the oracle
   accepts; a boot sector with a byte at 0x100000FE is refused; the empty image gives no file; the segments handed
   to the UF2 writer for the far-apart layout start on page boundaries; the size condition holds on the examples *)
Definition ex_same : mmap := [(0x20000010, 0x20000013, [1;2;3;4]); (0x20000020, 0x20000021, [5;6])].
Definition ex_far : mmap := [(0x10, 0x11, [1;2]); (0x2F0, 0x30F, repeat 7 32); (0xFFFFFFF0, 0xFFFFFFFF, repeat 9 16)].
Definition ex_boot : mmap := [(0x10000000, 0x10000003, [0x44;0x33;0x22;0x11]); (0x10000010, 0x10000010, [7])].
Definition ex_conflict : mmap := [(0x10000000, 0x10000003, [1;2;3;4]); (0x100000FE, 0x100000FE, [7])].
Definition ok_image (dbg : bool) (m : mmap) : bool :=
  match post dbg m with POk file => image_ok (abs m) file | _ => false end.

Theorem C18_examples :
  ok_image false ex_same = true /\ ok_image true ex_far = true /\ ok_image false ex_boot = true
  /\ post true ex_conflict = Refused R_checksum_overlap /\ must_refuse (abs ex_conflict) = true
  /\ post false [] = Refused R_empty
  /\ match padded false ex_far with Go m => map (fun s => (sfirst s, slast s)) m | _ => [] end
     = [(0, 0x11); (0x200, 0x30F); (0xFFFFFF00, 0xFFFFFFFF)]
  /\ fst (main_model false [[0x74]; [0x61]; [0x6F]] (Some (PipeOk ex_conflict))) = []
  (* the size condition: ex_same has nothing in page 0; ex_far has (0x10) and its padded map is small all the same *)
  /\ forallb (fun c => 256 <=? fst c) (abs ex_same) = true
  /\ match padded true ex_far with Go m2 => len (abs m2) + len m2 <=? 0xFFFFFFFF | _ => false end = true.
Proof. vm_compute. repeat split; reflexivity. Qed.

(* ================================================================ end to end: source text -> file *)
(* (a) the regions the pipeline reports - whatever its status and diagnostics - are a memory map with C15's
   representation invariant that holds bytes only: the hypotheses Rep / Bytes of the theorems above hold for every map
   that comes from a program (every project fs, root path, source text, fuel, build profile) *)
Theorem C18_pipeline_map : forall dbg fs fuel path text s diags regions, fs_bytes fs -> bytes text ->
  CtxModel.pipeline_gen dbg fs fuel path text = CtxModel.Done s diags regions ->
  exists m, regions = map_iter m /\ Rep m /\ Bytes m.
Proof. exact pipeline_map. Qed.

(* (b) a program that assembles (Success, no diagnostic) and places nothing at addresses 0..255: `assemble` of
   assembler.rs returns false for an empty image, refuses under the oracle's refusal condition, and otherwise produces a
   file that satisfies every clause of the oracle for the dictionary of the program's regions *)
Theorem C18_end_to_end : forall dbg fs fuel path text regions, fs_bytes fs -> bytes text ->
  CtxModel.pipeline_gen dbg fs fuel path text = CtxModel.Done CtxModel.Success [] regions -> page0_free (abs regions) ->
  (trias_assemble dbg fs fuel path text = Ran (Refused R_empty) /\ abs regions = [])
  \/ (trias_assemble dbg fs fuel path text = Ran (Refused R_checksum_overlap) /\ must_refuse (abs regions) = true)
  \/ (abs regions <> [] /\ must_refuse (abs regions) = false /\
      exists file, trias_assemble dbg fs fuel path text = Ran (POk file) /\ image_ok (abs regions) file = true).
Proof. exact end_to_end. Qed.

Theorem C18_end_to_end_image : forall dbg fs fuel path text regions, fs_bytes fs -> bytes text ->
  CtxModel.pipeline_gen dbg fs fuel path text = CtxModel.Done CtxModel.Success [] regions -> page0_free (abs regions) ->
  abs regions <> [] -> must_refuse (abs regions) = false ->
  exists file, trias_assemble dbg fs fuel path text = Ran (POk file) /\ image_ok (abs regions) file = true.
Proof. exact end_to_end_image. Qed.

(* a program that does not assemble (Failure: diagnostics; CloseError): `assemble` returns false before touching buff *)
Theorem C18_end_to_end_failure : forall dbg fs fuel path text s diags regions,
  CtxModel.pipeline_gen dbg fs fuel path text = CtxModel.Done s diags regions -> s <> CtxModel.Success ->
  trias_assemble dbg fs fuel path text = Ran (Refused R_diagnostics).
Proof. exact end_to_end_failure. Qed.

(* the library part of `assemble` never panics (C06_never_panics composed) *)
Theorem C18_assemble_no_lib_panic : forall dbg fs fuel path text p, trias_assemble dbg fs fuel path text <> LibPanic p.
Proof. exact trias_assemble_no_lib_panic. Qed.

(* totality of `assemble` (C06_never_panics + C06_no_out_of_fuel + C18_no_panic composed): for a project with fewer files
   than the include fuel whose successful image - if any - has nothing in page 0, `assemble` runs to its end and returns
   true with a file or false: no panic and no fuel outcome anywhere between the source text and the file *)
Theorem C18_assemble_total : forall dbg fs fuel path text files, fs_bytes fs -> bytes text ->
  (forall p, fs p <> None -> In p files) -> (length files < fuel)%nat ->
  (forall diags regions, CtxModel.pipeline_gen dbg fs fuel path text = CtxModel.Done CtxModel.Success diags regions ->
     page0_free (abs regions)) ->
  exists o, trias_assemble dbg fs fuel path text = Ran o /\ (forall s, o <> PPanic s) /\ o <> POutOfFuel.
Proof. exact trias_assemble_total. Qed.

(* main on a file system: `trias in.asm out.uf2` for such a program performs open(create), write_all(file),
   set_len(|file|) on out.uf2 with a file the oracle accepts, and does not panic *)
Theorem C18_main_end_to_end : forall dbg fs fuel a0 fip fop rest text regions, fs_bytes fs ->
  fs fip = Some text ->
  CtxModel.pipeline_gen dbg fs fuel fip text = CtxModel.Done CtxModel.Success [] regions -> page0_free (abs regions) ->
  abs regions <> [] -> must_refuse (abs regions) = false ->
  exists file, trias_main dbg fs fuel (a0 :: fip :: fop :: rest)
                 = Ran ([E_open_create fop; E_write_all file; E_set_len (len file)], None)
    /\ image_ok (abs regions) file = true.
Proof. exact main_end_to_end. Qed.

(* ... and when the input does not assemble (or cannot be read, or no input argument is given) main performs no
   output-file operation at all *)
Theorem C18_main_failure_writes_nothing : forall dbg fs fuel argv effs pan,
  trias_main dbg fs fuel argv = Ran (effs, pan) ->
  (forall a0 fip rest text, argv = a0 :: fip :: rest -> fs fip = Some text ->
     forall diags regions, CtxModel.pipeline_gen dbg fs fuel fip text <> CtxModel.Done CtxModel.Success diags regions) ->
  existsb touches_output effs = false.
Proof. exact main_e2e_failure_writes_nothing. Qed.

(* (c) with C05: a program of C05's class that is well formed per the reference layout (so it assembles: success is not
   a hypothesis) with nothing in page 0, a non-empty image and no checksum conflict - the release binary's `assemble`
   produces a file that the independent reader decodes to exactly the reference image image_dict placed (+ the checksum
   word when 0x10000000 is occupied) with zero padding on the touched pages and nothing else (image_ok).
   FULL STATEMENT (not proved): the same for every program that assembles, i.e. with C05's reference in place of the
   regions for programs outside C05_class too (.dfile, .include, deferred non-branch instructions); for those
   C18_end_to_end gives the statement relative to the pipeline's regions. *)
Theorem C18_reference_image_partial : forall fs path text els placed env, fs_bytes fs -> bytes text ->
  CtxModel.parse_source text = CtxModel.Parsed (map ParseModel.IOk els) None ->
  LayoutSpec.layout_spec fs (map Types.e_val els) = Some (placed, env) ->
  LayoutFinal.C05_class fs env els ->
  LayoutWf.no_collision fs (map Types.e_val els) ->
  page0_free (LayoutBytes.image_dict placed) -> LayoutBytes.image_dict placed <> [] ->
  must_refuse (LayoutBytes.image_dict placed) = false ->
  exists file, trias_assemble false fs CtxModel.include_fuel path text = Ran (POk file)
    /\ image_ok (LayoutBytes.image_dict placed) file = true.
Proof. exact reference_image. Qed.

(* the same for whole projects: root text + included files; placed = the statements of all file instances the scoped two-pass
   reference LayoutSpecExt.layout_spec_ext lays out (files read relative to the root file: rel_fs), image_dict_x placed its
   dictionary.  `_partial`: the project class of C05 (single-file class per statement w.r.t. the final table of its file
   instance, a declared-but-unvalued name only as a bare operand, `.import` of valued names only, no collision). *)
Theorem C18_reference_image_project_partial : forall dbg fs fuel path text els placed names, (8 <= fuel)%nat -> fs_bytes fs -> bytes text ->
  LayoutMulti.parse_els text = Some els ->
  LayoutSpecExt.layout_spec_ext (LayoutFinal.rel_fs fs path) LayoutMulti.parse_ref (map Types.e_val els) = Some (placed, names) ->
  LayoutMulti.C05_project_class fs path (map Types.e_val els) ->
  page0_free (LayoutMulti.image_dict_x placed) -> LayoutMulti.image_dict_x placed <> [] ->
  must_refuse (LayoutMulti.image_dict_x placed) = false ->
  exists file, trias_assemble dbg fs fuel path text = Ran (POk file)
    /\ image_ok (LayoutMulti.image_dict_x placed) file = true.
Proof. exact TriasProject.reference_image_project. Qed.

(* non-vacuity of the end-to-end statements, by evaluation of tokenizer, parser, Context model, post-processing and
   oracle: a two-region program with a forward branch and a string assembles to a file the oracle accepts for the
   pipeline's regions; a boot-sector program gets its checksum; an undefined symbol writes nothing *)
Import String.
Open Scope string_scope.
Definition e2e_ok (t : String.string) : bool :=
  let src := DisplayModel.bytes_of_string in
  let nofs : Types.str -> option (list N) := fun _ => None in
  match CtxModel.pipeline nofs (src "main.asm") (src t), trias_assemble false nofs CtxModel.include_fuel (src "main.asm") (src t) with
  | CtxModel.Done CtxModel.Success [] regions, Ran (POk file) =>
      image_ok (abs regions) file && forallb (fun c => N.leb 256 (fst c)) (abs regions) && negb (N.eqb (len regions) 0)
  | _, _ => false
  end.

Theorem C18_end_to_end_examples :
  e2e_ok ".addr 0x20000010; B later; NOP; .dstr ""a\u{e9}""; .addr 0x20000100; later: NOP;" = true
  /\ e2e_ok ".addr 0x10000000; .du32 0x11223344; .addr 0x10000010; .du8 7;" = true
  /\ trias_assemble false (fun _ => None) CtxModel.include_fuel (DisplayModel.bytes_of_string "main.asm")
       (DisplayModel.bytes_of_string ".addr 0x20000000; .du32 nowhere;") = Ran (Refused R_diagnostics)
  /\ fst (match trias_main false (fun _ => None) CtxModel.include_fuel [[0x74]; [0x61]; [0x6F]] with Ran r => r | _ => ([E_stdout_success], None) end) = [].
Proof. vm_compute. repeat split; reflexivity. Qed.

(* non-vacuity of C18_reference_image_project_partial: the 3-file project of C05_project_examples (root includes a and b; a
   exports a label, b imports a constant; forward references across the includes), based at 0x20000000: the file `trias`
   writes is accepted by the oracle for the multi-file REFERENCE image, and the project passes the class check *)
Theorem C18_reference_image_project_examples :
  let src := DisplayModel.bytes_of_string in
  let t_root := src ".addr 0x20000000; .const k, 5; .du32 alab; B fwd; .include ""a.asm""; .du32 alab + ag; .include ""b.asm""; fwd: .du32 bsum; .du8 k;" in
  let t_a := src ".const tmp, 1; .global ag; alab: .du16 later; .du8 tmp; .align 2; B ag; .du32 ag; .const later, 0x1234; ag: .export alab; B alab;" in
  let t_b := src ".import k; .const tmp, 2; .du8 tmp; .align 4; .du32 k + 1; .const bsum, k * 2 + tmp; .export bsum;" in
  let fs : Types.str -> option (list N) := fun v =>
    if AsmStmtModel.str_eqb v (src "a.asm") then Some t_a else if AsmStmtModel.str_eqb v (src "b.asm") then Some t_b else None in
  let root := src "root.asm" in
  match LayoutMulti.parse_ref t_root with
  | Some prog =>
      match LayoutSpecExt.layout_spec_ext (LayoutFinal.rel_fs fs root) LayoutMulti.parse_ref prog, trias_assemble false fs 8 root t_root with
      | Some (placed, _), Ran (POk file) =>
          image_ok (LayoutMulti.image_dict_x placed) file && LayoutMultiCheck.project_check fs root prog &&
          negb (must_refuse (LayoutMulti.image_dict_x placed)) && N.eqb (len (LayoutMulti.image_dict_x placed)) 33
      | _, _ => false
      end
  | None => false
  end = true.
Proof. vm_compute. reflexivity. Qed.
