(* C14 — constant visibility follows file scope.  PLACEHOLDER (examples of the oracle); extended below when the model-based theorems are in. *)
From Coq Require Import ZArith NArith List.
From Trion Require Import Text.Types Asm.ScopeSpec.
Import ListNotations.
Open Scope Z_scope.

Definition nA : name := [65%N].
Definition fR : str := [114%N].
Definition fC : str := [99%N].

(* child exports A: visible in the root with the child's value; not exported: invisible; sibling reuse is fine *)
Theorem C14_examples :
  j_verdict (judge_project (mkProject [(fR, [SAddr 256; SInclude fC; SUse nA]); (fC, [SConst nA 7; SExport nA])] fR)) = Accept /\
  j_uses (judge_project (mkProject [(fR, [SAddr 256; SInclude fC; SUse nA]); (fC, [SConst nA 7; SExport nA])] fR)) = [(0%N, Some 7)] /\
  j_verdict (judge_project (mkProject [(fR, [SAddr 256; SInclude fC; SUse nA]); (fC, [SConst nA 7])] fR)) = MustDiag RInvisibleUse /\
  j_verdict (judge_project (mkProject [(fR, [SAddr 256; SInclude fC; SInclude fC]); (fC, [SLabel nA; SUse nA])] fR)) = Accept /\
  j_uses (judge_project (mkProject [(fR, [SAddr 256; SInclude fC; SInclude fC]); (fC, [SLabel nA; SUse nA])] fR)) = [(0%N, Some 256); (1%N, Some 260)] /\
  j_verdict (judge_project (mkProject [(fR, [SAddr 256; SInclude fC; SInclude fC]); (fC, [SLabel nA; SExport nA])] fR)) = MustDiag RDuplicate /\
  j_verdict (judge_project (mkProject [(fR, [SAddr 256; SInclude fC; SConst nA 1]); (fC, [SImport nA; SUse nA])] fR)) = Unspecified /\
  j_verdict (judge_project (mkProject [(fR, [SAddr 256; SInclude fC]); (fC, [SImport nA])] fR)) = MustDiag RImportLacks /\
  j_verdict (judge_project (mkProject [(fR, [SAddr 256; SConst [82%N;48%N] 1])] fR)) = MustDiag RRegisterName.
Proof. vm_compute. repeat split. Qed.
