(* C14 — constant visibility follows file scope.
   Theorems about the Context model (Asm/CtxModel.v); the oracle is Asm/ScopeSpec.v.  Proofs: Asm/ScopeProofs.v (monotone,
   diagnostics), ScopeProofs2.v + ScopeIso.v (isolation), ScopeValue.v (same value, lookup scope, use-site equations),
   ScopeComplete.v (same value on success), ScopeProv.v (provenance), ScopeRefine.v + ScopeRefineEx.v (tables |= ScopeSpec.sources).

   Fully proved: C14_monotone*, C14_isolation (+ _above, _fresh, _step), C14_same_value (+ _export, _import, _import_check, _global,
   _global_copy), C14_lookup_scope (+ _top, _instr, _tasks, _end_of_file, _retry, _unknown, _unknown_name, _one_level), C14_diag_* (13),
   C14_examples.

   C14_use_sites at IMAGE level is now proved for the project class of C05 (C14_use_sites_image_partial, at the end of the file):
   for every project of Asm/LayoutMulti.C05_project_class (C05_project_class_def in Properties/C05.v: `.include` to any depth,
   `.export`, `.global` before or after the definition, `.import` of valued names, sibling files reusing local names, forward
   references across includes; a declared-but-unvalued name only as a bare operand `x`, not inside `x + 4`) on which the scoped two-pass reference
   Asm/LayoutSpecExt.layout_spec_ext is defined, the pipeline succeeds and the 4 bytes of every `.du32 x` are in the final image at
   the address the reference assigns and are the little-endian value of x in the FINAL table of the file instance the statement
   stands in - the file's own labels / constants, what included files handed up by `.export` / `.global`, what it `.import`ed -,
   whether x is defined before or after the use.  The scope oracle there is LayoutSpecExt's table per file instance (the oracle
   of the C05 correspondence stream); an x that is NOT visible in that scope makes the reference undefined, and in the model the
   retry of the statement is a diagnostic (C14_use_sites_invisible; C14_lookup_scope_unknown, the C14_diag_ theorems).

   NOT proved in full (kept as comments):
     C14_use_sites : pipeline fs path text = Done Success .. image -> for the project p of (fs, path): every `.du32 x` with index k
                     in judge_project p has its 4 bytes at j_base + 4k in image equal to the oracle's value (model |= ScopeSpec on
                     the OUTPUT; decided by the stream on the implementation).  Proved as C14_use_sites_image_partial for the
                     class above with LayoutSpecExt's tables as the oracle; not linked to ScopeSpec.judge_project (needs `occ`
                     for every project text) and not for projects outside the class.
       Proved instead (the C14_use_sites_partial_ theorems): (a) _now / _later / _retry: the value a `.du32 x` writes is the value of x in the table
       C14_lookup_scope names (the file's own at the statement and at the end-of-file retry, the includer's at the last retry), as
       equations; (b) _provenance: every value in a file's final table comes from its own `.const` / label / `.import` / an included
       file that hands the name up; (c) _sources / _value: for every occurrence related to a ScopeSpec tree by `occ` (any include
       depth) every value in the occurrence's final table is one of ScopeSpec.sources, so where the oracle names exactly one value the
       model's table holds no other; _example: `occ` holds for a two-file project with the oracle's own expansion.
       Missing for the full statement: (1) the bytes in the image: that the written value stays at base + 4k and that a label's address
       is base + 4k (the layout property C05; `occ` takes a label's value from the model); (2) that the expansion of EVERY project text
       satisfies `occ` (parser round trip on generated text, resolve_path = plain names) - `occ` is a hypothesis, shown for one
       project; (3) the converse direction on whole projects (oracle MustDiag => diagnostic, Accept => success) exists only per
       statement (the C14_diag_ theorems).
     C14_lookup_scope for instruction operands retried in the includer: only the table-independence (_instr) is proved; "only names
       declared-but-unvalued reach the includer" is proved for data statements (_retry, _unknown), not through AsmStmtModel.assemble_args.
     "never Panic" for arbitrary states (needs the invariant that tables hold no register names); the diagnostics below
     are equations `... = Ret _ (push_error ...)`, so in the stated situations the model does not panic. *)
From Coq Require Import ZArith NArith List Bool String.
From Trion Require Import Text.Types Asm.ScopeSpec Asm.CtxModel Asm.ScopeProofs Asm.Ctx06Proofs Asm.ScopeProofs2 Asm.ScopeIso Asm.ScopeValue Asm.ScopeProv Asm.ScopeRefine Asm.ScopeRefineEx Asm.ScopeComplete.
From Trion Require Expr.EvalModel Text.ParseModel.
From Trion Require Mem.DictSpec Asm.LayoutSpec Asm.LayoutSpecExt Asm.LayoutFinal Asm.LayoutMulti Asm.LayoutMultiTop Asm.LayoutMultiCheck.
Import ListNotations.
Open Scope N_scope.

(* a constant's value never changes once defined: through a whole file including everything it includes, the tables
   `globals` (the includer's, while a file is open) and `locals` keep every entry that has a value *)
Theorem C14_monotone : forall dbg fs fuel st data path r st',
  assemble dbg fs fuel st data path = Ret r st' ->
  (forall n v, tbl_get (globals st) n = Some (Some v) -> tbl_get (globals st') n = Some (Some v)) /\
  match locals st, locals st' with
  | Some t, Some t' => forall n v, tbl_get t n = Some (Some v) -> tbl_get t' n = Some (Some v)
  | None, None => True
  | _, _ => False
  end.
Proof. exact assemble_tm. Qed.

(* the same for one statement, one deferred task, and the two writers themselves *)
Theorem C14_monotone_step : forall dbg fs fuel st e r st',
  step dbg fs (assemble dbg fs fuel) st e = Ret r st' -> tmono st st'.
Proof. exact step_mono. Qed.
Theorem C14_monotone_task : forall dbg st t r st', run_task dbg st t = Ret r st' -> tmono st st'.
Proof. exact run_task_tm. Qed.
Theorem C14_monotone_insert : forall st n v r x st', insert_constant st n v r = Ret x st' -> tmono st st'.
Proof. exact insert_constant_tm. Qed.
Theorem C14_monotone_defer : forall st n r x st', defer_constant st n r = Ret x st' -> tmono st st'.
Proof. exact defer_constant_tm. Qed.

(* ---- C14_isolation.  Definitions (Asm/ScopeIso.v):
     file_hands data n   the text `data` has a statement `.global n;` or `.export n;` of its own (parse_source data contains
                         IOk (EDirective d [AIdent n]) with dir_of d = DGlobal or DExport) - not a statement of a file it includes;
     assemble_open       Context::assemble up to, not including, the drop of the PathFrame: its final state st2 is the state
                         in which the included file ends (locals st2 = the included file's own table, globals st2 = its includer's);
     handed_up S t t' t2 for every name n:  t' n = t n,  or  S n and either (t n absent, t' n declared) or
                         (t n absent or declared, t' n = Some v and t2 n = Some v).
   After `.include g` (any nesting below g) the includer's own table t has become t' which differs from t only on names g hands
   up, each with the value g's own table t2 has when g ends (or, for a `.global` whose file failed before its end-of-file copy,
   the bare declaration); g's table t2 is gone (locals st' is t' again); the table above the includer, the path stack and the
   current file name are as before. *)
Theorem C14_isolation : forall dbg fs fuel st data path r st' t,
  assemble dbg fs (S fuel) st data path = Ret r st' -> locals st = Some t ->
  exists st2 t2 t',
    assemble_open dbg fs (assemble dbg fs fuel) st data path = Ret r st2 /\ locals st2 = Some t2 /\ globals st2 = t' /\
    locals st' = Some t' /\ globals st' = globals st /\ path_stack st' = path_stack st /\ curr_name st' = curr_name st /\
    handed_up (file_hands data) t t' t2.
Proof. exact include_isolation. Qed.

(* the two halves that need no name set: an included file cannot touch the table above its includer, and it (hence also the
   next sibling) starts from the empty table with its includer's table as the only other one it can reach *)
Theorem C14_isolation_above : forall dbg fs fuel st data path r st',
  assemble dbg fs fuel st data path = Ret r st' -> locals st <> None -> globals st' = globals st.
Proof. exact assemble_above_untouched. Qed.
Theorem C14_isolation_fresh : forall st path,
  locals (fst (enter_file st path)) = Some [] /\ (forall t, locals st = Some t -> globals (fst (enter_file st path)) = t).
Proof. exact enter_file_scope. Qed.

(* one statement of an open file (an `.include` of any depth counts as one statement): the file's own table keeps every entry
   and every value, the includer's table changes only if the statement is `.global n;` / `.export n;`, only on n, and only to
   the file's own value for n (Hs, Asm/ScopeProofs2.v) *)
Theorem C14_isolation_step : forall dbg fs fuel st e r st', locals st <> None ->
  step dbg fs (assemble dbg fs fuel) st e = Ret r st' ->
  Hs (fun n => exists dn, e_val e = EDirective dn [AIdent n] /\ up_dir dn) st st'.
Proof. exact include_step. Qed.

(* ---- C14_same_value: each hand-over puts the SAME value on the other side (C14_monotone keeps it there; C14_isolation gives
   the file-level form: every value the includer's table gained is the included file's final value) ---- *)
Theorem C14_same_value_export : forall st l c x t st', dir_global st l c DExport [AIdent x] = Ret None st' -> locals st = Some t ->
  exists v, tbl_get t x = Some (Some v) /\ tbl_get (globals st') x = Some (Some v) /\ locals st' = Some t.
Proof. exact export_same_value. Qed.
(* .import: the includer's value, or - the includer has only declared x - a declaration here plus the scheduled check that x
   gets no value in this file (the repaired defect 976f0cc) *)
Theorem C14_same_value_import : forall st l c x t st', dir_global st l c DImport [AIdent x] = Ret None st' -> locals st = Some t ->
  globals st' = globals st /\
  ((exists v, tbl_get (globals st) x = Some (Some v) /\ olook (locals st') x = Some (Some v)) \/
   (tbl_get (globals st) x = Some None /\ tbl_get t x = None /\ olook (locals st') x = Some None /\
    exists lt, local_tasks st = Some lt /\ local_tasks st' = Some (lt ++ [ImportCheckTask x l c]))).
Proof. exact import_same_value. Qed.
Theorem C14_same_value_import_check : forall dbg st x l c st', run_task dbg st (ImportCheckTask x l c) = Ret None st' ->
  st' = st /\ forall v, olook (locals st) x <> Some (Some v).
Proof. exact import_check_passes. Qed.
Theorem C14_same_value_global : forall st l c x st', dir_global st l c DGlobal [AIdent x] = Ret None st' ->
  tbl_get (globals st) x = None /\
  ((exists v, olook (locals st) x = Some (Some v) /\ tbl_get (globals st') x = Some (Some v) /\ locals st' = locals st) \/
   (tbl_get (globals st') x = Some None /\ olook (locals st') x = Some None /\
    exists lt, local_tasks st = Some lt /\ local_tasks st' = Some (lt ++ [GlobalTask x l c]))).
Proof. exact global_same_value. Qed.
Theorem C14_same_value_global_copy : forall dbg st x l c st', run_task dbg st (GlobalTask x l c) = Ret None st' ->
  exists v, olook (locals st) x = Some (Some v) /\ tbl_get (globals st') x = Some (Some v) /\ locals st' = locals st.
Proof. exact global_task_same_value. Qed.

(* file level, both directions: C14_isolation says every value the includer's table GAINED across `.include g` is g's final
   value for that name; conversely, when g ends without error (result None) EVERY name g hands up (`.export n;` / `.global n;`
   among g's own statements) has a value in g's table when g ends and the includer's table afterwards has the same value *)
Theorem C14_same_value : forall dbg fs fuel st data path st' t,
  assemble dbg fs (S fuel) st data path = Ret None st' -> locals st = Some t ->
  exists st2 t2 t',
    assemble_open dbg fs (assemble dbg fs fuel) st data path = Ret None st2 /\ locals st2 = Some t2 /\ locals st' = Some t' /\
    forall n, file_hands data n -> exists v, tbl_get t2 n = Some (Some v) /\ tbl_get t' n = Some (Some v).
Proof. exact include_same_value. Qed.

(* ---- C14_lookup_scope ---- *)
(* while a file is open every evaluation (directive arguments, data and instruction operands, retried tasks) reads that file's
   own table and nothing else; with no file open it reads the table above the root *)
Theorem C14_lookup_scope : forall st a p ps t, path_stack st = p :: ps -> locals st = Some t ->
  ctx_eval st a = evaluate_mut (fun n => Some (lookup_of t n)) is_register a.
Proof. exact ctx_eval_reads_local. Qed.
Theorem C14_lookup_scope_top : forall st a, path_stack st = [] ->
  ctx_eval st a = evaluate_mut (fun n => Some (lookup_of (globals st) n)) is_register a.
Proof. exact ctx_eval_reads_top. Qed.
Theorem C14_lookup_scope_instr : forall st1 st2 a p1 ps1 p2 ps2, path_stack st1 = p1 :: ps1 -> path_stack st2 = p2 :: ps2 ->
  locals st1 = locals st2 -> instr_ev st1 a = instr_ev st2 a /\ ctx_eval_panics st1 a = ctx_eval_panics st2 a.
Proof. exact instr_ev_same_table. Qed.
(* the end-of-file retry of a data statement in its own file (table t): it is handed to the includer exactly when the
   evaluation is deferred, and the reported cause is a name t has DECLARED BUT NOT VALUED (.global / .import of a declared
   name); a name t lacks is a diagnostic in the file itself - the includer's table is never consulted for it; and the retry
   in the includer is the last (a name unvalued there too is a diagnostic: one level) *)
Theorem C14_lookup_scope_retry : forall dbg st d a' ch c p ps t, path_stack st = p :: ps -> locals st = Some t ->
  ctx_eval st (de_arg d) = EvOk a' (EvalModel.Deferred ch c) ->
  run_task dbg st (DataTask d false) = Ret None (set_global_tasks st (global_tasks st ++ [DataTask (de_set_arg d a') true])) /\
  tbl_get t c = Some None /\ is_register c = false.
Proof. exact data_retry_deferred. Qed.
Theorem C14_lookup_scope_unknown : forall dbg st d a' e, ctx_eval st (de_arg d) = EvErr a' e ->
  run_task dbg st (DataTask d false) = Ret (Some Trivial) (push_error_in st (de_file d) (de_line d) (de_col d) (KApply AEval)).
Proof. exact data_retry_unknown. Qed.
Theorem C14_lookup_scope_unknown_name : forall st a a' n p ps t, path_stack st = p :: ps -> locals st = Some t ->
  ctx_eval st a = EvErr a' (EENoVar n) -> tbl_get t n = None /\ is_register n = false.
Proof. exact ctx_eval_unknown. Qed.
Theorem C14_lookup_scope_one_level : forall dbg st d a' ch c, ctx_eval st (de_arg d) = EvOk a' (EvalModel.Deferred ch c) ->
  run_task dbg st (DataTask d true) =
  Ret (Some Trivial) (push_error_in st (de_file d) (de_line d) (de_col d) (KApply AConstNotFound)).
Proof. exact data_retry_includer_deferred. Qed.

(* ---- C14_use_sites (partial): the value a `.du32 x;` emits is the value of x in the table the C14_lookup_scope theorems
   name - as equations on the model: at the statement (x valued in the open file's table: these bytes, now), otherwise a
   placeholder and a task; at a retry (end of the file: the file's table; once more in the includer: the includer's) ---- *)
Theorem C14_use_sites_partial_now : forall dbg st l c k x p ps t s v,
  path_stack st = p :: ps -> locals st = Some t -> active st = Active s ->
  has_remaining dbg s (dk_size k) = SOk true -> is_register x = false -> tbl_get t x = Some (Some v) ->
  ((0 <=? v)%Z && (v <=? dk_max k)%Z = true) ->
  dir_data dbg st l c k [AIdent x] =
  (let d := mkDE k (curr_name st) l c (curr_addr s) (AConst v) in
   do r, st1 <- write_data dbg st d (le_n (dk_size k) (Z.to_N v));
   match r with
   | None => Ret None st1
   | Some _ =>
       do w, st2 <- write_data dbg st1 d (padding (dk_size k));
       match w with Some lv => Ret (Some lv) st2 | None => do _, st3 <- add_task st2 (DataTask d false) RLocal; Ret None st3 end
   end).
Proof. exact use_now. Qed.
Theorem C14_use_sites_partial_later : forall dbg st l c k x p ps t s,
  path_stack st = p :: ps -> locals st = Some t -> active st = Active s ->
  has_remaining dbg s (dk_size k) = SOk true -> is_register x = false ->
  tbl_get t x = None \/ tbl_get t x = Some None ->
  dir_data dbg st l c k [AIdent x] =
  (let d := mkDE k (curr_name st) l c (curr_addr s) (AIdent x) in
   do w, st2 <- write_data dbg st d (padding (dk_size k));
   match w with Some lv => Ret (Some lv) st2 | None => do _, st3 <- add_task st2 (DataTask d false) RLocal; Ret None st3 end).
Proof. exact use_later. Qed.
(* eval_table st = the open file's own table, or the table above the root when no file is open *)
Theorem C14_use_sites_partial_retry : forall dbg st d x t g, de_arg d = AIdent x -> eval_table st = Some t -> is_register x = false ->
  run_task dbg st (DataTask d g) =
  match tbl_get t x with
  | None => Ret (Some Trivial) (push_error_in st (de_file d) (de_line d) (de_col d) (KApply AEval))
  | Some None =>
      if g then Ret (Some Trivial) (push_error_in st (de_file d) (de_line d) (de_col d) (KApply AConstNotFound))
      else Ret None (set_global_tasks st (global_tasks st ++ [DataTask d true]))
  | Some (Some v) =>
      if (0 <=? v)%Z && (v <=? dk_max (de_kind d))%Z then
        do r, st1 <- write_data dbg st (de_set_arg d (AConst v)) (le_n (dk_size (de_kind d)) (Z.to_N v));
        Ret (match r with None => None | Some lv => Some lv end) st1
      else Ret (Some Trivial) (push_error_in st (de_file d) (de_line d) (de_col d) (KApply ADataRange))
  end.
Proof. exact use_retry. Qed.

(* no deferred task and no end-of-file loop writes the file's own table: the table a file ends with is the one its last
   statement left, and it is the table every retry in that file reads *)
Theorem C14_lookup_scope_tasks : forall dbg st t r st', run_task dbg st t = Ret r st' -> locals st' = locals st.
Proof. exact run_task_ls. Qed.
Theorem C14_lookup_scope_end_of_file : forall dbg rounds tasks st r r' st',
  local_loop dbg rounds tasks st r = Ret r' st' -> locals st' = locals st.
Proof. exact local_loop_ls. Qed.

(* provenance (model terms): every entry with a value in the table a file ends with was put there by one of the file's own
   statements e, reached in state sa (def_by, Asm/ScopeProv.v): its `.const n, a` (a evaluates to v in sa), its label n (v = the
   current address), its `.import n` (the includer's table has n = v in sa), or its `.include` of a file that has a statement
   `.global n` / `.export n` and ends with n = v in its own table.  Nothing else: no sibling, no includer without `.import`,
   no included file without `.export` / `.global`. *)
Theorem C14_use_sites_partial_provenance : forall dbg fs fuel st data path r st2 items tail,
  assemble_open dbg fs (assemble dbg fs fuel) st data path = Ret r st2 -> parse_source data = Parsed items tail ->
  exists t2, locals st2 = Some t2 /\
    forall n v, tbl_get t2 n = Some (Some v) ->
      exists pre e post sa, items = pre ++ ParseModel.IOk e :: post /\
        run_items dbg fs (assemble dbg fs fuel) pre (fst (enter_file st path)) = Ret None sa /\
        def_by dbg fs (assemble dbg fs fuel) (assemble dbg fs (Nat.pred fuel)) e sa n v.
Proof. exact assemble_provenance. Qed.

(* model |= ScopeSpec, table level, every include depth.  `occ dbg fs f st data path t` (Asm/ScopeRefine.v): the text `data`
   assembled as file `path` from state st with include fuel f is an occurrence with ScopeSpec tree t - statement by statement
   `.const x, v` / `x:` are IDef (a label carries the address the MODEL gives it), `.global/.import/.export x` are
   IGlobal/IImport/IExport, `.du32 x` is IUse, `.include "g"` is IChild of an occurrence of the text fs has for g, `.addr` is
   skipped.  Then every value in the table the occurrence ends with is one of the oracle's `sources` for that name, provided
   the includer's table at entry is covered by penv (for the root: the empty table, any penv).  Hence where the oracle names
   exactly one value for x (no duplicate, not invisible), that is the only value the model's table can hold for x - and by
   C14_use_sites_partial_now / _retry the table's value is what a `.du32 x` emits. *)
Theorem C14_use_sites_partial_sources : forall dbg fs f st data path t r st2 t2 (penv : str -> list Z),
  occ dbg fs f st data path t -> assemble_open dbg fs (assemble dbg fs f) st data path = Ret r st2 -> locals st2 = Some t2 ->
  (forall n v, tbl_get (entry_globals st) n = Some (Some v) -> In v (penv n)) ->
  forall n v, tbl_get t2 n = Some (Some v) -> In v (sources t penv n).
Proof. exact occ_sources. Qed.
Theorem C14_use_sites_partial_value : forall dbg fs f st data path t r st2 t2 (penv : str -> list Z) x v v',
  occ dbg fs f st data path t -> assemble_open dbg fs (assemble dbg fs f) st data path = Ret r st2 -> locals st2 = Some t2 ->
  (forall n w, tbl_get (entry_globals st) n = Some (Some w) -> In w (penv n)) ->
  sources t penv x = [v'] -> tbl_get t2 x = Some (Some v) -> v = v'.
Proof. exact occ_use_value. Qed.

(* non-vacuity of `occ`: the two-file project  r = `.addr 0x100; .include "c"; .du32 A;`  c = `.const A, 7; .export A;`
   is an occurrence of exactly the tree the oracle's own expansion gives it; its run ends with A = 7 in the root's table, the
   single source the oracle names *)
Theorem C14_use_sites_partial_example :
  expand_project (mkProject [(ex_src "r", [SAddr 256; SInclude (ex_src "c"); SUse ex_A]);
                             (ex_src "c", [SConst ex_A 7; SExport ex_A])] (ex_src "r")) = Some (256%Z, ex_tree, 1%N) /\
  occ false ex_fs 1 init_state ex_r (ex_src "r") ex_tree /\
  exists r st2 t2,
    assemble_open false ex_fs (assemble false ex_fs 1) init_state ex_r (ex_src "r") = Ret r st2 /\ locals st2 = Some t2 /\
    tbl_get t2 ex_A = Some (Some 7%Z) /\ sources ex_tree no_env ex_A = [7%Z].
Proof. exact (conj ex_expand (conj ex_occ ex_run)). Qed.

(* ---- C14_diagnostics: each listed scope error yields its diagnostic (an equation, hence no panic) ---- *)
Theorem C14_diag_duplicate_label : forall dbg fs inc st s l c n w t, is_register n = false -> active st = Active s ->
  locals st = Some t -> tbl_get t n = Some (Some w) ->
  step dbg fs inc st (mkElement l c (ELabel n)) = Ret (Some Fatal) (push_error st l c KConstDuplicate).
Proof. exact label_duplicate. Qed.
Theorem C14_diag_duplicate_const : forall st l c n v w t, is_register n = false -> locals st = Some t -> tbl_get t n = Some (Some w) ->
  dir_const st l c [AIdent n; AConst v] = Ret (Some Fatal) (push_error st l c (KApply AConstDup)).
Proof. exact const_duplicate. Qed.
Theorem C14_diag_duplicate_import : forall st l c x t v w, is_register x = false -> locals st = Some t -> tbl_get t x = Some (Some w) ->
  tbl_get (globals st) x = Some (Some v) ->
  dir_global st l c DImport [AIdent x] = Ret (Some Fatal) (push_error st l c (KApply AGDuplicate)).
Proof. exact import_duplicate. Qed.
Theorem C14_diag_export_includer_has : forall st l c x t v w, is_register x = false -> locals st = Some t -> tbl_get t x = Some (Some v) ->
  tbl_get (globals st) x = Some (Some w) ->
  dir_global st l c DExport [AIdent x] = Ret (Some Fatal) (push_error st l c (KApply AGDuplicate)).
Proof. exact export_includer_has. Qed.
Theorem C14_diag_global_includer_has : forall st l c x e, is_register x = false -> tbl_get (globals st) x = Some e ->
  dir_global st l c DGlobal [AIdent x] = Ret (Some Fatal) (push_error st l c (KApply AGDuplicate)).
Proof. exact global_includer_has. Qed.
Theorem C14_diag_import_includer_lacks : forall st l c x, tbl_get (globals st) x = None ->
  dir_global st l c DImport [AIdent x] = Ret (Some Fatal) (push_error st l c (KApply AGNotFound)).
Proof. exact import_includer_lacks. Qed.
Theorem C14_diag_export_unknown : forall st l c x t, locals st = Some t -> tbl_get t x = None ->
  dir_global st l c DExport [AIdent x] = Ret (Some Fatal) (push_error st l c (KApply AGNotFound)).
Proof. exact export_unknown. Qed.
Theorem C14_diag_export_unvalued : forall st l c x t, locals st = Some t -> tbl_get t x = Some None ->
  dir_global st l c DExport [AIdent x] = Ret (Some Fatal) (push_error st l c (KApply AGDeferred)).
Proof. exact export_unvalued. Qed.
Theorem C14_diag_global_unvalued : forall dbg st l c x t, locals st = Some t -> tbl_get t x = Some None ->
  run_task dbg st (GlobalTask x l c) = Ret (Some Trivial) (push_error st l c (KApply AGDeferred)).
Proof. exact global_unvalued. Qed.
Theorem C14_diag_import_redefined : forall dbg st l c x t v, locals st = Some t -> tbl_get t x = Some (Some v) ->
  run_task dbg st (ImportCheckTask x l c) = Ret (Some Trivial) (push_error st l c (KApply AGDuplicate)).
Proof. exact import_redefined. Qed.
Theorem C14_diag_register_label : forall dbg fs inc st s l c n, is_register n = true -> active st = Active s ->
  step dbg fs inc st (mkElement l c (ELabel n)) = Ret (Some Fatal) (push_error st l c KConstReserved).
Proof. exact label_register. Qed.
Theorem C14_diag_register_const : forall st l c n v, is_register n = true ->
  dir_const st l c [AIdent n; AConst v] = Ret (Some Fatal) (push_error st l c (KApply AConstReserved)).
Proof. exact const_register. Qed.
Theorem C14_diag_register_global : forall st l c n, is_register n = true ->
  dir_global st l c DGlobal [AIdent n] = Ret (Some Fatal) (push_error st l c (KApply AConstReserved)).
Proof. exact global_register. Qed.

(* ---- the oracle itself: examples (non-vacuity of ScopeSpec) ---- *)
Definition nA : name := [65].
Definition fR : str := [114].
Definition fC : str := [99].

Theorem C14_examples :
  j_verdict (judge_project (mkProject [(fR, [SAddr 256; SInclude fC; SUse nA]); (fC, [SConst nA 7; SExport nA])] fR)) = Accept /\
  j_uses (judge_project (mkProject [(fR, [SAddr 256; SInclude fC; SUse nA]); (fC, [SConst nA 7; SExport nA])] fR)) = [(0, Some 7%Z)] /\
  j_verdict (judge_project (mkProject [(fR, [SAddr 256; SInclude fC; SUse nA]); (fC, [SConst nA 7])] fR)) = MustDiag RInvisibleUse /\
  j_verdict (judge_project (mkProject [(fR, [SAddr 256; SInclude fC; SInclude fC]); (fC, [SLabel nA; SUse nA])] fR)) = Accept /\
  j_uses (judge_project (mkProject [(fR, [SAddr 256; SInclude fC; SInclude fC]); (fC, [SLabel nA; SUse nA])] fR)) = [(0, Some 256%Z); (1, Some 260%Z)] /\
  j_verdict (judge_project (mkProject [(fR, [SAddr 256; SInclude fC; SInclude fC]); (fC, [SLabel nA; SExport nA])] fR)) = MustDiag RDuplicate /\
  j_verdict (judge_project (mkProject [(fR, [SAddr 256; SInclude fC; SConst nA 1]); (fC, [SImport nA; SUse nA])] fR)) = Unspecified /\
  j_verdict (judge_project (mkProject [(fR, [SAddr 256; SInclude fC]); (fC, [SImport nA])] fR)) = MustDiag RImportLacks /\
  j_verdict (judge_project (mkProject [(fR, [SAddr 256; SGlobal nA; SInclude fC; SConst nA 7]); (fC, [SImport nA; SConst nA 77; SUse nA])] fR)) = MustDiag RDuplicate /\
  j_verdict (judge_project (mkProject [(fR, [SAddr 256; SConst [82;48] 1])] fR)) = MustDiag RRegisterName.
Proof. vm_compute. repeat split. Qed.

(* ---- C14_use_sites at image level (for the project class of C05; proofs: Asm/LayoutMulti*.v) ----
   placed = the reference's statements ((address, bytes), (file instance, item)); EF_of x2 id = the final table of file
   instance id (x2 = the reference's final pass-1 state); the image is the runs of the dictionary image_dict_x placed.
   Every `.du32 x` of file instance id: x has a value v in THAT instance's final table (so it is visible there), v fits 32
   bits, and the image holds the 4 little-endian bytes of v at the statement's address. *)
Theorem C14_use_sites_image_partial : forall dbg fs fuel path text els placed names x2, (8 <= fuel)%nat ->
  LayoutMulti.parse_els text = Some els ->
  LayoutSpecExt.layout_spec_ext (LayoutFinal.rel_fs fs path) LayoutMulti.parse_ref (map e_val els) = Some (placed, names) ->
  LayoutMulti.C05_project_class fs path (map e_val els) ->
  LayoutMulti.px_final (LayoutFinal.rel_fs fs path) LayoutMulti.parse_ref (map e_val els) = Some x2 ->
  pipeline_gen dbg fs fuel path text = Done Success [] (DictSpec.runs (LayoutMulti.image_dict_x placed)) /\
  forall a bs id x, In ((a, bs), (id, LayoutSpec.IData 4 (AIdent x))) placed ->
    exists v, LayoutSpec.env_get (LayoutMulti.EF_of x2 id) x = Some v /\ is_register x = false /\ (0 <= v <= 4294967295)%Z /\
      bs = le_n 4 (Z.to_N v) /\
      forall i, i < 4 -> DictSpec.d_get (LayoutMulti.image_dict_x placed) (a + i) = nth_error (le_n 4 (Z.to_N v)) (N.to_nat i).
Proof. exact LayoutMultiTop.project_use_sites. Qed.

(* ... and a name that is not visible in the scope: the retry of `.du32 x` in a table that lacks x is a diagnostic (in the
   file itself at the end of the file, g = false; in the includer, g = true) - the None arm of C14_use_sites_partial_retry *)
Theorem C14_use_sites_invisible : forall dbg st d x t g, de_arg d = AIdent x -> eval_table st = Some t -> is_register x = false ->
  tbl_get t x = None ->
  run_task dbg st (DataTask d g) = Ret (Some Trivial) (push_error_in st (de_file d) (de_line d) (de_col d) (KApply AEval)).
Proof. exact LayoutMultiTop.use_invisible. Qed.

(* non-vacuity: the oracle's own two-file example (C14_examples: r = `.addr 0x100; .include "c"; .du32 A;`, c = `.const A, 7;
   .export A;`): the image holds 7 at 0x100, the project is in the class, the reference's table of the root instance has A = 7;
   without the `.export` the reference is undefined and the pipeline reports a diagnostic *)
Local Open Scope string_scope.
Theorem C14_use_sites_image_examples :
  let src := Arm.DisplayModel.bytes_of_string in
  let fs (c : String.string) : str -> option (list N) := fun v => if Arm.AsmStmtModel.str_eqb v (src "c") then Some (src c) else None in
  let r := src ".addr 0x100; .include ""c""; .du32 A;" in
  pipeline_gen false (fs ".const A, 7; .export A;") 8 (src "r") r = Done Success [] [(256, 259, [7; 0; 0; 0])] /\
  match LayoutMulti.parse_ref r with
  | Some prog =>
      LayoutMultiCheck.project_check (fs ".const A, 7; .export A;") (src "r") prog = true /\
      option_map (fun x2 => LayoutSpec.env_get (LayoutMulti.EF_of x2 1) (src "A"))
                 (LayoutMulti.px_final (LayoutFinal.rel_fs (fs ".const A, 7; .export A;") (src "r")) LayoutMulti.parse_ref prog) = Some (Some 7%Z) /\
      LayoutSpecExt.layout_spec_ext (LayoutFinal.rel_fs (fs ".const A, 7;") (src "r")) LayoutMulti.parse_ref prog = None
  | None => False
  end /\
  match pipeline_gen false (fs ".const A, 7;") 8 (src "r") r with Done Failure (_ :: _) _ => True | _ => False end.
Proof. vm_compute. repeat split; reflexivity. Qed.

(* ---- the oracle's projects as TEXT: `occ` for EVERY project, no hypothesis left (supersedes item (2) of the header's list of what
   is missing for C14_use_sites; proofs: Asm/ScopeText.v (how a project is written), Asm/ScopeLink.v (text -> statements by C09's
   character-level round trip, the oracle's expansion as a list recursion), Asm/ScopeLinkSeg.v (where the active segment
   stands), Asm/ScopeLinkOcc.v (the induction over include depth), Asm/ScopeLinkTop.v).
   ScopeText.show_project p = (file system, root path, root text): every file of p under its plain name, one statement per line
       .addr 256;   .const A, 7;   A:   .global A;   .import A;   .export A;   .include "c";   .du32 A;
   (Text/ShowSpec.show of Text/Render.render_stmts with spaces / line feeds as separators); project_fs / project_root /
   project_text are its three components.
   project_ok p: the project can be written: names are identifiers, `.const` values and the address are literals 0 <= v < 2^63
   (a negative number is an expression `-5`, which `occ` does not relate to SConst), file names are non-empty, UTF-8, without `/`
   (all files in one directory: there the model's resolve_path is the identity on the included name).
   a + 4n < 2^32 (a = the `.addr`, n = number of `.du32`): the oracle gives a label the value a + 4k in Z; the model's
   curr_addr is a u32 that saturates at 2^32 - 1, so a label at the very end of the address space reads 0xFFFFFFFF, not 2^32.
   expand_project p = Some ..: the oracle itself expands p (root starts with `.addr`, all files found, nesting <= max_depth). ---- *)
From Trion Require Import Asm.CtxInvDefs Asm.ScopeText Asm.ScopeLinkSeg.
From Trion Require Asm.ScopeLink Asm.ScopeLinkOcc Asm.ScopeLinkTop.

(* 1. the text of every such project is an occurrence of the tree the oracle's own expansion gives it, from the initial state,
   for every include fuel f and both profiles *)
Theorem C14_project_occ : forall dbg p a t n f, project_ok p = true -> expand_project p = Some (a, t, n) ->
  (a + 4 * Z.of_N n < 4294967296)%Z ->
  occ dbg (project_fs p) f init_state (project_text p) (project_root p) t.
Proof. exact ScopeLinkOcc.occ_of_project. Qed.

(* 2. C14_use_sites_partial_sources / _value for ALL oracle projects: with more include fuel than the project has files the
   pipeline terminates (Done: C06), and the table the root file ends with - the table every `.du32 x` of the root reads, at the
   statement or at its end-of-file retry (C14_use_sites_partial_now / _retry) - holds for every name only values the oracle
   names; where the oracle names exactly one value, that one *)
Theorem C14_project_sources : forall dbg p a t n f, project_ok p = true -> expand_project p = Some (a, t, n) ->
  (a + 4 * Z.of_N n < 4294967296)%Z -> (List.length (p_files p) <= f)%nat ->
  exists s diags regions r st2 t2,
    pipeline_gen dbg (project_fs p) (S f) (project_root p) (project_text p) = Done s diags regions /\
    assemble_open dbg (project_fs p) (assemble dbg (project_fs p) f) init_state (project_text p) (project_root p) = Ret r st2 /\
    locals st2 = Some t2 /\
    (forall x v, tbl_get t2 x = Some (Some v) -> In v (sources t no_env x)) /\
    (forall x v v', sources t no_env x = [v'] -> tbl_get t2 x = Some (Some v) -> v = v').
Proof. exact ScopeLinkTop.project_sources_done. Qed.

(* ... with any fuel, whenever the pipeline terminates *)
Theorem C14_project_sources_any_fuel : forall dbg p a t n f s diags regions, project_ok p = true ->
  expand_project p = Some (a, t, n) -> (a + 4 * Z.of_N n < 4294967296)%Z ->
  pipeline_gen dbg (project_fs p) (S f) (project_root p) (project_text p) = Done s diags regions ->
  exists r st2 t2,
    assemble_open dbg (project_fs p) (assemble dbg (project_fs p) f) init_state (project_text p) (project_root p) = Ret r st2 /\
    locals st2 = Some t2 /\
    (forall x v, tbl_get t2 x = Some (Some v) -> In v (sources t no_env x)) /\
    (forall x v v', sources t no_env x = [v'] -> tbl_get t2 x = Some (Some v) -> v = v').
Proof. exact ScopeLinkTop.project_sources. Qed.

(* EVERY FILE INSTANCE, by an inductive invariant.  Inv (body, st, t, k, penv): the oracle expands the file `body` to t from
   counter k (within the 32-bit bound), st satisfies the C13 invariant `good` (it holds in every reachable state: C13), the active
   segment of st is (a, 4k) (seg_sig: base and length), and every value in the includer's table at entry is in penv.
   _instance_sources: Inv => the table the instance ends with holds only the oracle's sources t penv (whatever its result);
   _instance_enters:  Inv is handed on: when all statements in front of an `.include "g"` of the file returned Ok (state sa), g is
                      found under its plain name, the oracle has a child tree tc at that place, and Inv holds for
                      (g's body, sa, tc, k1, sources t penv);
   _root_enters:      the same for the root file, entered from the initial state with the empty environment - the start of
                      the chain.  Hence by induction along the run: in every file instance the run enters, `.du32 x` reads a
                      table whose values are the oracle's sources for x in THAT instance. *)
Theorem C14_project_instance_sources : forall dbg files a d f path body k t k' st r st2 t2 (penv : str -> list Z),
  (forall n b, In (n, b) files -> plain_name n = true /\ forallb stmt_ok b = true) -> (0 <= a)%Z ->
  plain_name path = true -> forallb stmt_ok body = true ->
  expand d files a body k = Some (t, k') -> (a + 4 * Z.of_N k' < 4294967296)%Z ->
  good st -> seg_sig st = Some (Z.to_N a, 4 * k) -> ScopeLinkOcc.cover penv (entry_globals st) ->
  assemble_open dbg (fs_of files) (assemble dbg (fs_of files) f) st (show_file body) path = Ret r st2 -> locals st2 = Some t2 ->
  forall x v, tbl_get t2 x = Some (Some v) -> In v (sources t penv x).
Proof. exact ScopeLinkTop.instance_sources. Qed.

Theorem C14_project_instance_enters : forall dbg files a d f path body k t k' st (penv : str -> list Z) pre e post tail g sa,
  (forall n b, In (n, b) files -> plain_name n = true /\ forallb stmt_ok b = true) -> (0 <= a)%Z ->
  plain_name path = true -> forallb stmt_ok body = true ->
  expand (S d) files a body k = Some (t, k') -> (a + 4 * Z.of_N k' < 4294967296)%Z ->
  good st -> seg_sig st = Some (Z.to_N a, 4 * k) -> ScopeLinkOcc.cover penv (entry_globals st) ->
  parse_source (show_file body) = Parsed (pre ++ ParseModel.IOk e :: post) tail -> e_val e = ev_of (SInclude g) ->
  run_items dbg (fs_of files) (assemble dbg (fs_of files) f) pre (fst (enter_file st path)) = Ret None sa ->
  exists b k1 tc k2,
    fs_of files (resolve_path (curr_of sa) g) = Some (show_file b) /\ resolve_path (curr_of sa) g = g /\
    In (IChild tc) (items_of t) /\
    plain_name g = true /\ forallb stmt_ok b = true /\
    expand d files a b k1 = Some (tc, k2) /\ (a + 4 * Z.of_N k2 < 4294967296)%Z /\
    good sa /\ seg_sig sa = Some (Z.to_N a, 4 * k1) /\ ScopeLinkOcc.cover (sources t penv) (entry_globals sa).
Proof. exact ScopeLinkTop.instance_enters. Qed.

Theorem C14_project_root_enters : forall dbg p a t n f pre e post tail g sa, project_ok p = true ->
  expand_project p = Some (a, t, n) -> (a + 4 * Z.of_N n < 4294967296)%Z ->
  parse_source (project_text p) = Parsed (pre ++ ParseModel.IOk e :: post) tail -> e_val e = ev_of (SInclude g) ->
  run_items dbg (project_fs p) (assemble dbg (project_fs p) f) pre (fst (enter_file init_state (project_root p))) = Ret None sa ->
  (forall m b, In (m, b) (p_files p) -> plain_name m = true /\ forallb stmt_ok b = true) /\ (0 <= a)%Z /\
  exists b k1 tc k2,
    project_fs p (resolve_path (curr_of sa) g) = Some (show_file b) /\ resolve_path (curr_of sa) g = g /\
    In (IChild tc) (items_of t) /\
    plain_name g = true /\ forallb stmt_ok b = true /\
    expand 5 (p_files p) a b k1 = Some (tc, k2) /\ (a + 4 * Z.of_N k2 < 4294967296)%Z /\
    good sa /\ seg_sig sa = Some (Z.to_N a, 4 * k1) /\ ScopeLinkOcc.cover (sources t no_env) (entry_globals sa).
Proof. exact ScopeLinkTop.project_enters. Qed.

(* non-vacuity, three files:   r = `.addr 256; .include "a"; .du32 A; .du32 B; .du32 L;`
                               a = `.include "b"; .const A, 7; .export A; .export B; .global L; L:`
                               b = `.const B, 9; .export B; .du32 B;`
   the premises hold, the texts are the ones above (one statement per line), the pipeline succeeds with the image the oracle's
   `uses` require (9, 7, 9, 260 at 256..271), the oracle accepts; and C14_project_sources applied to it *)
Theorem C14_project_examples :
  project_ok ScopeLinkTop.ex3 = true /\ expand_project ScopeLinkTop.ex3 = Some (256%Z, ScopeLinkTop.ex3_tree, 4) /\
  project_text ScopeLinkTop.ex3 = Arm.DisplayModel.bytes_of_string
    (".addr 256;" ++ ScopeLinkTop.ex3_nl ++ ".include ""a"";" ++ ScopeLinkTop.ex3_nl ++ ".du32 A;" ++ ScopeLinkTop.ex3_nl ++
     ".du32 B;" ++ ScopeLinkTop.ex3_nl ++ ".du32 L;" ++ ScopeLinkTop.ex3_nl)%string /\
  project_fs ScopeLinkTop.ex3 ScopeLinkTop.ex3_a = Some (Arm.DisplayModel.bytes_of_string
    (".include ""b"";" ++ ScopeLinkTop.ex3_nl ++ ".const A, 7;" ++ ScopeLinkTop.ex3_nl ++ ".export A;" ++ ScopeLinkTop.ex3_nl ++
     ".export B;" ++ ScopeLinkTop.ex3_nl ++ ".global L;" ++ ScopeLinkTop.ex3_nl ++ "L:" ++ ScopeLinkTop.ex3_nl)%string) /\
  pipeline_gen false (project_fs ScopeLinkTop.ex3) 8 (project_root ScopeLinkTop.ex3) (project_text ScopeLinkTop.ex3)
    = Done Success [] [(256, 271, [9; 0; 0; 0; 7; 0; 0; 0; 9; 0; 0; 0; 4; 1; 0; 0])] /\
  j_verdict (judge_project ScopeLinkTop.ex3) = Accept /\
  j_uses (judge_project ScopeLinkTop.ex3) = [(0, Some 9%Z); (1, Some 7%Z); (2, Some 9%Z); (3, Some 260%Z)] /\
  sources ScopeLinkTop.ex3_tree no_env ScopeLinkTop.ex3_L = [260%Z].
Proof. exact ScopeLinkTop.ex3_facts. Qed.

Theorem C14_project_example_sources : exists r st2 t2,
  assemble_open false (project_fs ScopeLinkTop.ex3) (assemble false (project_fs ScopeLinkTop.ex3) 7) init_state
    (project_text ScopeLinkTop.ex3) (project_root ScopeLinkTop.ex3) = Ret r st2 /\
  locals st2 = Some t2 /\
  (forall x v, tbl_get t2 x = Some (Some v) -> In v (sources ScopeLinkTop.ex3_tree no_env x)) /\
  tbl_get t2 ScopeLinkTop.ex3_A = Some (Some 7%Z) /\ tbl_get t2 ScopeLinkTop.ex3_B = Some (Some 9%Z) /\
  tbl_get t2 ScopeLinkTop.ex3_L = Some (Some 260%Z).
Proof. exact ScopeLinkTop.ex3_sources. Qed.

(* the bound a + 4n < 2^32 is needed:  r = `.addr 4294967292; .du32 L; L:`  has a + 4n = 2^32; the oracle's label value is
   2^32 (computed in Z; verdict Unspecified), the model's label reads 0xFFFFFFFF (curr_addr saturates) and the run succeeds
   with the bytes FF FF FF FF - so the oracle's IDef item is not the model's label there *)
Theorem C14_project_bound_example :
  project_ok ScopeLinkTop.ext_p = true /\
  expand_project ScopeLinkTop.ext_p = Some (4294967292%Z, Node [IUse [76] 0; IDef [76] 4294967296], 1) /\
  j_uses (judge_project ScopeLinkTop.ext_p) = [(0, Some 4294967296%Z)] /\ j_verdict (judge_project ScopeLinkTop.ext_p) = Unspecified /\
  pipeline_gen false (project_fs ScopeLinkTop.ext_p) 8 (project_root ScopeLinkTop.ext_p) (project_text ScopeLinkTop.ext_p)
    = Done Success [] [(4294967292, 4294967295, [255; 255; 255; 255])].
Proof. exact ScopeLinkTop.ext_facts. Qed.

(* ---- 3 (partial): the converse direction on whole projects, for ONE verdict class.
   Full statement (NOT proved):  judge_project p = MustDiag r  =>  the pipeline ends without success, with a diagnostic (all r);
                                 judge_project p = Accept      =>  the pipeline succeeds and every use site k holds the value of `uses`.
   Proved: the class r = RRegisterName (a `.const` / label / `.global` / `.import` / `.export` in any file instance names a
   register of the oracle's table): the pipeline terminates (more fuel than files), not with Success, and a Failure carries a
   diagnostic.  More generally whenever RRegisterName occurs ANYWHERE in the oracle's error list (not only first).
   Not covered: RDuplicate, RImportLacks, RExportUnvalued, RInvisibleUse, RImportAndExport (they need the state of the tables
   and of the deferred tasks along a successful run, not only that each statement returned Ok - per statement they are the
   C14_diag_ theorems), and the Accept direction (success is derived only for C05's project class: C14_use_sites_image_partial).
   Proof: Asm/ScopeLinkReg.v (the oracle's register table is contained in the model's is_register; a statement that returns Ok
   names no register; every statement of every instance of a successful run returned Ok). ---- *)
From Trion Require Asm.ScopeLinkReg.

Theorem C14_project_judgement_partial : forall dbg p a t n f, project_ok p = true -> expand_project p = Some (a, t, n) ->
  (a + 4 * Z.of_N n < 4294967296)%Z -> j_verdict (judge_project p) = MustDiag RRegisterName ->
  (List.length (p_files p) <= f)%nat ->
  exists s diags regions, pipeline_gen dbg (project_fs p) (S f) (project_root p) (project_text p) = Done s diags regions /\
    s <> Success /\ (s = Failure -> diags <> []).
Proof. exact ScopeLinkReg.project_judgement_partial. Qed.

Theorem C14_project_register_fails : forall dbg p a t n fuel s diags regions, project_ok p = true ->
  expand_project p = Some (a, t, n) -> (a + 4 * Z.of_N n < 4294967296)%Z ->
  In RRegisterName (ScopeSpec.errors t no_env ++ top_errors t) ->
  pipeline_gen dbg (project_fs p) fuel (project_root p) (project_text p) = Done s diags regions ->
  s <> Success /\ (s = Failure -> diags <> []).
Proof. exact ScopeLinkReg.project_register_fails. Qed.

(* the oracle's register names are register names of the model (one inclusion; it is what the theorem needs) *)
Theorem C14_project_register_table : forall x, ScopeSpec.is_register x = true -> CtxModel.is_register x = true.
Proof. exact ScopeLinkReg.is_register_agree. Qed.

(* non-vacuity:  r = `.addr 256; .include "a"; .du32 A;`   a = `.const A, 1; .export A; .global r7; r7:`
   the oracle says MustDiag RRegisterName; the run fails with the diagnostic at a:3 (`.global r7`) and `include failed` at r:2 *)
Theorem C14_project_judgement_example :
  project_ok ScopeLinkReg.exr_p = true /\ j_verdict (judge_project ScopeLinkReg.exr_p) = MustDiag RRegisterName /\
  match pipeline_gen false (project_fs ScopeLinkReg.exr_p) 8 (project_root ScopeLinkReg.exr_p) (project_text ScopeLinkReg.exr_p) with
  | Done Failure [d1; d2] _ => d_file d1 = [97] /\ d_line d1 = 3 /\ d_class d1 = KApply AConstReserved /\
                               d_file d2 = [114] /\ d_line d2 = 2 /\ d_class d2 = KApply AIncFailed
  | _ => False
  end.
Proof. exact ScopeLinkReg.exr_facts. Qed.

(* ---- 3 (FULL): the converse direction on whole projects, for EVERY verdict.  Supersedes the list "Not covered" above and
   item (3) of the header: C14_project_judgement is the full statement.
   (a) MustDiag r, every r (duplicate in one scope / exporting a name the includer already has, import of a name the includer
       lacks, export or `.global` of a name without value, register name, use of an invisible name, import-and-export):
       the pipeline ends with status Failure and at least one diagnostic.  Proof (Asm/ScopeVerdictFine.v, ScopeVerdictStep.v,
       ScopeVerdictRun.v, ScopeVerdictTop.v), by contraposition: when Context::assemble of the root returns Ok, every file
       instance returned Ok; per name the statements seen so far and the two tables are in one of seven situations, every statement
       that returns Ok moves inside them or DOOMS the file (a pending import check on a name that now has a value, a pending
       `.global` copy of a name the includer already has valued) and a doomed file does not return Ok; at the end of each file the
       counts (definitions + imports <= 1, hand-ups <= 1, ...) make the tree `fine`, and a fine tree has an empty error list in the
       oracle (C14_project_no_errors).  Closing the last region never fails (C13), so "not Success" is Failure.
   (b) Accept: the pipeline ends with Done Success [] and the image is ONE region at the project's address, 4 bytes per `.du32` in
       assembly order, the bytes of use site k being the oracle's value, little endian.  Proof (Asm/ScopeVerdictAbs.v: a reading of
       the oracle's tree in the assembler's order of events; ScopeVerdictSim.v, ScopeVerdictSimRun.v: the model follows the reading
       statement by statement - tables, deferred tasks, bytes of the active segment, no include cycle; ScopeVerdictAcc.v: no listed
       error + documented order => the reading is never stuck and emits the oracle's values; ScopeVerdictAccept.v).
   Both for both build profiles and every include fuel above the number of files.  The hypothesis a + 4n < 2^32 of (a) is part of
   the Accept verdict in (b). ---- *)
From Trion Require Asm.ScopeVerdictFine Asm.ScopeVerdictAbs Asm.ScopeVerdictTop Asm.ScopeVerdictAcc Asm.ScopeVerdictAccept.

(* the root file returned Ok => the oracle lists no error at all *)
Theorem C14_project_no_errors : forall dbg p a t n fuel s1, project_ok p = true -> expand_project p = Some (a, t, n) ->
  (a + 4 * Z.of_N n < 4294967296)%Z ->
  assemble dbg (project_fs p) fuel init_state (project_text p) (project_root p) = Ret None s1 ->
  (ScopeSpec.errors t no_env ++ top_errors t)%list = [].
Proof. exact ScopeVerdictTop.project_no_errors. Qed.

(* any listed error anywhere in the project (not only the first): the run ends with Failure and a diagnostic, whatever the fuel *)
Theorem C14_project_error_fails : forall dbg p a t n fuel s diags regions r, project_ok p = true ->
  expand_project p = Some (a, t, n) -> (a + 4 * Z.of_N n < 4294967296)%Z ->
  In r (ScopeSpec.errors t no_env ++ top_errors t) ->
  pipeline_gen dbg (project_fs p) fuel (project_root p) (project_text p) = Done s diags regions ->
  s = Failure /\ diags <> [].
Proof. exact ScopeVerdictTop.project_error_fails. Qed.

(* (a) for every reason *)
Theorem C14_project_mustdiag : forall dbg p a t n f r, project_ok p = true -> expand_project p = Some (a, t, n) ->
  (a + 4 * Z.of_N n < 4294967296)%Z -> j_verdict (judge_project p) = MustDiag r -> (List.length (p_files p) <= f)%nat ->
  exists diags regions, pipeline_gen dbg (project_fs p) (S f) (project_root p) (project_text p) = Done Failure diags regions /\
    diags <> [].
Proof. exact ScopeVerdictTop.project_mustdiag. Qed.

(* ... one theorem per reason class *)
Theorem C14_project_duplicate_fails : forall dbg p a t n f, project_ok p = true -> expand_project p = Some (a, t, n) ->
  (a + 4 * Z.of_N n < 4294967296)%Z -> j_verdict (judge_project p) = MustDiag RDuplicate -> (List.length (p_files p) <= f)%nat ->
  exists diags regions, pipeline_gen dbg (project_fs p) (S f) (project_root p) (project_text p) = Done Failure diags regions /\
    diags <> [].
Proof. exact ScopeVerdictTop.project_duplicate_fails. Qed.
Theorem C14_project_import_lacks_fails : forall dbg p a t n f, project_ok p = true -> expand_project p = Some (a, t, n) ->
  (a + 4 * Z.of_N n < 4294967296)%Z -> j_verdict (judge_project p) = MustDiag RImportLacks -> (List.length (p_files p) <= f)%nat ->
  exists diags regions, pipeline_gen dbg (project_fs p) (S f) (project_root p) (project_text p) = Done Failure diags regions /\
    diags <> [].
Proof. exact ScopeVerdictTop.project_import_lacks_fails. Qed.
Theorem C14_project_export_unvalued_fails : forall dbg p a t n f, project_ok p = true -> expand_project p = Some (a, t, n) ->
  (a + 4 * Z.of_N n < 4294967296)%Z -> j_verdict (judge_project p) = MustDiag RExportUnvalued -> (List.length (p_files p) <= f)%nat ->
  exists diags regions, pipeline_gen dbg (project_fs p) (S f) (project_root p) (project_text p) = Done Failure diags regions /\
    diags <> [].
Proof. exact ScopeVerdictTop.project_export_unvalued_fails. Qed.
Theorem C14_project_invisible_use_fails : forall dbg p a t n f, project_ok p = true -> expand_project p = Some (a, t, n) ->
  (a + 4 * Z.of_N n < 4294967296)%Z -> j_verdict (judge_project p) = MustDiag RInvisibleUse -> (List.length (p_files p) <= f)%nat ->
  exists diags regions, pipeline_gen dbg (project_fs p) (S f) (project_root p) (project_text p) = Done Failure diags regions /\
    diags <> [].
Proof. exact ScopeVerdictTop.project_invisible_use_fails. Qed.
Theorem C14_project_import_and_export_fails : forall dbg p a t n f, project_ok p = true -> expand_project p = Some (a, t, n) ->
  (a + 4 * Z.of_N n < 4294967296)%Z -> j_verdict (judge_project p) = MustDiag RImportAndExport -> (List.length (p_files p) <= f)%nat ->
  exists diags regions, pipeline_gen dbg (project_fs p) (S f) (project_root p) (project_text p) = Done Failure diags regions /\
    diags <> [].
Proof. exact ScopeVerdictTop.project_import_and_export_fails. Qed.
Theorem C14_project_register_name_fails : forall dbg p a t n f, project_ok p = true -> expand_project p = Some (a, t, n) ->
  (a + 4 * Z.of_N n < 4294967296)%Z -> j_verdict (judge_project p) = MustDiag RRegisterName -> (List.length (p_files p) <= f)%nat ->
  exists diags regions, pipeline_gen dbg (project_fs p) (S f) (project_root p) (project_text p) = Done Failure diags regions /\
    diags <> [].
Proof. exact ScopeVerdictTop.project_register_name_fails. Qed.

(* a successful run is never a MustDiag project; closing the last region never fails *)
Theorem C14_project_success_no_mustdiag : forall dbg p a t n fuel diags regions r, project_ok p = true ->
  expand_project p = Some (a, t, n) -> (a + 4 * Z.of_N n < 4294967296)%Z ->
  pipeline_gen dbg (project_fs p) fuel (project_root p) (project_text p) = Done Success diags regions ->
  j_verdict (judge_project p) <> MustDiag r.
Proof. exact ScopeVerdictTop.project_success_no_mustdiag. Qed.
Theorem C14_project_never_close_error : forall dbg fs fuel path text s diags regions,
  pipeline_gen dbg fs fuel path text = Done s diags regions -> s <> CloseError.
Proof. exact ScopeVerdictTop.pipeline_never_close_error. Qed.

(* the two register tables are the same (the other inclusion is C14_project_register_table) *)
Theorem C14_project_register_table_conv : forall x, CtxModel.is_register x = true -> ScopeSpec.is_register x = true.
Proof. exact ScopeVerdictAcc.is_register_conv. Qed.

(* (b) Accept.  region_of a buf = [] for buf = [], otherwise the one region (a, a + |buf| - 1, buf).  j_uses lists the use sites
   (k, Some v) in assembly order, k = 0, 1, ..: the 4 bytes at offset 4k (address a + 4k) are the little-endian bytes of v *)
Theorem C14_project_accept : forall dbg p a t n f, project_ok p = true -> expand_project p = Some (a, t, n) ->
  j_verdict (judge_project p) = Accept -> (List.length (p_files p) <= f)%nat ->
  exists buf,
    pipeline_gen dbg (project_fs p) (S f) (project_root p) (project_text p) = Done Success [] (ScopeVerdictAccept.region_of a buf) /\
    List.length buf = (4 * N.to_nat n)%nat /\
    forall k v, In (k, Some v) (j_uses (judge_project p)) ->
      firstn 4 (skipn (4 * N.to_nat k) buf) = le_n 4 (Z.to_N v).
Proof. exact ScopeVerdictAccept.project_accept_bytes. Qed.

(* ... in words: the image is exactly the list of the oracle's values (W has one word per use site; WV v = the value v) *)
Theorem C14_project_accept_words : forall dbg p a t n f, project_ok p = true -> expand_project p = Some (a, t, n) ->
  j_verdict (judge_project p) = Accept -> (List.length (p_files p) <= f)%nat ->
  exists W,
    pipeline_gen dbg (project_fs p) (S f) (project_root p) (project_text p)
      = Done Success [] (ScopeVerdictAccept.region_of a (ScopeVerdictAbs.flat W)) /\
    List.length W = N.to_nat n /\
    forall k v, In (k, Some v) (j_uses (judge_project p)) ->
      (N.to_nat k < List.length W)%nat /\ nth (N.to_nat k) W ScopeVerdictAbs.WP = ScopeVerdictAbs.WV v.
Proof. exact ScopeVerdictAccept.project_accept. Qed.

(* the full statement *)
Theorem C14_project_judgement : forall dbg p a t n f, project_ok p = true -> expand_project p = Some (a, t, n) ->
  (a + 4 * Z.of_N n < 4294967296)%Z -> (List.length (p_files p) <= f)%nat ->
  (forall r, j_verdict (judge_project p) = MustDiag r ->
     exists diags regions, pipeline_gen dbg (project_fs p) (S f) (project_root p) (project_text p) = Done Failure diags regions /\
       diags <> []) /\
  (j_verdict (judge_project p) = Accept ->
     exists buf,
       pipeline_gen dbg (project_fs p) (S f) (project_root p) (project_text p) = Done Success [] (ScopeVerdictAccept.region_of a buf) /\
       List.length buf = (4 * N.to_nat n)%nat /\
       forall k v, In (k, Some v) (j_uses (judge_project p)) ->
         firstn 4 (skipn (4 * N.to_nat k) buf) = le_n 4 (Z.to_N v)).
Proof. exact ScopeVerdictAccept.project_judgement. Qed.

(* the reading of Asm/ScopeVerdictAbs.v is what both halves of (b) meet at: a tree without listed error, in documented order, whose
   imports have a value in the includer's table and whose handed-up names are absent from it, is read without getting stuck, and
   the word of every use site is its oracle value (AOK, Asm/ScopeVerdictAcc.v) - for every file instance, not only the root *)
Theorem C14_project_accept_instances : forall d, ScopeVerdictAcc.AOK d.
Proof. exact ScopeVerdictAcc.AOK_all. Qed.

(* non-vacuity, one project per reason (register names: C14_project_judgement_example):
     RDuplicate        r = `.addr 256; .include "c"; .include "c";`       c = `A: .export A;`
     RImportLacks      r = `.addr 256; .include "c";`                     c = `.import A;`
     RExportUnvalued   r = `.addr 256; .include "c";`                     c = `.global A;`
     RInvisibleUse     r = `.addr 256; .include "c"; .du32 A;`            c = `.const A, 7;`
     RImportAndExport  r = `.addr 256; .const A, 1; .include "c";`        c = `.import A; .export A;`
   fails_with p r k: p can be written, the oracle says MustDiag r, the run is Done Failure with a first diagnostic of class k *)
Theorem C14_project_verdict_examples :
  ScopeVerdictTop.fails_with ScopeVerdictTop.ex_dup RDuplicate (KApply AGDuplicate) /\
  ScopeVerdictTop.fails_with ScopeVerdictTop.ex_lacks RImportLacks (KApply AGNotFound) /\
  ScopeVerdictTop.fails_with ScopeVerdictTop.ex_unvalued RExportUnvalued (KApply AGDeferred) /\
  ScopeVerdictTop.fails_with ScopeVerdictTop.ex_invisible RInvisibleUse (KApply AEval) /\
  ScopeVerdictTop.fails_with ScopeVerdictTop.ex_impexp RImportAndExport (KApply AGDuplicate).
Proof. exact ScopeVerdictTop.ex_verdict_facts. Qed.

(* non-vacuity of (b): three files, a forward reference in two files, an import, `.global` before the label (in the root and in an
   included file), an export:
     r = `.addr 256; .global M; .const A, 5; .include "c"; .du32 B; .du32 L; L: M: .du32 M;`
     c = `.import A; .du32 A; .global B; .du32 B; B: .include "g"; .du32 E;`        g = `.const E, 9; .export E;` *)
Theorem C14_project_accept_example :
  project_ok ScopeVerdictAccept.ex_acc = true /\ j_verdict (judge_project ScopeVerdictAccept.ex_acc) = Accept /\
  j_uses (judge_project ScopeVerdictAccept.ex_acc) =
    [(0, Some 5%Z); (1, Some 264%Z); (2, Some 9%Z); (3, Some 264%Z); (4, Some 276%Z); (5, Some 276%Z)] /\
  pipeline_gen false (project_fs ScopeVerdictAccept.ex_acc) 8 (project_root ScopeVerdictAccept.ex_acc) (project_text ScopeVerdictAccept.ex_acc) =
    Done Success [] [(256, 279, [5; 0; 0; 0;  8; 1; 0; 0;  9; 0; 0; 0;  8; 1; 0; 0;  20; 1; 0; 0;  20; 1; 0; 0])].
Proof. exact ScopeVerdictAccept.ex_acc_facts. Qed.
