(* C14 — constant visibility follows file scope.
   Theorems about the Context model (Asm/CtxModel.v); the visibility relation itself (which name with which value is
   visible at which use site) is the executable oracle Asm/ScopeSpec.v, checked on the implementation's output for
   generated multi-file projects by the correspondence stream of ./check C14.

   NOT proved (kept as comments):
     C14_use_sites : pipeline = Success -> every `.du32 x` of occurrence o emits v with ScopeSpec-visible p o x v
                     (model |= ScopeSpec; decided by the stream on the implementation, not by proof);
     C14_isolation (full) : after `.include g` the includer's table differs ONLY on names g exported or declared global
                     (needs a ghost set of exported names; proved below: the table only grows, the table above it is
                     untouched, the included file starts from the empty table);
     "never Panic" for arbitrary states (needs the invariant that tables hold no register names); the diagnostics below
     are equations `... = Ret _ (push_error ...)`, so in the stated situations the model does not panic. *)
From Coq Require Import ZArith NArith List Bool String.
From Trion Require Import Text.Types Asm.ScopeSpec Asm.CtxModel Asm.ScopeProofs Asm.Ctx06Proofs.
Import ListNotations.
Open Scope N_scope.

(* a constant's value never changes once defined: through a whole file including everything it includes, the tables
   `globals` (the includer's, while a file is open) and `locals` keep every entry that has a value *)
Theorem C14_monotone : forall dbg fs fuel st data path r st',
  assemble dbg fs fuel st data path = Ret r st' ->
  (forall n v, tbl_get (globals st) n = Some (Some v) -> tbl_get (globals st') n = Some (Some v)) /\
  match locals st, locals st' with
  | Some t, Some t' => forall n v, tbl_get t n = Some (Some v) -> tbl_get t' n = Some (Some v)
  | None, None => True
  | _, _ => False
  end.
Proof. exact assemble_tm. Qed.

(* the same for one statement, one deferred task, and the two writers themselves *)
Theorem C14_monotone_step : forall dbg fs fuel st e r st',
  step dbg fs (assemble dbg fs fuel) st e = Ret r st' -> tmono st st'.
Proof. exact step_mono. Qed.
Theorem C14_monotone_task : forall dbg st t r st', run_task dbg st t = Ret r st' -> tmono st st'.
Proof. exact run_task_tm. Qed.
Theorem C14_monotone_insert : forall st n v r x st', insert_constant st n v r = Ret x st' -> tmono st st'.
Proof. exact insert_constant_tm. Qed.
Theorem C14_monotone_defer : forall st n r x st', defer_constant st n r = Ret x st' -> tmono st st'.
Proof. exact defer_constant_tm. Qed.

(* isolation (partial): an included file cannot touch the table above its includer, and it starts from the empty table
   with its includer's table as the only other one it can reach *)
Theorem C14_isolation_partial_above : forall dbg fs fuel st data path r st',
  assemble dbg fs fuel st data path = Ret r st' -> locals st <> None -> globals st' = globals st.
Proof. exact assemble_above_untouched. Qed.
Theorem C14_isolation_partial_fresh : forall st path,
  locals (fst (enter_file st path)) = Some [] /\ (forall t, locals st = Some t -> globals (fst (enter_file st path)) = t).
Proof. exact enter_file_scope. Qed.

(* ---- C14_diagnostics: each listed scope error yields its diagnostic (an equation, hence no panic) ---- *)
Theorem C14_diag_duplicate_label : forall dbg fs inc st s l c n w t, is_register n = false -> active st = Active s ->
  locals st = Some t -> tbl_get t n = Some (Some w) ->
  step dbg fs inc st (mkElement l c (ELabel n)) = Ret (Some Fatal) (push_error st l c KConstDuplicate).
Proof. exact label_duplicate. Qed.
Theorem C14_diag_duplicate_const : forall st l c n v w t, is_register n = false -> locals st = Some t -> tbl_get t n = Some (Some w) ->
  dir_const st l c [AIdent n; AConst v] = Ret (Some Fatal) (push_error st l c (KApply AConstDup)).
Proof. exact const_duplicate. Qed.
Theorem C14_diag_duplicate_import : forall st l c x t v w, is_register x = false -> locals st = Some t -> tbl_get t x = Some (Some w) ->
  tbl_get (globals st) x = Some (Some v) ->
  dir_global st l c DImport [AIdent x] = Ret (Some Fatal) (push_error st l c (KApply AGDuplicate)).
Proof. exact import_duplicate. Qed.
Theorem C14_diag_export_includer_has : forall st l c x t v w, is_register x = false -> locals st = Some t -> tbl_get t x = Some (Some v) ->
  tbl_get (globals st) x = Some (Some w) ->
  dir_global st l c DExport [AIdent x] = Ret (Some Fatal) (push_error st l c (KApply AGDuplicate)).
Proof. exact export_includer_has. Qed.
Theorem C14_diag_global_includer_has : forall st l c x e, is_register x = false -> tbl_get (globals st) x = Some e ->
  dir_global st l c DGlobal [AIdent x] = Ret (Some Fatal) (push_error st l c (KApply AGDuplicate)).
Proof. exact global_includer_has. Qed.
Theorem C14_diag_import_includer_lacks : forall st l c x, tbl_get (globals st) x = None ->
  dir_global st l c DImport [AIdent x] = Ret (Some Fatal) (push_error st l c (KApply AGNotFound)).
Proof. exact import_includer_lacks. Qed.
Theorem C14_diag_export_unknown : forall st l c x t, locals st = Some t -> tbl_get t x = None ->
  dir_global st l c DExport [AIdent x] = Ret (Some Fatal) (push_error st l c (KApply AGNotFound)).
Proof. exact export_unknown. Qed.
Theorem C14_diag_export_unvalued : forall st l c x t, locals st = Some t -> tbl_get t x = Some None ->
  dir_global st l c DExport [AIdent x] = Ret (Some Fatal) (push_error st l c (KApply AGDeferred)).
Proof. exact export_unvalued. Qed.
Theorem C14_diag_global_unvalued : forall dbg st l c x t, locals st = Some t -> tbl_get t x = Some None ->
  run_task dbg st (GlobalTask x l c) = Ret (Some Trivial) (push_error st l c (KApply AGDeferred)).
Proof. exact global_unvalued. Qed.
Theorem C14_diag_import_redefined : forall dbg st l c x t v, locals st = Some t -> tbl_get t x = Some (Some v) ->
  run_task dbg st (ImportCheckTask x l c) = Ret (Some Trivial) (push_error st l c (KApply AGDuplicate)).
Proof. exact import_redefined. Qed.
Theorem C14_diag_register_label : forall dbg fs inc st s l c n, is_register n = true -> active st = Active s ->
  step dbg fs inc st (mkElement l c (ELabel n)) = Ret (Some Fatal) (push_error st l c KConstReserved).
Proof. exact label_register. Qed.
Theorem C14_diag_register_const : forall st l c n v, is_register n = true ->
  dir_const st l c [AIdent n; AConst v] = Ret (Some Fatal) (push_error st l c (KApply AConstReserved)).
Proof. exact const_register. Qed.
Theorem C14_diag_register_global : forall st l c n, is_register n = true ->
  dir_global st l c DGlobal [AIdent n] = Ret (Some Fatal) (push_error st l c (KApply AConstReserved)).
Proof. exact global_register. Qed.

(* ---- the oracle itself: examples (non-vacuity of ScopeSpec) ---- *)
Definition nA : name := [65].
Definition fR : str := [114].
Definition fC : str := [99].

Theorem C14_examples :
  j_verdict (judge_project (mkProject [(fR, [SAddr 256; SInclude fC; SUse nA]); (fC, [SConst nA 7; SExport nA])] fR)) = Accept /\
  j_uses (judge_project (mkProject [(fR, [SAddr 256; SInclude fC; SUse nA]); (fC, [SConst nA 7; SExport nA])] fR)) = [(0, Some 7%Z)] /\
  j_verdict (judge_project (mkProject [(fR, [SAddr 256; SInclude fC; SUse nA]); (fC, [SConst nA 7])] fR)) = MustDiag RInvisibleUse /\
  j_verdict (judge_project (mkProject [(fR, [SAddr 256; SInclude fC; SInclude fC]); (fC, [SLabel nA; SUse nA])] fR)) = Accept /\
  j_uses (judge_project (mkProject [(fR, [SAddr 256; SInclude fC; SInclude fC]); (fC, [SLabel nA; SUse nA])] fR)) = [(0, Some 256%Z); (1, Some 260%Z)] /\
  j_verdict (judge_project (mkProject [(fR, [SAddr 256; SInclude fC; SInclude fC]); (fC, [SLabel nA; SExport nA])] fR)) = MustDiag RDuplicate /\
  j_verdict (judge_project (mkProject [(fR, [SAddr 256; SInclude fC; SConst nA 1]); (fC, [SImport nA; SUse nA])] fR)) = Unspecified /\
  j_verdict (judge_project (mkProject [(fR, [SAddr 256; SInclude fC]); (fC, [SImport nA])] fR)) = MustDiag RImportLacks /\
  j_verdict (judge_project (mkProject [(fR, [SAddr 256; SGlobal nA; SInclude fC; SConst nA 7]); (fC, [SImport nA; SConst nA 77; SUse nA])] fR)) = MustDiag RDuplicate /\
  j_verdict (judge_project (mkProject [(fR, [SAddr 256; SConst [82;48] 1])] fR)) = MustDiag RRegisterName.
Proof. vm_compute. repeat split. Qed.
