(* C10 — Tokenizer and parser are total on arbitrary bytes.
   Statements only.  Tokenizer half: Text/TokenProofs.v (model of token/mod.rs on byte lists).  Parser half:
   Text/ParseProofs.v (model of parse/mod.rs over an abstract token source `src`: any finite list of pending
   tokens / token errors, any queue state).  C10_pipeline composes them: the parser run on the tokenizer's output
   of EVERY byte list.  Stack depth of the real recursive-descent parser is runtime residue (DESIGN.md section 5). *)
From Coq Require Import ZArith NArith List.
From Trion Require Import Base.Utf8 Text.Types Text.ParseModel Text.ParseProofs Text.TokenModel Text.TokenProofs.
Import ListNotations.
Open Scope N_scope.

(* ---------------- tokenizer ---------------- *)
(* every byte list (no bound, no UTF-8 assumption): the run is a finite item list, then None at each of the three extra polls;
   in particular it is neither a panic (failed slice / index / unwrap / assert_eq!) nor out of fuel *)
Theorem C10_tok_total : forall bs, exists items, tokens_all bs = Ok (items, [None; None; None]).
Proof. exact tok_total. Qed.

Theorem C10_tok_no_panic : forall bs, (forall s, tokens_all bs <> Panic s) /\ tokens_all bs <> OutOfFuel.
Proof. exact tok_no_panic. Qed.

(* tokens followed by at most one error; after the end the iterator stays at None *)
Theorem C10_tok_shape : forall bs items ps, tokens_all bs = Ok (items, ps) ->
  (exists ts tail, items = map inl ts ++ tail /\ (tail = [] \/ exists e, tail = [inr e])) /\ ps = [None; None; None].
Proof. exact tok_shape. Qed.

(* an input that is not UTF-8 ends with exactly one error item *)
Theorem C10_tok_invalid_utf8_once : forall bs items ps, (valid_up_to bs < length bs)%nat -> tokens_all bs = Ok (items, ps) ->
  exists ts e, items = map inl ts ++ [inr e].
Proof. exact tok_invalid_utf8_once. Qed.

(* ... and BadUnicode is reported only for such inputs: a UTF-8 text never yields it *)
Theorem C10_tok_bad_unicode_only_invalid : forall bs items ps, valid_up_to bs = length bs -> tokens_all bs = Ok (items, ps) ->
  Forall not_bad_unicode items.
Proof. exact tok_bad_unicode_only_invalid. Qed.

(* one step on a reachable state: never a panic, the state stays reachable, a token consumes at least one byte,
   an error or the end leaves the tokenizer finished (the interface the parser model is proved against) *)
Theorem C10_tok_step : forall st, tok_reach st ->
  exists r st', next_token st = Ok (r, st') /\ tok_reach st' /\
    match r with
    | Some (inl _) => (length (ts_data st') < length (ts_data st))%nat /\ ts_utf_err st' = ts_utf_err st
    | Some (inr _) => tok_done st'
    | None => tok_done st' /\ ts_utf_err st = false
    end.
Proof. exact next_token_total. Qed.

(* non-vacuity: the two repaired defects (block comment before a multi-byte last character; DEL inside a string), an invalid tail *)
Theorem C10_tok_examples :
  tokens_all [47; 42; 32; 42; 47; 195; 169] = Ok ([inr (mkTokErr 1 6 (Unexpected 233))], [None; None; None]) /\
  tokens_all [34; 97; 127; 34] = Ok ([inr (mkTokErr 1 1 BadString)], [None; None; None]) /\
  tokens_all [97; 58; 32; 131] = Ok ([inl (mkToken 1 1 (TIdentifier [97])); inl (mkToken 1 2 TLabelMark); inr (mkTokErr 1 4 BadUnicode)], [None; None; None]).
Proof. vm_compute. repeat split; reflexivity. Qed.

(* ---------------- parser ---------------- *)
(* the run never exhausts the model's fuel and never reaches the operator-group panic! or an unwrap() of None/Ok *)
Theorem C10_parse_total : forall s, parse_all s <> ROutOfFuel /\ (forall items, parse_all s <> RPanic items).
Proof. exact parse_total. Qed.

(* Ok* followed by at most one Err; the three further polls after the end all return None *)
Theorem C10_parse_shape : forall s, exists es tail,
  parse_all s = Done (map IOk es ++ tail) [PollNone; PollNone; PollNone] /\ (tail = [] \/ exists e, tail = [IErr e]).
Proof. exact parse_shape. Qed.

(* if the source delivers a token error anywhere (the real tokenizer: as its last item), the last parser item is an error *)
Theorem C10_parser_respects_tokenizer : forall s items after, parse_all s = Done items after ->
  (exists e, In (inr e) (stream s)) -> exists its e', items = its ++ [IErr e'].
Proof. exact parse_respects_tokenizer. Qed.

(* non-vacuity and the repaired defect F17: `a b c;` is one error, `a: .d 1+2*3, x;` two statements *)
Theorem C10_parse_examples :
  let tk l c v := inl (mkToken l c v) : tok_item in
  parse_all (src_of [tk 1 1 (TIdentifier [97]); tk 1 3 (TIdentifier [98]); tk 1 5 (TIdentifier [99]); tk 1 6 TTerminator] 1 7)
    = Done [IErr (mkPerr 1 5 PKExpected)] [PollNone; PollNone; PollNone]
  /\ parse_all (src_of [tk 1 1 (TIdentifier [97]); tk 1 2 TLabelMark; tk 1 4 TDirectiveMark; tk 1 5 (TIdentifier [100]);
                        tk 1 7 (TNumber 1%Z); tk 1 8 TPlus; tk 1 9 (TNumber 2%Z); tk 1 10 TMultiply; tk 1 11 (TNumber 3%Z); tk 1 12 TSeparator;
                        tk 1 14 (TIdentifier [120]); tk 1 15 TTerminator] 1 16)
    = Done [IOk (mkElement 1 1 (ELabel [97]));
            IOk (mkElement 1 4 (EDirective [100] [AAdd (AConst 1%Z) (AMul (AConst 2%Z) (AConst 3%Z)); AIdent [120]]))] [PollNone; PollNone; PollNone]
  /\ parse_all (src_of [tk 1 1 (TIdentifier [97]); inr (mkTokErr 1 3 BadString)] 1 3)
    = Done [IErr (mkPerr 1 1 (PKToken (mkTokErr 1 3 BadString)))] [PollNone; PollNone; PollNone].
Proof. vm_compute. repeat split. Qed.

(* ---------------- composition: bytes -> tokens -> statements ---------------- *)
(* for every byte list: the tokenizer yields a finite item list; the parser run on exactly that list (whatever the
   final position) yields Ok* followed by at most one Err and then None forever; and when the tokenizer's list
   contains an error the parser's last item is an error (no success for a text the tokenizer rejects) *)
Theorem C10_pipeline : forall bs, exists items,
  tokens_all bs = Ok (items, [None; None; None]) /\
  forall l c, exists es tail,
    parse_all (src_of items l c) = Done (map IOk es ++ tail) [PollNone; PollNone; PollNone] /\
    (tail = [] \/ exists e, tail = [IErr e]) /\
    ((exists e, In (inr e) items) -> exists e', tail = [IErr e']).
Proof.
  intros bs. destruct (tok_total bs) as [items Ht]. exists items. split; [exact Ht|].
  intros l c. destruct (parse_shape (src_of items l c)) as [es [tail [Hp Htail]]].
  exists es, tail. split; [exact Hp|]. split; [exact Htail|].
  intros He. destruct (parse_respects_tokenizer (src_of items l c) _ _ Hp) as [its [e' Hl]]; [exact He|].
  destruct Htail as [->|[e ->]].
  - rewrite app_nil_r in Hl. exfalso.
    assert (A : In (IErr e') (map IOk es)) by (rewrite Hl; apply in_or_app; right; left; reflexivity).
    apply in_map_iff in A. destruct A as [x [Hx _]]. discriminate.
  - exists e. reflexivity.
Qed.
