(* C20 — tridas listing re-assembles to the code it was produced from.
   Model: Bin/TridasModel.v (main of src/bin/disassembler.rs after reading the file; get_branch, get_returns; the
   listing printer, exact stdout bytes = render of a list of lines).  Oracle: Bin/ListingSpec.v (wf_binary, spec_lines,
   labels_spec).  `fits b`: the file is shorter than 0xE0000000 bytes (it ends below 2^32 when loaded at 0x20000000).

   What is proved here: for every well-formed binary the traversal neither panics nor runs out of the driver's fuel
   (C20_total); its non-blank lines are exactly header, then for each instruction of the file in address order its label
   definition (iff it is an in-file branch target) immediately followed by its text line (C20_labels, C20_label_set,
   C20_lines: every instruction is visited exactly once).  The re-assembly clause is carried in two parts:
   C20_roundtrip_stmt (each line's statement is converted by the assembler's operand converters to the decoded
   instruction, whose canonical encoding is the original bytes unless the original halfword is the T1 ADDS/SUBS
   Rd,Rd,#imm3 alias), and — not a theorem — the steps text -> tokens -> argument trees, label binding and the
   sequential layout by Context, which are exercised on the real tridas and trias executables by the correspondence
   stream (every generated binary is disassembled, re-assembled and compared byte for byte).
   Known finding F24: C20_alias_refuted. *)
From Coq Require Import ZArith NArith List.
From Trion Require Import Arm.Instr Arm.DecodeModel Arm.EncodeModel Arm.CodecCheck Arm.DecProofs
  Arm.DisplayArgs Arm.AsmStmtModel Arm.AsmStmtProofs Bin.ListingTypes Bin.TridasModel Bin.ListingSpec Bin.TridasProofs.
Import ListNotations.
Open Scope N_scope.

(* decode never fails on an instruction boundary of a well-formed binary, and fuel 2*len+2 suffices *)
Theorem C20_total : forall b, bytes_ok b -> fits b -> wf_binary b = true ->
  exists text, tridas b = Listing text.
Proof. exact tridas_total. Qed.

(* the printed bytes are the rendering of lines whose non-blank part is exactly the oracle's: each in-file branch
   target gets one label definition, immediately before the instruction at that address, and nothing else is printed *)
Theorem C20_labels : forall b, bytes_ok b -> fits b -> wf_binary b = true ->
  exists ls, tridas_lines b = Some ls /\ tridas b = Listing (render ls) /\ nonblank ls = spec_lines b.
Proof. exact tridas_shape. Qed.

Theorem C20_label_set : forall b, bytes_ok b -> fits b -> wf_binary b = true ->
  exists ls, tridas_lines b = Some ls /\ only_label ls = map LLabel (labels_spec b).
Proof. exact tridas_labels. Qed.

(* the instruction lines are, in ascending address order, every instruction of b: each visited exactly once *)
Theorem C20_lines : forall b l, bytes_ok b -> fits b -> instructions b = Some l -> wf_items l = true ->
  exists ls, tridas_lines b = Some ls /\ only_instr ls = instr_lines_of_items l.
Proof. exact tridas_instr_lines. Qed.

(* Re-assembly, statement level: for every instruction line of the listing of a well-formed binary (by C20_lines these are
   the items of `instructions b`), printed at address 0x20000000+o: the instruction is encodable, its printed mnemonic and
   operands (DisplayArgs: the parsed form of the exact text DisplayModel.display) are converted by the assembler's operand
   converters back to the same instruction — labels bound to the addresses they name (ev_display) — and the canonical
   encoding of that instruction is the n original bytes at offset o, unless the original halfword is the T1 ADDS/SUBS
   Rd,Rd,#imm3 pattern (known finding F24).
   NOT proved, carried by the correspondence on the real executables (every generated binary is disassembled by tridas,
   assembled by trias and the UF2 image compared byte for byte):
     C20_roundtrip : wf_binary b -> (no instruction of b starts with an alias halfword) ->
                     trias_pipeline (stdout of tridas b) = Success im /\ forall k < |b|, im (0x20000000 + k) = b[k]
   i.e. the steps text -> tokens -> argument trees (tokenizer/parser, C09-C11), the binding of the `l_XXXXXXXX:` label lines
   by Context, and the sequential layout of the statements from `.addr 0x20000000;` (C05). *)
Theorem C20_roundtrip_stmt : forall b l, bytes_ok b -> fits b -> instructions b = Some l -> wf_items l = true ->
  forall o i n, In (o, i, n) l ->
  exists hws, enc i = EncOk hws /\ 2 * N.of_nat (length hws) = n /\
    (forall ev local, ev_display ev ->
       conv_val (assemble_stmt ev local (base + o) (mnemonic i) (display_args i (base + o))) = Some i) /\
    (le_bytes hws = firstn_N n (skipn (N.to_nat o) b) \/
     alias_addsub_imm3 (first_halfword (skipn (N.to_nat o) b)) = true).
Proof. exact tridas_stmt_roundtrip. Qed.

(* known finding F24: a well-formed binary whose canonical re-assembly differs from it *)
Theorem C20_alias_refuted : exists b l, wf_binary b = true /\ instructions b = Some l /\
  canonical_image l <> b /\ alias_addsub_imm3 (first_halfword b) = true.
Proof.
  exists [0x24; 0x1C; 0x70; 0x47], [(0, Add true R4 R4 (Imm 0), 2); (2, Bx LR, 2)].
  split; [vm_compute; reflexivity|]. split; [vm_compute; reflexivity|]. split; [vm_compute; discriminate | vm_compute; reflexivity].
Qed.

Theorem C20_examples :
  wf_binary [0x24; 0x1C; 0x70; 0x47] = true /\
  tridas_lines [0x24; 0x1C; 0x70; 0x47] = Some [LHeader; LInstr (Add true R4 R4 (Imm 0)) 0x20000000; LInstr (Bx LR) 0x20000002] /\
  (* BEQ +0 ; NOP ; BX LR : one label, before the BX *)
  wf_binary [0x00; 0xD0; 0x00; 0xBF; 0x70; 0x47] = true /\
  tridas_lines [0x00; 0xD0; 0x00; 0xBF; 0x70; 0x47] =
    Some [LHeader; LInstr (B Equal 0) 0x20000000; LInstr Nop 0x20000002; LLabel 0x20000004; LInstr (Bx LR) 0x20000004] /\
  (* BEQ +0 ; BX LR ; BX LR : a blank line separates the terminal from the label; B +0 ; NOP ; BX LR skips the NOP *)
  wf_binary [0x00; 0xD0; 0x70; 0x47; 0x70; 0x47] = true /\
  tridas_lines [0x00; 0xD0; 0x70; 0x47; 0x70; 0x47] =
    Some [LHeader; LInstr (B Equal 0) 0x20000000; LInstr (Bx LR) 0x20000002; LBlank; LLabel 0x20000004; LInstr (Bx LR) 0x20000004] /\
  tridas_lines [0x00; 0xE0; 0x00; 0xBF; 0x70; 0x47] =
    Some [LHeader; LInstr (B Always 0) 0x20000000; LBlank; LLabel 0x20000004; LInstr (Bx LR) 0x20000004] /\
  (* an unreachable tail is outside the property; an undecodable reachable halfword is a panic *)
  wf_binary [0x70; 0x47; 0x00; 0xBF] = false /\ tridas [0x00; 0xE8; 0x00; 0x00] = Panic.
Proof. vm_compute. repeat split. Qed.
