(* C20 — tridas listing re-assembles to the code it was produced from.
   Model: Bin/TridasModel.v (main of src/bin/disassembler.rs after reading the file; get_branch, get_returns; the
   listing printer, exact stdout bytes = render of a list of lines).  Oracle: Bin/ListingSpec.v (wf_binary, spec_lines,
   labels_spec).  `fits b`: the file is shorter than 0xE0000000 bytes (it ends below 2^32 when loaded at 0x20000000).

   What is proved here: for every well-formed binary the traversal neither panics nor runs out of the driver's fuel
   (C20_total); its non-blank lines are exactly header, then for each instruction of the file in address order its label
   definition (iff it is an in-file branch target) immediately followed by its text line (C20_labels, C20_label_set,
   C20_lines: every instruction is visited exactly once).
   The re-assembly clause is proved END TO END on the models (C20_roundtrip): the exact bytes the tridas model prints, given
   to the assembler pipeline model (Asm/CtxModel.pipeline = tokenizer, parser, Context with its deferred-statement tasks,
   close, finalize; any file system, any path), are assembled without any diagnostic (`Done Success []`) to exactly ONE
   region at 0x20000000 whose bytes are the canonical encoding of every instruction of the binary (canonical_image, same
   length as the binary) - the binary itself when no instruction starts with the T1 ADDS/SUBS Rd,Rd,#imm3 alias halfword
   (C20_roundtrip_identity; the alias is the known finding F24: C20_alias_refuted).  No success hypothesis is left.
   Its parts, each a theorem of its own:
     C20_listing_parses  characters -> statements: the listing text (header `.addr 0x20000000;` in hexadecimal, line feeds,
                         tabs, blank lines as separators) is tokenized and parsed to exactly the statement list spec_stmts:
                         the .addr directive, then per instruction `l_T:` iff it is a branch target and the instruction statement
                         (Bin/TridasAtoms.v, TridasText.v: every decodable instruction kind except ADR / literal LDR is printed
                         with single spaces after the mnemonic, after commas and around `+`, by kernel sweeps; C09 text level);
     C20_listing_layout  statements -> reference image: the C05 oracle (Asm/LayoutSpec.layout_spec) is defined on spec_stmts,
                         places instruction k at the address it came from with its canonical bytes, binds every label `l_T` to T,
                         yields one region; the program is in C05's class and collision free (Bin/TridasLayout.v);
     C20_roundtrip_stmt  each statement is converted by the assembler's operand converters to the decoded instruction (C19, C03);
   composed with C05_layout_wf_partial (a well-formed program of the class is assembled without diagnostics to the reference
   image).  The real tridas and trias executables are tied to the models by the correspondence stream (every generated binary
   is disassembled, re-assembled and compared byte for byte).
   Known finding F24: C20_alias_refuted. *)
From Coq Require Import ZArith NArith List.
From Trion Require Import Text.Types Arm.Instr Arm.DecodeModel Arm.EncodeModel Arm.CodecCheck Arm.DecProofs
  Arm.DisplayArgs Arm.AsmStmtModel Arm.AsmStmtProofs Bin.ListingTypes Bin.TridasModel Bin.ListingSpec Bin.TridasProofs
  Asm.LayoutSpec Asm.LayoutFinal Bin.TridasText Bin.TridasLayout Bin.TridasRoundtrip.
From Trion Require Text.ParseModel Asm.CtxModel Asm.LayoutWf Arm.DisplayModel.
Import ListNotations.
Open Scope N_scope.

(* decode never fails on an instruction boundary of a well-formed binary, and fuel 2*len+2 suffices *)
Theorem C20_total : forall b, bytes_ok b -> fits b -> wf_binary b = true ->
  exists text, tridas b = Listing text.
Proof. exact tridas_total. Qed.

(* the printed bytes are the rendering of lines whose non-blank part is exactly the oracle's: each in-file branch
   target gets one label definition, immediately before the instruction at that address, and nothing else is printed *)
Theorem C20_labels : forall b, bytes_ok b -> fits b -> wf_binary b = true ->
  exists ls, tridas_lines b = Some ls /\ tridas b = Listing (render ls) /\ nonblank ls = spec_lines b.
Proof. exact tridas_shape. Qed.

Theorem C20_label_set : forall b, bytes_ok b -> fits b -> wf_binary b = true ->
  exists ls, tridas_lines b = Some ls /\ only_label ls = map LLabel (labels_spec b).
Proof. exact tridas_labels. Qed.

(* the instruction lines are, in ascending address order, every instruction of b: each visited exactly once *)
Theorem C20_lines : forall b l, bytes_ok b -> fits b -> instructions b = Some l -> wf_items l = true ->
  exists ls, tridas_lines b = Some ls /\ only_instr ls = instr_lines_of_items l.
Proof. exact tridas_instr_lines. Qed.

(* Re-assembly, statement level: for every instruction line of the listing of a well-formed binary (by C20_lines these are
   the items of `instructions b`), printed at address 0x20000000+o: the instruction is encodable, its printed mnemonic and
   operands (DisplayArgs: the parsed form of the exact text DisplayModel.display) are converted by the assembler's operand
   converters back to the same instruction — labels bound to the addresses they name (ev_display) — and the canonical
   encoding of that instruction is the n original bytes at offset o, unless the original halfword is the T1 ADDS/SUBS
   Rd,Rd,#imm3 pattern (known finding F24).
   The composition with the text level, label binding and layout is C20_roundtrip below. *)
Theorem C20_roundtrip_stmt : forall b l, bytes_ok b -> fits b -> instructions b = Some l -> wf_items l = true ->
  forall o i n, In (o, i, n) l ->
  exists hws, enc i = EncOk hws /\ 2 * N.of_nat (length hws) = n /\
    (forall ev local, ev_display ev ->
       conv_val (assemble_stmt ev local (base + o) (mnemonic i) (display_args i (base + o))) = Some i) /\
    (le_bytes hws = firstn_N n (skipn (N.to_nat o) b) \/
     alias_addsub_imm3 (first_halfword (skipn (N.to_nat o) b)) = true).
Proof. exact tridas_stmt_roundtrip. Qed.

(* known finding F24: a well-formed binary whose canonical re-assembly differs from it *)
Theorem C20_alias_refuted : exists b l, wf_binary b = true /\ instructions b = Some l /\
  canonical_image l <> b /\ alias_addsub_imm3 (first_halfword b) = true.
Proof.
  exists [0x24; 0x1C; 0x70; 0x47], [(0, Add true R4 R4 (Imm 0), 2); (2, Bx LR, 2)].
  split; [vm_compute; reflexivity|]. split; [vm_compute; reflexivity|]. split; [vm_compute; discriminate | vm_compute; reflexivity].
Qed.

Theorem C20_examples :
  wf_binary [0x24; 0x1C; 0x70; 0x47] = true /\
  tridas_lines [0x24; 0x1C; 0x70; 0x47] = Some [LHeader; LInstr (Add true R4 R4 (Imm 0)) 0x20000000; LInstr (Bx LR) 0x20000002] /\
  (* BEQ +0 ; NOP ; BX LR : one label, before the BX *)
  wf_binary [0x00; 0xD0; 0x00; 0xBF; 0x70; 0x47] = true /\
  tridas_lines [0x00; 0xD0; 0x00; 0xBF; 0x70; 0x47] =
    Some [LHeader; LInstr (B Equal 0) 0x20000000; LInstr Nop 0x20000002; LLabel 0x20000004; LInstr (Bx LR) 0x20000004] /\
  (* BEQ +0 ; BX LR ; BX LR : a blank line separates the terminal from the label; B +0 ; NOP ; BX LR skips the NOP *)
  wf_binary [0x00; 0xD0; 0x70; 0x47; 0x70; 0x47] = true /\
  tridas_lines [0x00; 0xD0; 0x70; 0x47; 0x70; 0x47] =
    Some [LHeader; LInstr (B Equal 0) 0x20000000; LInstr (Bx LR) 0x20000002; LBlank; LLabel 0x20000004; LInstr (Bx LR) 0x20000004] /\
  tridas_lines [0x00; 0xE0; 0x00; 0xBF; 0x70; 0x47] =
    Some [LHeader; LInstr (B Always 0) 0x20000000; LBlank; LLabel 0x20000004; LInstr (Bx LR) 0x20000004] /\
  (* an unreachable tail is outside the property; an undecodable reachable halfword is a panic *)
  wf_binary [0x70; 0x47; 0x00; 0xBF] = false /\ tridas [0x00; 0xE8; 0x00; 0x00] = Panic.
Proof. vm_compute. repeat split. Qed.

(* ---------------------------------------------------------------------------------------------- *)
(* END TO END.  Characters -> statements: the bytes the tridas model prints for a well-formed binary are read by the
   tokenizer and parser models (CtxModel.parse_source) as exactly the statements spec_stmts l:
     .addr 0x20000000;   then for each instruction (o, i, _) of the binary in address order
     l_<0x20000000+o>:   iff o is the target of a direct branch of the file
     <mnemonic i> <display_args i (0x20000000+o)>;                                                   *)
Theorem C20_listing_parses : forall b, bytes_ok b -> fits b -> wf_binary b = true ->
  exists text l els, tridas b = Listing text /\ instructions b = Some l /\
    CtxModel.parse_source text = CtxModel.Parsed (map Text.ParseModel.IOk els) None /\ map e_val els = spec_stmts l.
Proof. exact tridas_listing_parses. Qed.

(* Statements -> reference image (the C05 oracle): layout_spec is defined on the listing's statements; statement k is placed
   at 0x20000000 + (offset of instruction k) with the canonical encoding of that instruction; every label a branch mentions is
   bound to the address it names; the image is one region; and the program satisfies the hypotheses of C05_layout_wf_partial *)
Theorem C20_listing_layout : forall b l fs, bytes_ok b -> fits b -> instructions b = Some l -> wf_items l = true ->
  layout_spec fs (spec_stmts l) = Some (placed_of l, final_env l) /\
  map (fun p => (fst (fst p), snd (fst p))) (placed_of l) = map (fun e => (base + item_off e, item_bytes e)) l /\
  image_of (placed_of l) = [(base, base + N.of_nat (length b) - 1, canonical_image l)] /\
  (forall o i n t, In (o, i, n) l -> direct_target o i = Some t ->
     env_get (final_env l) (DisplayModel.label (base + Z.to_N t)) = Some (Z.of_N (base + Z.to_N t))) /\
  (forall els, map e_val els = spec_stmts l -> C05_class fs (final_env l) els) /\
  LayoutWf.no_collision fs (spec_stmts l).
Proof. exact tridas_listing_layout. Qed.

(* The property's clause: the listing is a complete source text that the assembler accepts (no diagnostic at all), and
   assembling it yields exactly one region at 0x20000000 holding the canonical encoding of every instruction - as many bytes
   as the binary has, and the binary itself unless an instruction starts with a T1 ADDS/SUBS Rd,Rd,#imm3 alias halfword.
   `fs` (no file is opened) and `path` are arbitrary. *)
Theorem C20_roundtrip : forall b fs path, bytes_ok b -> fits b -> wf_binary b = true ->
  exists text l, tridas b = Listing text /\ instructions b = Some l /\
    CtxModel.pipeline fs path text = CtxModel.Done CtxModel.Success [] [(base, base + N.of_nat (length b) - 1, canonical_image l)] /\
    N.of_nat (length (canonical_image l)) = N.of_nat (length b) /\
    ((forall o i n, In (o, i, n) l -> alias_addsub_imm3 (first_halfword (skipn (N.to_nat o) b)) = false) -> canonical_image l = b).
Proof. exact tridas_roundtrip. Qed.

(* ... every input byte reproduced at base address 0x20000000, for binaries outside the known finding's class *)
Theorem C20_roundtrip_identity : forall b fs path l, bytes_ok b -> fits b -> wf_binary b = true -> instructions b = Some l ->
  (forall o i n, In (o, i, n) l -> alias_addsub_imm3 (first_halfword (skipn (N.to_nat o) b)) = false) ->
  exists text, tridas b = Listing text /\
    CtxModel.pipeline fs path text = CtxModel.Done CtxModel.Success [] [(0x20000000, 0x20000000 + N.of_nat (length b) - 1, b)].
Proof. exact tridas_roundtrip_identity. Qed.

(* non-vacuity: BEQ +0 ; NOP ; BX LR (forward label, deferred branch) and BL -4 ; BX LR (32-bit instruction whose target is
   its own address) run through both models by computation *)
Theorem C20_roundtrip_examples :
  (match tridas [0x00; 0xD0; 0x00; 0xBF; 0x70; 0x47] with
   | Listing text => CtxModel.pipeline (fun _ => None) [] text
   | _ => CtxModel.POutOfFuel end)
  = CtxModel.Done CtxModel.Success [] [(0x20000000, 0x20000005, [0x00; 0xD0; 0x00; 0xBF; 0x70; 0x47])] /\
  (match tridas [0xFF; 0xF7; 0xFE; 0xFF; 0x70; 0x47] with
   | Listing text => CtxModel.pipeline (fun _ => None) [] text
   | _ => CtxModel.POutOfFuel end)
  = CtxModel.Done CtxModel.Success [] [(0x20000000, 0x20000005, [0xFF; 0xF7; 0xFE; 0xFF; 0x70; 0x47])] /\
  (* the known finding: 24 1c (ADDS R4,R4,#0 in its T1 form) comes back as 00 34 (T2) *)
  (match tridas [0x24; 0x1C; 0x70; 0x47] with
   | Listing text => CtxModel.pipeline (fun _ => None) [] text
   | _ => CtxModel.POutOfFuel end)
  = CtxModel.Done CtxModel.Success [] [(0x20000000, 0x20000003, [0x00; 0x34; 0x70; 0x47])].
Proof. vm_compute. repeat split. Qed.
