(* C05 — Program image equals the sequential layout of its statements.  Statements only; proofs in
   Asm/Layout{Proofs,Eval,Instr,InstrD,Dict,Sim,Stage,Step,Final}.v (image = reference, success assumed) and
   Asm/Layout{EvalC,InstrC,Prog,ProgFinal,Bytes,Text,Check}.v (acceptance, statement bytes, source text).
   Model: Asm/CtxModel.v (statement loop `run_items`/`step`, end-of-file tasks, close_segment, finalize, `pipeline`),
   oracle: Asm/LayoutSpec.v (`layout_spec`: two passes; pass 2 evaluates every value in the FINAL symbol table) and
   Asm/LayoutWf.v (`no_collision`: regions do not collide).  The oracle reads the file of a `.dfile "name"` statement as the
   context does, relative to the directory of the root file: rel_fs fs path name = fs (resolve_path path name).

   PARTIAL.  Everything below is proved for the following class of single-file programs (C05_classw / C05_class_def):
   labels, .addr, .align, .const, .du8/.du16/.du32, .dstr, .dhex, .dfile and instruction statements, any number of regions
   in any address order, and
   * .du8/.du16/.du32 of ANY expression: evaluated at once, or deferred because a label / .const is defined LATER
     (same region, another region, before or after a region switch);
   * instruction statements: any mnemonic and operand forms when every symbol they mention is defined EARLIER in the file;
     a statement mentioning a LATER symbol may be of ANY mnemonic provided the ONE operand the mnemonic evaluates
     (C05_eval_pos_def: the immediate of ADDS/SUBS/ADD/SUB/RSBS/ASRS/LSLS/LSRS/MOVS/MOV/CMP, the target of ADR / B<cond> / BL,
     the second operand of LDR/LDRB/LDRH/LDRSB/LDRSH/STR/STRB/STRH, the operand of BKPT/SVC/UDF.N/UDF.W)
       - has a checked 64-bit value in the final table (Expr/Denote.den64: labels, constants, arithmetic over them), or
       - is a memory operand [reg + e] / [e + reg] whose offset e has such a value;
     CPSIE/CPSID/DMB/DSB/ISB with any operand (never looked up);
   * no .include/.global/.import/.export (outside the oracle's domain, C14) - for these see WHOLE PROJECTS below.
   Proved for the class:
   * C05_layout_partial: if the pipeline reports success without diagnostics, its regions are exactly the maximal runs of the
     dictionary { address + i |-> byte i } of the reference's statements (success is a hypothesis);
   * C05_accepts_partial / C05_layout_wf_partial: success is NOT a hypothesis - a program that is well-formed per the
     reference (layout_spec defined: sizes, addresses below 2^32, operands of .addr/.align/.const valued, names fresh,
     values in range, instructions encodable in the final table, files readable; no_collision: no byte of a statement and no
     .addr target on a byte of an earlier statement) is assembled WITHOUT any diagnostic and its image is the reference image;
   * C05_no_placeholder_partial: that image holds at the address of every statement exactly the bytes of its value in the
     final table (no 0xBE placeholder left where a deferred value was resolved) and nothing outside the statements;
   * C05_order_independent_partial: a .du8/.du16/.du32 holds the little-endian bytes of its expression's value in the FINAL
     table, whether the symbols are defined before or after it;
   * C05_staged_assembly, C05_placeholder_length, C05_deferral_keeps_operand: the per-mnemonic facts behind deferred instruction
     statements - staged assembly = direct assembly; the placeholder has the length of the final encoding;
   * C05_text_partial / C05_text_spelled_partial: the same from source TEXT (characters; any separators incl. comments;
     canonical or free token spelling, redundant parentheses) through C09's character-level round trip;
   * C05_labels_partial, C05_label_next_item: the context's table = the reference's final table; a label = address of the
     next placed byte.
   Not proved (covered by the correspondence stream of props/C05.json: the implementation's image is compared with
   layout_spec on every successful program and with the model on every program):
   * a deferred instruction statement whose evaluated operand is neither valued nor of the form [reg + e] / [e + reg]
     (e.g. `[R1 + 4 + k]`, or an operand that reduces to a register such as `R9 + k` with k = 0);
   * .include (and .global/.import/.export) outside the project class below.
   WHOLE PROJECTS (C05_project_ theorems at the end of the file; proofs in Asm/LayoutMulti{,Spec,Eval,Mem,Step,File,Top,Check}.v).
   Oracle: Asm/LayoutSpecExt.layout_spec_ext (two passes, one symbol table per file instance; the oracle of the correspondence
   stream), files read through rel_fs fs path; parse_ref = the statement list of a file text.  PARTIAL: proved for the class
   C05_project_class (C05_project_class_def / _walk / _stmt_class_def / _fresh_def), a walk of the include tree alongside the
   reference's pass 1 that asks of every statement of every (transitively) included file, to any depth the reference accepts:
   * the single-file class above (stmt_okx) w.r.t. the FINAL table of the statement's file instance;
   * an operand mentions a name n that is declared by `.global` but not yet valued in the file only when the operand IS n
     (nothing else), in a .du8/.du16/.du32 or an instruction statement (`.global main; ... B main; .du32 main; ... main:`);
     a `.global n` BEFORE the definition of n is in the class, uses of n before the `.global` and after the definition are
     unrestricted, between the two n may only stand alone (not in `n + 4`);
   * `.import n` only of a name the includer has VALUED at that point (not of a name the includer has only declared);
   * `.include "v"` / `.dfile "v"`: the file the context reads (relative to the including file) is the one the reference reads
     (relative to the root file); no file includes a file that is still open (implied by the reference being defined; asked
     for explicitly);
   * no_collision: no .addr target and no byte of a statement on a byte of an earlier statement of ANY file.
   `.export`, `.global` of a valued name, labels / .const handed up and down, sibling files reusing local names, forward
   references across `.include` in both directions are in the class.  Proved: C05_project_layout_partial (both build profiles,
   every include fuel >= 8 = the reference's depth bound: the pipeline reports success WITHOUT diagnostics and its image IS the
   multi-file reference image), C05_project_no_placeholder_partial, C05_project_order_independent_partial,
   C05_project_text_partial / _text_spelled_partial (root file given as characters), C05_project_label_next_item,
   C05_project_class_check (executable sufficient check), C05_project_examples.
   NOT proved for projects: compound operands that mention a declared-but-unvalued name (the simplifier's symbolic merge can reject
   such a program before the definition and accept it after - S.3 of DESIGN.md - so acceptance needs a restriction there), `.import`
   of a declared-only name (its uses are re-tried in the includer; a two-level chain of such imports is a diagnostic although
   layout_spec_ext defines it), the character-level form for INCLUDED files (they are read through the parser model, C10).
   FOUND (C05_finding_examples, reported, not repaired): `CMP R8, R9 + k; .const k, 0;` is REJECTED (could not encode) although
   `.const k, 0; CMP R8, R9 + k;` assembles to CMP R8, R9: the placeholder of a deferred statement is the encoding of the
   half-filled template (`CMP R8, #0`, not encodable).  Same for `ADD R1, R1, R2 + k`.  Only operands that reduce to a
   REGISTER are affected - outside the class above, where the final operand is a constant or a memory operand. *)
From Coq Require Import ZArith NArith List Bool String.
From Trion Require Import Text.Types Text.ParseModel Expr.I64 Expr.EvalModel Expr.Denote Expr.C08Sound Arm.Instr Arm.DisplayModel Arm.AsmStmtModel Arm.EncodeModel
  Mem.MapModel Mem.MapProofs
  Asm.CtxModel Asm.CtxProofs Asm.LayoutSpec Asm.LayoutWf Asm.SegProofs Asm.LayoutProofs Asm.Ctx06Proofs Asm.LayoutEval Asm.LayoutInstr Asm.LayoutInstrD Asm.LayoutStage
  Asm.LayoutStep Asm.LayoutFinal Asm.LayoutProgFinal Asm.LayoutBytes Asm.LayoutText Asm.LayoutCheck Mem.DictSpec Text.Render Text.ShowSpec.
From Trion Require Text.ParseProofs.
From Trion Require Import Asm.LayoutSpecExt Asm.LayoutMulti Asm.LayoutMultiSpec Asm.LayoutMultiFile Asm.LayoutMultiTop Asm.LayoutMultiCheck.
Import ListNotations.
Open Scope N_scope.

(* the operand a mnemonic evaluates (position in the operand list); all other operands are register names / register lists *)
Theorem C05_eval_pos_def : forall t,
  eval_pos t = match t with
               | Add _ _ _ _ | Sub _ _ _ _ | Asr _ _ _ | Lsl _ _ _ | Lsr _ _ _ | Rsb _ _ => Some 2%nat
               | Adr _ _ | Cmp _ _ | Mov _ _ _ | Ldr _ _ _ | Ldrb _ _ _ | Ldrh _ _ _ | Str _ _ _ | Strb _ _ _ | Strh _ _ _
               | Ldrsb _ _ _ | Ldrsh _ _ _ => Some 1%nat
               | B _ _ | Bl _ | Bkpt _ | Svc _ | Udf _ | Udfw _ => Some 0%nat
               | _ => None
               end.
Proof. reflexivity. Qed.

(* The class.  C05_classw fs path E els: for every statement e of els, with s0 = the state pass 1 of the reference has reached
   before e: labels and directives are unrestricted (a directive outside the oracle's domain makes layout_spec undefined); an
   instruction statement satisfies one of
     - every identifier in its operands is a register or defined in the table so far,
     - the operand its mnemonic evaluates has a den64 value in the FINAL table E, or is [reg + e] / [e + reg] with e valued,
     - the mnemonic is CPSIE/CPSID/DMB/DSB/ISB (no_eval: the operand is a bare identifier, never looked up).
   The definitions are restated here so that the statements below can be read without the proof files. *)
Theorem C05_class_def : forall fs path E els,
  C05_classw fs path E els <->
  (forall pre e post s0, els = pre ++ e :: post -> pass1 (rel_fs fs path) (mkP1 None [] []) (map e_val pre) = Some s0 ->
     match e_val e with
     | ELabel _ => True
     | EDirective _ _ => True
     | EInstruction name args =>
         (forall a, In a args -> forall n, In n (LayoutEval.idents a) ->
            CtxModel.is_register n = true \/ exists v, env_get (p_env s0) n = Some v)
         \/ (exists t pos, template name = Some t /\ eval_pos t = Some pos /\
                forall a, nth_error args pos = Some a ->
                  den64 (rho E) a <> None \/
                  exists r (side : bool) e, CtxModel.is_register r = true /\ den64 (rho E) e <> None /\
                                   a = AAddr (if side then AAdd (AIdent r) e else AAdd e (AIdent r)))
         \/ (exists t, template name = Some t /\ no_eval t = true)
     end).
Proof.
  intros fs path E els. unfold C05_classw, C05_classx, class_fromx, stmt_okx, known_in, known, LayoutSim.lkE, staged_ok, mem_ok, mem_form.
  split; intros H pre e post s0 H1 H2; specialize (H pre e post s0 H1 H2); destruct (e_val e); auto;
    try (intros _ v _; reflexivity);
    (destruct H as [H|H]; [left|right; exact H]); intros a Ha n Hn; destruct (H a Ha n Hn) as [R|(v & F)]; auto; right.
  - destruct (env_get (p_env s0) n) as [w|]; [eauto|discriminate].
  - exists v. rewrite F. reflexivity.
Qed.

(* The image of a program of the class is the reference layout, and nothing else: any number of regions in any address
   order, immediate and deferred statements.  image_of placed = DictSpec.runs of the dictionary that holds byte i of every
   placed statement at address + i. *)
Theorem C05_layout_partial : forall fs path text els placed env regions,
  parse_source text = Parsed (map IOk els) None ->
  layout_spec (rel_fs fs path) (map e_val els) = Some (placed, env) ->
  C05_classw fs path env els ->
  pipeline fs path text = Done Success [] regions ->
  regions = image_of placed.
Proof. intros fs path. exact (layout_generalx fs (rel_fs fs path) path). Qed.

(* Acceptance (the converse direction): a program of the class that is WELL-FORMED PER THE REFERENCE is assembled without
   any diagnostic.  Well-formed = layout_spec is defined (pass 1: every statement has a size and an address below 2^32,
   .addr/.align/.const operands have values in the table so far, names are fresh and not registers, .dfile files exist;
   pass 2: every .du8/.du16/.du32 value is in range, every instruction statement assembles and encodes in the final table)
   and Asm/LayoutWf.no_collision (an .addr never selects an address that holds a byte of an earlier statement; no byte of a
   statement falls on a byte of an earlier statement). *)
Theorem C05_accepts_partial : forall fs path text els placed env,
  parse_source text = Parsed (map IOk els) None ->
  layout_spec (rel_fs fs path) (map e_val els) = Some (placed, env) ->
  C05_classw fs path env els ->
  no_collision (rel_fs fs path) (map e_val els) ->
  exists regions, pipeline fs path text = Done Success [] regions.
Proof. intros fs path. exact (pipeline_acceptsx fs (rel_fs fs path) path). Qed.

(* ... so success is no longer a hypothesis: for every program of the class that is well-formed per the reference, the
   pipeline's result IS the reference image, without diagnostics *)
Theorem C05_layout_wf_partial : forall fs path text els placed env,
  parse_source text = Parsed (map IOk els) None ->
  layout_spec (rel_fs fs path) (map e_val els) = Some (placed, env) ->
  C05_classw fs path env els ->
  no_collision (rel_fs fs path) (map e_val els) ->
  pipeline fs path text = Done Success [] (image_of placed).
Proof. intros fs path. exact (layout_acceptsx fs (rel_fs fs path) path). Qed.

(* No placeholder left, nothing else: the image is the runs of a dictionary that holds, at the address of EVERY reference
   statement, exactly the bytes pass 2 computed for it in the final table (for a deferred statement: the bytes of its
   value, not the 0xBE placeholder; the reference has 0xBE only as .align padding), and no byte outside the statements.
   image_dict placed = the dictionary { address + i |-> byte i } of the placed statements; image_of = runs of it. *)
Theorem C05_no_placeholder_partial : forall fs path text els placed env,
  parse_source text = Parsed (map IOk els) None ->
  layout_spec (rel_fs fs path) (map e_val els) = Some (placed, env) -> C05_classw fs path env els ->
  no_collision (rel_fs fs path) (map e_val els) ->
  pipeline fs path text = Done Success [] (runs (image_dict placed)) /\
  (forall a bs ids, In (a, bs, ids) placed -> forall x, a <= x -> x < a + MapModel.len bs ->
     d_get (image_dict placed) x = nth_error bs (N.to_nat (x - a))) /\
  (forall x, d_get (image_dict placed) x <> None -> exists a bs ids, In (a, bs, ids) placed /\ a <= x /\ x < a + MapModel.len bs).
Proof. intros fs path. exact (no_placeholderx fs (rel_fs fs path) path). Qed.

(* Order independence: every .du8/.du16/.du32 statement (at the address a pass 1 has reached before it) holds the
   little-endian bytes of the value its expression has in the FINAL table env - the same bytes whether the labels and
   constants it mentions are defined before or after it, in the same or in another region. *)
Theorem C05_order_independent_partial : forall fs path text els placed env,
  parse_source text = Parsed (map IOk els) None ->
  layout_spec (rel_fs fs path) (map e_val els) = Some (placed, env) -> C05_classw fs path env els ->
  no_collision (rel_fs fs path) (map e_val els) ->
  pipeline fs path text = Done Success [] (runs (image_dict placed)) /\
  forall pre name e post s0 a k,
    map e_val els = pre ++ EDirective name [e] :: post -> dir_of name = Some (DData k) ->
    pass1 (rel_fs fs path) (mkP1 None [] []) pre = Some s0 -> p_cur s0 = Some a ->
    exists v, den64 (rho env) e = Some v /\ (0 <= v <= dk_max k)%Z /\
      forall x, a <= x -> x < a + dk_size k ->
        d_get (image_dict placed) x = nth_error (le_n (dk_size k) (Z.to_N v)) (N.to_nat (x - a)).
Proof. intros fs path. exact (order_independentx fs (rel_fs fs path) path). Qed.

(* Deferred instruction statements, per mnemonic (any evaluator ev - the context's or the reference's):
   (1) a statement that is deferred keeps its operands, with exactly the operand its mnemonic evaluates replaced by the tree the
       failed / deferred evaluation left; *)
Theorem C05_deferral_keeps_operand : forall ev l addr t args c a1,
  assemble_args ev l addr t (mkAst args 0) = CDefer c a1 ->
  exists pos x x' sx, eval_pos t = Some pos /\ nth_error args pos = Some x /\ ev x = (x', sx) /\
    sx <> SComplete /\ sx <> SEvalError /\ a1 = mkAst (AsmStmtModel.set_nth pos x' args) 0.
Proof. exact assemble_args_defer_pos. Qed.

(* (2) staged assembly = direct assembly: replacing that operand by any tree the evaluator takes to the same result does not
       change the assembled instruction (for the context: Asm/LayoutStage.stage_stg shows that the tree a deferral keeps for an
       operand of the class is such a tree w.r.t. the final table); *)
Theorem C05_staged_assembly : forall ev l addr t args pos a0 a1 i s,
  eval_pos t = Some pos -> nth_error args pos = Some a0 ->
  (forall x, ev a0 = (x, SComplete) -> ev a1 = (x, SComplete)) ->
  assemble_args ev l addr t (mkAst args 0) = COk i s ->
  assemble_args ev l addr t (mkAst (AsmStmtModel.set_nth pos a1 args) 0) = COk i s.
Proof. exact assemble_args_swap. Qed.

(* (3) the placeholder has the length of the final encoding: the context encodes the half-filled template
       (CtxModel.partial_instr: registers converted so far, the mnemonic table's default for the rest) to learn the length.
       Whenever the final statement assembles and encodes and its evaluated operand came out as a constant or a memory
       operand, the half-filled template encodes too, with the same number of halfwords.  (Not so when the operand reduces
       to a register: C05_finding_examples.) *)
Theorem C05_placeholder_length : forall ev l addr name t args pos a v x' iF sF hws,
  template name = Some t -> eval_pos t = Some pos -> nth_error args pos = Some a -> ev a = (v, SComplete) ->
  (exists w, v = AConst w) \/ (exists inner, v = AAddr inner) ->
  assemble_args ev l addr t (mkAst args 0) = COk iF sF -> enc iF = EncOk hws ->
  exists hws', enc (partial_instr t (mkAst (AsmStmtModel.set_nth pos x' args) 0)) = EncOk hws' /\ List.length hws' = List.length hws.
Proof. exact placeholder_length. Qed.

(* From source TEXT (C09's character-level round trip discharges the parse hypothesis): statements written as characters
   with any separators (white space, line comments, block comments) - canonical token spelling ... *)
Theorem C05_class_v_def : forall fs path E stmts,
  C05_class_vw fs path E stmts <->
  (forall pre e post s0, stmts = pre ++ e :: post -> pass1 (rel_fs fs path) (mkP1 None [] []) pre = Some s0 ->
     match e with
     | ELabel _ => True
     | EDirective _ _ => True
     | EInstruction name args =>
         (forall a, In a args -> forall n, In n (LayoutEval.idents a) ->
            CtxModel.is_register n = true \/ exists v, env_get (p_env s0) n = Some v)
         \/ (exists t pos, template name = Some t /\ eval_pos t = Some pos /\
                forall a, nth_error args pos = Some a ->
                  den64 (rho E) a <> None \/
                  exists r (side : bool) e, CtxModel.is_register r = true /\ den64 (rho E) e <> None /\
                                   a = AAddr (if side then AAdd (AIdent r) e else AAdd e (AIdent r)))
         \/ (exists t, template name = Some t /\ no_eval t = true)
     end).
Proof.
  intros fs path E stmts. unfold C05_class_vw, C05_class_vx, stmt_okx, known_in, known, LayoutSim.lkE, staged_ok, mem_ok, mem_form.
  split; intros H pre e post s0 H1 H2; specialize (H pre e post s0 H1 H2); destruct e; auto;
    try (intros _ v _; reflexivity);
    (destruct H as [H|H]; [left|right; exact H]); intros a Ha n Hn; destruct (H a Ha n Hn) as [R|(v & F)]; auto; right.
  - destruct (env_get (p_env s0) n) as [w|]; [eauto|discriminate].
  - exists v. rewrite F. reflexivity.
Qed.

Theorem C05_text_partial : forall fs path stmts seps placed env,
  forallb writable_stmt stmts = true -> seps_ok (render_stmts stmts) seps ->
  layout_spec (rel_fs fs path) stmts = Some (placed, env) -> C05_class_vw fs path env stmts -> no_collision (rel_fs fs path) stmts ->
  pipeline fs path (show (render_stmts stmts) seps) = Done Success [] (image_of placed).
Proof. intros fs path. exact (text_layoutx fs (rel_fs fs path) path). Qed.

(* ... and with a free choice of spelling per token (radix, digit case, leading zeros, character literals, string
   escapes: ShowSpec.wtok) and redundant parentheses anywhere (ParseProofs.RendStmts) *)
Theorem C05_text_spelled_partial : forall fs path stmts ws seps placed env,
  ParseProofs.RendStmts stmts (map wtok_val ws) -> Forall wtok_ok ws -> wseps_ok ws seps ->
  layout_spec (rel_fs fs path) stmts = Some (placed, env) -> C05_class_vw fs path env stmts -> no_collision (rel_fs fs path) stmts ->
  pipeline fs path (showw ws seps) = Done Success [] (image_of placed).
Proof. intros fs path. exact (textw_layoutx fs (rel_fs fs path) path). Qed.

(* Labels and constants: at the end of the statement loop the context's table is the reference's final table
   (a success of the loop without diagnostics is all that is assumed of the context) ... *)
Theorem C05_labels_partial : forall fs inc path els placed env st',
  inc_ok inc -> layout_spec (rel_fs fs path) (map e_val els) = Some (placed, env) -> C05_classw fs path env els ->
  run_items false fs inc (map IOk els) (fst (enter_file init_state path)) = Ret None st' -> errors st' = [] ->
  forall n, get_constant st' n RLocal = Some (match env_get env n with Some v => Found v | None => NotFound end).
Proof. intros fs inc path. exact (labels_generalx fs (rel_fs fs path) inc path). Qed.

(* ... and in the reference a label's value is the address of the statement placed next, i.e. of the byte that follows it *)
Theorem C05_label_next_item : forall fs s n s1 e s2 a it,
  pass1_step fs s (ELabel n) = Some s1 -> pass1_step fs s1 e = Some s2 ->
  p_items s2 = (a, it) :: p_items s1 -> env_get (p_env s1) n = Some (Z.of_N a).
Proof. exact label_next_item. Qed.

(* Order independence at the expression level, for the path C08_staged does not cover: a statement deferred because a
   name is UNKNOWN keeps the tree the failed evaluation leaves behind (CtxEval.evaluate_mut); evaluating that tree once
   the name is defined gives the value of the original expression. *)
Theorem C05_staged_after_failure : forall rho lk1 lk2 ir a a' e v1 ev v2,
  compat rho lk1 ir -> compat rho lk2 ir ->
  evaluate_mut (fun n => Some (lk1 n)) ir a = EvErr a' e -> evaluate lk2 ir a' = I64.Ok (AConst v1, ev) ->
  den64 rho a = Some v2 -> v1 = v2.
Proof. exact staged_after_failure. Qed.

(* One freshly selected region of .dstr / .du*-literal statements from an arbitrary state (any overflow-check profile) *)
Theorem C05_layout_region_partial : forall dbg fs inc els st s bs,
  output st = [] -> active st = Active s -> s_buf s = [] -> SegInv [] s ->
  Forall2 (fun e b => simple_bytes (e_val e) = Some b) els bs -> List.concat bs <> [] ->
  MapModel.len (List.concat bs) <= s_max s ->
  exists st1, run_items dbg fs inc (map IOk els) st = Ret None st1 /\ errors st1 = errors st /\
    exists st2, close_segment dbg st1 = Ret (inl true) st2 /\
      output st2 = [(s_base s, s_base s + MapModel.len (List.concat bs) - 1, List.concat bs)] /\ errors st2 = errors st.
Proof. exact layout_single. Qed.

(* within a region every simple statement is an append of exactly its bytes *)
Theorem C05_statement_appends : forall dbg fs inc st s e b,
  active st = Active s -> SegInv (output st) s -> simple_bytes (e_val e) = Some b ->
  blen s + MapModel.len b <= s_max s ->
  step dbg fs inc st e = Ret None (set_active st (Active (set_buf s (s_buf s ++ b)))).
Proof. exact step_simple. Qed.

(* a label evaluates to base + |bytes written so far|, which is where the next write puts its first byte *)
Theorem C05_label_step : forall dbg fs inc st s e name tbl b,
  e_val e = ELabel name -> active st = Active s -> SegInv (output st) s -> locals st = Some tbl ->
  CtxModel.is_register name = false -> tbl_get tbl name = None -> blen s < s_max s ->
  exists st1, step dbg fs inc st e = Ret None st1 /\
    get_constant st1 name RLocal = Some (Found (Z.of_N (s_base s + blen s))) /\
    active st1 = Active s /\
    seg_write dbg s [b] = SOk (set_buf s (s_buf s ++ [b])).
Proof. exact label_next_byte. Qed.

(* the in-place evaluation the context performs is Expr/EvalModel.evaluate (so C07/C08 apply to it) *)
Theorem C05_evaluate_agrees : forall lk isr a,
  match evaluate lk isr a with
  | I64.Ok (a', e) => evaluate_mut (fun n => Some (lk n)) isr a = EvOk a' e
  | I64.Err _ => exists a' e, evaluate_mut (fun n => Some (lk n)) isr a = EvErr a' e
  | I64.Panic s => evaluate_mut (fun n => Some (lk n)) isr a = EvPanic (P_simplify s)
  end.
Proof. exact evaluate_mut_agrees. Qed.

(* the two hypotheses of the acceptance theorems have executable (sufficient) checks: Asm/LayoutWf.nc_check walks pass 1
   and tests every address of every new item / every .addr target against the items so far; LayoutCheck.class_check
   tests stmt_ok with the table pass 1 has reached *)
Theorem C05_no_collision_check : forall fs prog, nc_check fs (mkP1 None [] []) prog = true -> no_collision fs prog.
Proof. exact nc_check_sound. Qed.

Theorem C05_class_check : forall fs path E prog,
  class_checkw (rel_fs fs path) E (mkP1 None [] []) prog = true -> C05_class_vw fs path E prog.
Proof. exact class_checkw_sound. Qed.

Open Scope string_scope.
(* non-vacuity: statements deferred by LATER definitions - ADR and LDR literal of a forward label, ADDS / MOVS / CMP / LSLS / SVC
   with a forward constant, LDR [R1 + off] and STR [off + SP] with a forward offset, a forward branch, a .du8 / .du32 of forward
   names -, DMB SY (operand never looked up), .align padding, a .dfile, a region switch; the pipeline's image and the two-pass
   reference agree, and the program satisfies the hypotheses of C05_layout_wf_partial / C05_text_partial (class and
   no_collision, by their executable checks).  The real assembler produces the same image for this text. *)
Theorem C05_examples :
  let src := bytes_of_string in
  let fs : str -> option (list N) := fun v => if AsmStmtModel.str_eqb v (src "blob.bin") then Some [1; 2; 3] else None in
  let root := src "root.asm" in
  let t := src ".addr 0x100; ADR R0, lit; LDR R1, lit; ADDS R2, R2, k; MOVS R3, k; CMP R4, k; LSLS R5, R6, sh; LDR R7, [R1 + off]; STR R0, [off + SP]; SVC k; B later; DMB SY; .du8 k; .align 4; lit: .du32 later + k; .dfile ""blob.bin""; .addr 0x200; NOP; later: .const k, 2; .const sh, 3; .const off, 4;" in
  let img := [(0x100, 0x122, [6; 160; 6; 73; 2; 50; 2; 35; 2; 44; 245; 0; 79; 104; 1; 144; 2; 223; 118; 224; 191; 243; 95; 143;
                              2; 190; 190; 190; 4; 2; 0; 0; 1; 2; 3]); (0x200, 0x201, [0; 191])] in
  pipeline fs root t = Done Success [] img
  /\ match parse_source t with
     | Parsed items None =>
         let stmts := flat_map (fun i => match i with ParseModel.IOk e => [e_val e] | _ => [] end) items in
         option_map (fun r => (map (fun x => (fst (fst x), snd (fst x))) (fst r), image_of (fst r))) (layout_spec (rel_fs fs root) stmts)
         = Some ([(0x100, [6; 160]); (0x102, [6; 73]); (0x104, [2; 50]); (0x106, [2; 35]); (0x108, [2; 44]); (0x10A, [245; 0]);
                  (0x10C, [79; 104]); (0x10E, [1; 144]); (0x110, [2; 223]); (0x112, [118; 224]); (0x114, [191; 243; 95; 143]);
                  (0x118, [2]); (0x119, [190; 190; 190]); (0x11C, [4; 2; 0; 0]); (0x120, [1; 2; 3]); (0x200, [0; 191])], img)
         /\ match layout_spec (rel_fs fs root) stmts with
            | Some (_, env) => class_checkw (rel_fs fs root) env (mkP1 None [] []) stmts = true /\ nc_check (rel_fs fs root) (mkP1 None [] []) stmts = true
            | None => False
            end
     | _ => False
     end.
Proof. vm_compute. repeat split; reflexivity. Qed.

(* FINDING (model = implementation, confirmed on the real assembler): a deferred statement whose operand reduces to a REGISTER.
   With k defined before the statement `CMP R8, R9 + k` (k = 0) assembles to CMP R8, R9 (0x45C8); with k defined after it the
   statement is rejected (could not encode), because the placeholder is the encoding of the half-filled template CMP R8, #0. *)
Theorem C05_finding_examples :
  let src := bytes_of_string in
  let nofs : str -> option (list N) := fun _ => None in
  pipeline nofs (src "root.asm") (src ".addr 0x100; .const k, 0; CMP R8, R9 + k;") = Done Success [] [(0x100, 0x101, [200; 69])]
  /\ pipeline nofs (src "root.asm") (src ".addr 0x100; CMP R8, R9 + k; .const k, 0;")
     = Done Failure [mkDiag (src "root.asm") 1 14 (KInstr DEncode)] [].
Proof. vm_compute. split; reflexivity. Qed.

(* ================================================================== WHOLE PROJECTS ================================================================== *)
(* The class.  C05_project_class fs path prog: the reference's pass 1 is defined on the project (px_final: the final pass-1 state
   with the tables of all file instances; EF_of x2 id = the final table of file instance id) and the walk `cls` holds. *)
Theorem C05_project_class_def : forall fs path prog,
  C05_project_class fs path prog <->
  match px_final (rel_fs fs path) parse_ref prog with
  | Some x2 => cls fs (rel_fs fs path) parse_ref (EF_of x2) 8 [] path px0 prog
  | None => False
  end.
Proof. intros fs path prog. reflexivity. Qed.

(* the walk, statement by statement (fuel = include depth as in LayoutSpecExt.xfile; `open` = the files being assembled above
   `path`; x = the reference's pass-1 state before the statement): an `.include "v"` asks that the context's file is the
   reference's, that it is not open, and the walk of the included file from xpush x; any other statement asks stmt_cls and,
   for the reference's next state, fresh_x *)
Theorem C05_project_class_walk : forall fs fsr prs EF k open path x e r,
  cls fs fsr prs EF (S k) open path x (e :: r) =
  match include_name e with
  | Some v =>
      fsr v = fs (resolve_path path v) /\ ~ In (resolve_path path v) (path :: open) /\
      match fsr v with
      | Some text =>
          match prs text with
          | Some prog =>
              cls fs fsr prs EF k (path :: open) (resolve_path path v) (xpush x) prog /\
              match xfile k fsr prs (xpush x) prog with
              | Some x1 => match xpop x1 with Some x' => cls fs fsr prs EF (S k) open path x' r | None => True end
              | None => True
              end
          | None => True
          end
      | None => True
      end
  | None => stmt_cls fs fsr EF path x e /\ match xstep fsr x e with Some x' => fresh_x x e x' /\ cls fs fsr prs EF (S k) open path x' r | None => True end
  end.
Proof. exact cls_cons. Qed.

(* one statement of the file whose table is the top frame f of x (includer's table: p): no operand (for `.const n, e`: e)
   mentions a name declared but not valued in f - or, in a .du8/.du16/.du32 or instruction statement, the operand is such a
   name itself; the single-file class w.r.t. the final table EF (f_id f) of the file instance and the values so far;
   `.import n` only when the includer has a value for n *)
Theorem C05_project_stmt_class_def : forall fs fsr EF path x ev,
  stmt_cls fs fsr EF path x ev <->
  match x_stack x with
  | f :: p :: _ =>
      (forall a, In a (match ev with
                       | ELabel _ => []
                       | EInstruction _ args => args
                       | EDirective name args => if dname name "const" then tl args else args
                       end) ->
         (forall n, In n (LayoutEval.idents a) -> sget (f_env f) n <> Some BDecl) \/
         (match ev with
          | EInstruction _ _ => true
          | EDirective name _ => dname name "du8" || dname name "du16" || dname name "du32"
          | ELabel _ => false
          end = true /\ exists n, a = AIdent n /\ sget (f_env f) n = Some BDecl)) /\
      LayoutStep.stmt_okx fs fsr path (EF (f_id f)) (vals (f_env f)) ev /\
      (forall name n, ev = EDirective name [AIdent n] -> dname name "import" = true -> exists v, sget (f_env p) n = Some (BVal v))
  | _ => False
  end.
Proof. intros fs fsr EF path x ev. reflexivity. Qed.

(* no_collision for one step of the reference *)
Theorem C05_project_fresh_def : forall x ev x',
  fresh_x x ev x' <->
  (forall c, is_addr ev = true -> x_cur x' = Some c -> ~ covered (flat_items (x_items x)) c) /\
  (forall a idit y, x_items x' = (a, idit) :: x_items x -> a <= y -> y < a + item_size (snd idit) -> ~ covered (flat_items (x_items x)) y).
Proof. intros x ev x'. reflexivity. Qed.

(* The image of a project of the class IS the multi-file two-pass reference image, and the pipeline reports success without
   any diagnostic - success is not a hypothesis; both build profiles (dbg); every include fuel >= 8 (layout_spec_ext walks at
   most 8 levels, so the fuel suffices: cf. C06_no_out_of_fuel).  image_x placed = the maximal runs of the dictionary
   { address + i |-> byte i } of the placed statements of all files. *)
Theorem C05_project_layout_partial : forall dbg fs fuel path text els placed names, (8 <= fuel)%nat ->
  parse_els text = Some els ->
  layout_spec_ext (rel_fs fs path) parse_ref (map e_val els) = Some (placed, names) ->
  C05_project_class fs path (map e_val els) ->
  pipeline_gen dbg fs fuel path text = Done Success [] (image_x placed).
Proof. exact project_layout. Qed.

(* ... and from the source TEXT of the root file (characters; any separators incl. comments; canonical spelling, or any spelling
   of every token and redundant parentheses) through C09's character-level round trip; included files are read through
   parse_ref = the parser model on their text, in the reference and in the context alike *)
Theorem C05_project_text_partial : forall dbg fs fuel path stmts seps placed names, (8 <= fuel)%nat ->
  forallb writable_stmt stmts = true -> seps_ok (render_stmts stmts) seps ->
  layout_spec_ext (rel_fs fs path) parse_ref stmts = Some (placed, names) -> C05_project_class fs path stmts ->
  pipeline_gen dbg fs fuel path (show (render_stmts stmts) seps) = Done Success [] (image_x placed).
Proof. exact project_text. Qed.

Theorem C05_project_text_spelled_partial : forall dbg fs fuel path stmts ws seps placed names, (8 <= fuel)%nat ->
  ParseProofs.RendStmts stmts (map wtok_val ws) -> Forall wtok_ok ws -> wseps_ok ws seps ->
  layout_spec_ext (rel_fs fs path) parse_ref stmts = Some (placed, names) -> C05_project_class fs path stmts ->
  pipeline_gen dbg fs fuel path (showw ws seps) = Done Success [] (image_x placed).
Proof. exact project_textw. Qed.

(* parse_els: the statement list of a text whose parse has no error item (what the correspondence driver hands to the oracle) *)
Theorem C05_project_parse_def : forall text els,
  parse_els text = Some els -> parse_source text = Parsed (map ParseModel.IOk els) None.
Proof. exact parse_els_ok. Qed.

(* No placeholder left, nothing else: at the address of EVERY statement of EVERY file instance the image holds exactly the bytes
   pass 2 computed in the final table of that file instance, and no byte outside the statements. *)
Theorem C05_project_no_placeholder_partial : forall dbg fs fuel path text els placed names, (8 <= fuel)%nat ->
  parse_els text = Some els ->
  layout_spec_ext (rel_fs fs path) parse_ref (map e_val els) = Some (placed, names) ->
  C05_project_class fs path (map e_val els) ->
  pipeline_gen dbg fs fuel path text = Done Success [] (runs (image_dict_x placed)) /\
  (forall a bs id it, In ((a, bs), (id, it)) placed -> forall x, a <= x -> x < a + MapModel.len bs ->
     d_get (image_dict_x placed) x = nth_error bs (N.to_nat (x - a))) /\
  (forall x, d_get (image_dict_x placed) x <> None -> exists a bs id it, In ((a, bs), (id, it)) placed /\ a <= x /\ x < a + MapModel.len bs).
Proof. exact project_no_placeholder. Qed.

(* Order independence, also across files: a .du8/.du16/.du32 of file instance id holds the little-endian bytes of the value
   its expression has in the FINAL table of that file instance (EF_of x2 id: the file's own labels and constants, the names
   included files handed up, the names it imported) - the same bytes wherever the names are defined: before or after the
   statement, before or after the `.include` that brings them. *)
Theorem C05_project_order_independent_partial : forall dbg fs fuel path text els placed names x2, (8 <= fuel)%nat ->
  parse_els text = Some els ->
  layout_spec_ext (rel_fs fs path) parse_ref (map e_val els) = Some (placed, names) ->
  C05_project_class fs path (map e_val els) ->
  px_final (rel_fs fs path) parse_ref (map e_val els) = Some x2 ->
  pipeline_gen dbg fs fuel path text = Done Success [] (runs (image_dict_x placed)) /\
  forall a bs id size e, In ((a, bs), (id, IData size e)) placed ->
    exists v, den64 (rho (EF_of x2 id)) e = Some v /\ (0 <= v < Z.of_N (N.shiftl 1 (8 * size)))%Z /\
      bs = le_bytes_n (N.to_nat size) (Z.to_N v) /\
      forall x, a <= x -> x < a + MapModel.len bs -> d_get (image_dict_x placed) x = nth_error bs (N.to_nat (x - a)).
Proof. exact project_order_independent. Qed.

(* in the reference a label's value is the address of the item placed next (in whatever file instance the label stands) *)
Theorem C05_project_label_next_item : forall fsr x n x1 e x2 a idit f1 r1,
  xstep fsr x (ELabel n) = Some x1 -> xstep fsr x1 e = Some x2 -> x_items x2 = (a, idit) :: x_items x1 ->
  x_stack x1 = f1 :: r1 -> sget (f_env f1) n = Some (BVal (Z.of_N a)).
Proof. exact label_next_item_x. Qed.

(* the class has an executable (sufficient) check *)
Theorem C05_project_class_check : forall fs path prog, project_check fs path prog = true -> C05_project_class fs path prog.
Proof. exact project_check_sound. Qed.

(* non-vacuity: a 3-file project.  root includes a and b; a exports the label alab, which root uses BEFORE and AFTER the include,
   and declares ag by `.global` before defining it, with `B ag; .du16 ag;` between the declaration and the definition; b imports
   the root constant k; root branches forward across both includes
   (B fwd) and uses bsum, a constant b computes from the imported k; a and b each have a local `tmp` of their own.  The
   pipeline's image (both profiles) and the reference agree, the project passes the class check, and the final tables of the
   three file instances are as expected.  The real assembler produces the same image for these files. *)
Theorem C05_project_examples :
  let src := bytes_of_string in
  let t_root := src ".addr 0x100; .const k, 5; .du32 alab; B fwd; .include ""a.asm""; .du32 alab + ag; .include ""b.asm""; fwd: .du32 bsum; .du8 k;" in
  let t_a := src ".const tmp, 1; .global ag; alab: .du16 later; .du8 tmp; .align 2; B ag; .du16 ag; .const later, 0x1234; ag: .export alab; B alab;" in
  let t_b := src ".import k; .const tmp, 2; .du8 tmp; .align 4; .du32 k + 1; .const bsum, k * 2 + tmp; .export bsum;" in
  let fs : str -> option (list N) := fun v =>
    if AsmStmtModel.str_eqb v (src "a.asm") then Some t_a else if AsmStmtModel.str_eqb v (src "b.asm") then Some t_b else None in
  let root := src "root.asm" in
  let img := [(0x100, 0x120, [6; 1; 0; 0; 10; 224; 52; 18; 1; 190; 0; 224; 14; 1; 250; 231; 20; 2; 0; 0; 2; 190; 190; 190; 6; 0; 0; 0; 12; 0; 0; 0; 5])] in
  pipeline_gen false fs 8 root t_root = Done Success [] img /\ pipeline_gen true fs 64 root t_root = Done Success [] img
  /\ match parse_ref t_root with
     | Some prog =>
         option_map (fun r => (map fst (fst r), image_x (fst r))) (layout_spec_ext (rel_fs fs root) parse_ref prog)
         = Some ([(0x100, [6; 1; 0; 0]); (0x104, [10; 224]); (0x106, [52; 18]); (0x108, [1]); (0x109, [190]); (0x10A, [0; 224]); (0x10C, [14; 1]);
                  (0x10E, [250; 231]); (0x110, [20; 2; 0; 0]); (0x114, [2]); (0x115, [190; 190; 190]); (0x118, [6; 0; 0; 0]); (0x11C, [12; 0; 0; 0]); (0x120, [5])], img)
         /\ project_check fs root prog = true
         /\ option_map (fun x2 => (env_get (EF_of x2 1) (src "alab"), env_get (EF_of x2 1) (src "tmp"), env_get (EF_of x2 2) (src "tmp"),
                                   env_get (EF_of x2 3) (src "tmp"), env_get (EF_of x2 3) (src "k"), env_get (EF_of x2 1) (src "bsum")))
                       (px_final (rel_fs fs root) parse_ref prog)
            = Some (Some 262%Z, None, Some 1%Z, Some 2%Z, Some 5%Z, Some 12%Z)
     | None => False
     end.
Proof. vm_compute. repeat split; reflexivity. Qed.
