(* C05 — Program image equals the sequential layout of its statements.  Statements only; proofs in Asm/LayoutProofs.v.
   Model: Asm/CtxModel.v (statement loop `run_items`/`step`, close_segment), oracle: Asm/LayoutSpec.v.

   PARTIAL.  Full statements (not proved; covered by the correspondence stream of props/C05.json, where the
   implementation's image is compared with LayoutSpec.layout_spec on every successful program and with the model):
   * C05_layout : forall fs path text out, pipeline fs path text = Done Success [] out ->
       forall prog placed env, parsed text = prog -> layout_spec fs prog = Some (placed, env) ->
       out = the maximal runs of the dictionary { addr + i |-> byte i of each placed statement }
     (any number of regions, deferred statements, instructions with operands);
   * C05_labels : ... -> forall l v, In (l, v) env -> the table of the model maps l to v at the end of the file;
   * C05_order_independent / C05_no_placeholder : every deferred statement's bytes in `out` are the bytes LayoutSpec
     computes in the FINAL table (needs C08_staged lifted through run_task).
   Proved below: the single-region, no-deferral case for statements without operand evaluation. *)
From Coq Require Import ZArith NArith List Bool String.
From Trion Require Import Text.Types Text.ParseModel Expr.EvalModel Arm.DisplayModel Mem.MapModel Mem.MapProofs
  Asm.CtxModel Asm.CtxProofs Asm.LayoutSpec Asm.SegProofs Asm.LayoutProofs.
Import ListNotations.
Open Scope N_scope.

(* simple_bytes e = Some b : e is `.dstr "<b>"` or `.du8/.du16/.du32 <literal in range>` with little-endian bytes b.
   One freshly selected region (empty buffer, nothing in the map yet) of such statements, then close_segment:
   the image is the concatenation of the statements' bytes at the region's base — nothing else — and no diagnostic
   is recorded. *)
Theorem C05_layout_partial : forall dbg fs inc els st s bs,
  output st = [] -> active st = Active s -> s_buf s = [] -> SegInv [] s ->
  Forall2 (fun e b => simple_bytes (e_val e) = Some b) els bs -> List.concat bs <> [] ->
  MapModel.len (List.concat bs) <= s_max s ->
  exists st1, run_items dbg fs inc (map IOk els) st = Ret None st1 /\ errors st1 = errors st /\
    exists st2, close_segment dbg st1 = Ret (inl true) st2 /\
      output st2 = [(s_base s, s_base s + MapModel.len (List.concat bs) - 1, List.concat bs)] /\ errors st2 = errors st.
Proof. exact layout_single. Qed.

(* within a region every simple statement is an append of exactly its bytes (the step the induction above uses) *)
Theorem C05_statement_appends : forall dbg fs inc st s e b,
  active st = Active s -> SegInv (output st) s -> simple_bytes (e_val e) = Some b ->
  blen s + MapModel.len b <= s_max s ->
  step dbg fs inc st e = Ret None (set_active st (Active (set_buf s (s_buf s ++ b)))).
Proof. exact step_simple. Qed.

(* a label evaluates to the address of the byte that follows it: base + |bytes written so far|, which is where the
   next write puts its first byte *)
Theorem C05_labels_partial : forall dbg fs inc st s e name tbl b,
  e_val e = ELabel name -> active st = Active s -> SegInv (output st) s -> locals st = Some tbl ->
  is_register name = false -> tbl_get tbl name = None -> blen s < s_max s ->
  exists st1, step dbg fs inc st e = Ret None st1 /\
    get_constant st1 name RLocal = Some (Found (Z.of_N (s_base s + blen s))) /\
    active st1 = Active s /\
    seg_write dbg s [b] = SOk (set_buf s (s_buf s ++ [b])).
Proof. exact label_next_byte. Qed.

(* the in-place evaluation the context performs (Asm/CtxEval.evaluate_mut, which also returns the partially
   substituted tree when it fails) is Expr/EvalModel.evaluate: same tree and status on success, an error exactly when
   evaluate reports one, a panic exactly when evaluate panics (never: C08_no_panic).  This is what carries C08's
   "same value before or after the definition" (C08_staged / C08_direct) over to deferred statements. *)
Theorem C05_evaluate_agrees : forall lk isr a,
  match evaluate lk isr a with
  | I64.Ok (a', e) => evaluate_mut (fun n => Some (lk n)) isr a = EvOk a' e
  | I64.Err _ => exists a' e, evaluate_mut (fun n => Some (lk n)) isr a = EvErr a' e
  | I64.Panic s => evaluate_mut (fun n => Some (lk n)) isr a = EvPanic (P_simplify s)
  end.
Proof. exact evaluate_mut_agrees. Qed.

Open Scope string_scope.
(* non-vacuity: forward label + region switch + definition; the pipeline's image and the two-pass reference agree *)
Theorem C05_examples :
  let src := bytes_of_string in
  let nofs : str -> option (list N) := fun _ => None in
  let t := src ".addr 0x100; B later; .addr 0x200; NOP; later: .du32 later;" in
  pipeline nofs (src "root.asm") t = Done Success [] [(0x100, 0x101, [127; 224]); (0x200, 0x205, [0; 191; 2; 2; 0; 0])]
  /\ match parse_source t with
     | Parsed items None =>
         option_map (fun r => map (fun x => (fst (fst x), snd (fst x))) (fst r))
           (layout_spec nofs (flat_map (fun i => match i with ParseModel.IOk e => [e_val e] | _ => [] end) items))
         = Some [(0x100, [127; 224]); (0x200, [0; 191]); (0x202, [2; 2; 0; 0])]
     | _ => False
     end.
Proof. vm_compute. split; reflexivity. Qed.
