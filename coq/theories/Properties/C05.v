(* C05 — Program image equals the sequential layout of its statements.  Statements only; proofs in
   Asm/Layout{Proofs,Eval,Instr,Dict,Sim,Step,Final}.v.
   Model: Asm/CtxModel.v (statement loop `run_items`/`step`, end-of-file tasks, close_segment, finalize, `pipeline`),
   oracle: Asm/LayoutSpec.v (`layout_spec`: two passes; pass 2 evaluates every value in the FINAL symbol table).

   PARTIAL.  Proved below (C05_layout_partial) for the following class of programs, starting from the parsed statement list:
   every single-file program for which the reference layout is defined (labels, .addr, .align, .const, .du8/.du16/.du32,
   .dstr, .dhex and instruction statements; the operands of .addr/.align/.const use earlier symbols; values in range), with
   any number of regions in any address order, and
   * .du8/.du16/.du32 of ANY expression: evaluated at once, or deferred because a label / .const is defined LATER
     (same region, another region, before or after a region switch);
   * instruction statements: any mnemonic and operand forms when every symbol they mention is defined EARLIER in the file;
     a statement mentioning a LATER symbol must be a B<cond> / BL whose target expression has a checked 64-bit value in the
     final table (Expr/Denote.den64);
   * no .dfile statement (and no .include/.global/.import/.export: outside the oracle's domain, C14).
   For such a program: if the pipeline reports success without diagnostics, its regions are exactly the maximal runs of
   the dictionary { address + i |-> byte i } of the reference's statements - nothing else, no placeholder left where a
   deferred value was resolved (the reference has 0xBE only as .align padding), every deferred statement carries the bytes
   of its value in the FINAL table (= the bytes it would have had, had the definition come first).
   Not proved (covered by the correspondence stream of props/C05.json: the implementation's image is compared with
   layout_spec on every successful program and with the model on every program):
   * C05_layout for the full class: deferred instruction statements other than B<cond>/BL (ADR / LDR literal / immediates
     naming a later .const), .dfile, .include;
   * C05_order_independent / C05_no_placeholder as statements of their own (inside the class they are consequences of
     C05_layout_partial, the reference being evaluated in the final table; C05_staged_after_failure is the expression-level
     fact they rest on). *)
From Coq Require Import ZArith NArith List Bool String.
From Trion Require Import Text.Types Text.ParseModel Expr.I64 Expr.EvalModel Expr.Denote Expr.C08Sound Arm.DisplayModel Arm.AsmStmtModel
  Mem.MapModel Mem.MapProofs
  Asm.CtxModel Asm.CtxProofs Asm.LayoutSpec Asm.SegProofs Asm.LayoutProofs Asm.Ctx06Proofs Asm.LayoutEval Asm.LayoutInstr Asm.LayoutStep Asm.LayoutFinal.
Import ListNotations.
Open Scope N_scope.

(* The class.  C05_class fs env els: for every statement e of els, with s0 = the state pass 1 of the reference has reached
   before e:  stmt_ok env (p_env s0) e, where
     stmt_ok E ek (label)              = True
     stmt_ok E ek (directive name ..)  = name is not "dfile"
     stmt_ok E ek (instruction n args) = every identifier in args is a register or defined in ek (known_in)
                                         \/ n is a B<cond>/BL mnemonic and every operand has a den64 value in E.
   The two definitions are restated here so that the statement below can be read without the proof files. *)
Theorem C05_class_def : forall fs E els,
  C05_class fs E els <->
  (forall pre e post s0, els = pre ++ e :: post -> pass1 fs (mkP1 None [] []) (map e_val pre) = Some s0 ->
     match e_val e with
     | ELabel _ => True
     | EDirective name _ => dir_of name <> Some DFile
     | EInstruction name args =>
         (forall a, In a args -> forall n, In n (LayoutEval.idents a) ->
            CtxModel.is_register n = true \/ exists v, env_get (p_env s0) n = Some v)
         \/ (exists t, template name = Some t /\ is_branch t = true /\ forall a, In a args -> den64 (rho E) a <> None)
     end).
Proof.
  intros fs E els. unfold C05_class, class_from, stmt_ok, known_in, known, LayoutSim.lkE.
  split; intros H pre e post s0 H1 H2; specialize (H pre e post s0 H1 H2); destruct (e_val e); auto;
    (destruct H as [H|H]; [left|right; exact H]); intros a Ha n Hn; destruct (H a Ha n Hn) as [R|(v & F)]; auto; right.
  - destruct (env_get (p_env s0) n) as [w|]; [eauto|discriminate].
  - exists v. rewrite F. reflexivity.
Qed.

(* The image of a program of the class is the reference layout, and nothing else: any number of regions in any address
   order, immediate and deferred statements.  image_of placed = DictSpec.runs of the dictionary that holds byte i of every
   placed statement at address + i. *)
Theorem C05_layout_partial : forall fs path text els placed env regions,
  parse_source text = Parsed (map IOk els) None ->
  layout_spec fs (map e_val els) = Some (placed, env) ->
  C05_class fs env els ->
  pipeline fs path text = Done Success [] regions ->
  regions = image_of placed.
Proof. exact layout_general. Qed.

(* Labels and constants: at the end of the statement loop the context's table is the reference's final table
   (a success of the loop without diagnostics is all that is assumed of the context) ... *)
Theorem C05_labels_partial : forall fs inc path els placed env st',
  inc_ok inc -> layout_spec fs (map e_val els) = Some (placed, env) -> C05_class fs env els ->
  run_items false fs inc (map IOk els) (fst (enter_file init_state path)) = Ret None st' -> errors st' = [] ->
  forall n, get_constant st' n RLocal = Some (match env_get env n with Some v => Found v | None => NotFound end).
Proof. exact labels_general. Qed.

(* ... and in the reference a label's value is the address of the statement placed next, i.e. of the byte that follows it *)
Theorem C05_label_next_item : forall fs s n s1 e s2 a it,
  pass1_step fs s (ELabel n) = Some s1 -> pass1_step fs s1 e = Some s2 ->
  p_items s2 = (a, it) :: p_items s1 -> env_get (p_env s1) n = Some (Z.of_N a).
Proof. exact label_next_item. Qed.

(* Order independence at the expression level, for the path C08_staged does not cover: a statement deferred because a
   name is UNKNOWN keeps the tree the failed evaluation leaves behind (CtxEval.evaluate_mut); evaluating that tree once
   the name is defined gives the value of the original expression. *)
Theorem C05_staged_after_failure : forall rho lk1 lk2 ir a a' e v1 ev v2,
  compat rho lk1 ir -> compat rho lk2 ir ->
  evaluate_mut (fun n => Some (lk1 n)) ir a = EvErr a' e -> evaluate lk2 ir a' = I64.Ok (AConst v1, ev) ->
  den64 rho a = Some v2 -> v1 = v2.
Proof. exact staged_after_failure. Qed.

(* One freshly selected region of .dstr / .du*-literal statements from an arbitrary state (any overflow-check profile) *)
Theorem C05_layout_region_partial : forall dbg fs inc els st s bs,
  output st = [] -> active st = Active s -> s_buf s = [] -> SegInv [] s ->
  Forall2 (fun e b => simple_bytes (e_val e) = Some b) els bs -> List.concat bs <> [] ->
  MapModel.len (List.concat bs) <= s_max s ->
  exists st1, run_items dbg fs inc (map IOk els) st = Ret None st1 /\ errors st1 = errors st /\
    exists st2, close_segment dbg st1 = Ret (inl true) st2 /\
      output st2 = [(s_base s, s_base s + MapModel.len (List.concat bs) - 1, List.concat bs)] /\ errors st2 = errors st.
Proof. exact layout_single. Qed.

(* within a region every simple statement is an append of exactly its bytes *)
Theorem C05_statement_appends : forall dbg fs inc st s e b,
  active st = Active s -> SegInv (output st) s -> simple_bytes (e_val e) = Some b ->
  blen s + MapModel.len b <= s_max s ->
  step dbg fs inc st e = Ret None (set_active st (Active (set_buf s (s_buf s ++ b)))).
Proof. exact step_simple. Qed.

(* a label evaluates to base + |bytes written so far|, which is where the next write puts its first byte *)
Theorem C05_label_step : forall dbg fs inc st s e name tbl b,
  e_val e = ELabel name -> active st = Active s -> SegInv (output st) s -> locals st = Some tbl ->
  CtxModel.is_register name = false -> tbl_get tbl name = None -> blen s < s_max s ->
  exists st1, step dbg fs inc st e = Ret None st1 /\
    get_constant st1 name RLocal = Some (Found (Z.of_N (s_base s + blen s))) /\
    active st1 = Active s /\
    seg_write dbg s [b] = SOk (set_buf s (s_buf s ++ [b])).
Proof. exact label_next_byte. Qed.

(* the in-place evaluation the context performs is Expr/EvalModel.evaluate (so C07/C08 apply to it) *)
Theorem C05_evaluate_agrees : forall lk isr a,
  match evaluate lk isr a with
  | I64.Ok (a', e) => evaluate_mut (fun n => Some (lk n)) isr a = EvOk a' e
  | I64.Err _ => exists a' e, evaluate_mut (fun n => Some (lk n)) isr a = EvErr a' e
  | I64.Panic s => evaluate_mut (fun n => Some (lk n)) isr a = EvPanic (P_simplify s)
  end.
Proof. exact evaluate_mut_agrees. Qed.

Open Scope string_scope.
(* non-vacuity: forward label + region switch + definition; the pipeline's image and the two-pass reference agree *)
Theorem C05_examples :
  let src := bytes_of_string in
  let nofs : str -> option (list N) := fun _ => None in
  let t := src ".addr 0x100; B later; .addr 0x200; NOP; later: .du32 later;" in
  pipeline nofs (src "root.asm") t = Done Success [] [(0x100, 0x101, [127; 224]); (0x200, 0x205, [0; 191; 2; 2; 0; 0])]
  /\ match parse_source t with
     | Parsed items None =>
         option_map (fun r => (map (fun x => (fst (fst x), snd (fst x))) (fst r), image_of (fst r)))
           (layout_spec nofs (flat_map (fun i => match i with ParseModel.IOk e => [e_val e] | _ => [] end) items))
         = Some ([(0x100, [127; 224]); (0x200, [0; 191]); (0x202, [2; 2; 0; 0])],
                 [(0x100, 0x101, [127; 224]); (0x200, 0x205, [0; 191; 2; 2; 0; 0])])
     | _ => False
     end.
Proof. vm_compute. split; reflexivity. Qed.
