(* C06 — every input yields success or diagnostics, never a crash.
   PLACEHOLDER until the Context model (Asm/CtxModel.v) is available; replaced below when it is. *)
From Coq Require Import NArith List.
From Trion Require Import Asm.ReportSpec.
Import ListNotations.
Open Scope N_scope.

Theorem C06_examples :
  judge [([112], [78;79;80;59;10])] StSuccess [] false None = None /\
  judge [([112], [78;79;80;59;10])] StPanic [] false None = Some VPanic /\
  judge [([112], [78;79;80;59;10])] StFailure [] false None = Some VFailureUnreported /\
  judge [([112], [78;79;80;59;10])] StFailure [mkDiag [112] 1 5] false None = None /\
  judge [([112], [78;79;80;59;10])] StFailure [mkDiag [112] 2 1] false None = None /\
  judge [([112], [78;79;80;59;10])] StFailure [mkDiag [112] 2 2] false None = Some VDiagOutOfBounds /\
  judge [([112], [78;79;80;59;10])] StFailure [mkDiag [113] 1 1] false None = Some VDiagOutOfBounds /\
  judge [([112], [78;79;80;59;10])] StSuccess [] true None = Some VInvalidAccepted /\
  judge [([112], [78;79;80;59;10])] StFailure [mkDiag [112] 1 1] true (Some (mkDiag [112] 1 2)) = Some VWrongPosition.
Proof. vm_compute. repeat split. Qed.
