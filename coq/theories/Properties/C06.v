(* C06 — every input yields success or diagnostics, never a crash.
   Statements about the Context model (Asm/CtxModel.v: tokenizer + parser + Context + directives + deferred
   statements + finalize, tied to the Rust code by the correspondence stream of ./check C06 in both build profiles).

   C06_never_panics (proofs: Asm/CtxNoPanicInstr.v, Asm/CtxNoPanic.v): the pipeline never reaches any of the panic sites
   of the model (CtxSeg.site: every unwrap / unreachable! / assert! / panic! / index of asm/mod.rs, the directives, the
   deferred-statement code of arm6m/mod.rs, the simplifier, the tokenizer and the parser), for every project, root path,
   source text, include-depth fuel and both build profiles.  It composes
     * C10 (tokenizer and parser total), C08 (simplify / evaluate never reach unreachable!/assert!) with C05's
       evaluate_mut agreement, the arity argument for `self.args[arg_pos]` (assemble_args_no_panic),
     * C13 (pipeline_inv: no segment / map site, including the assert of write_at after the repair 8bb2c3e),
     * the scope invariant proved here over all reachable states: while a file is open the local table and the local
       task list exist and path_stack is not empty (get/insert/defer_constant, add_task, active().unwrap(),
       curr_file_path().unwrap(), local_tasks.unwrap(), the PathFrame asserts); no table key is a register name
       (the unreachable!(e) arms of .global / .import / .export and of the end-of-file task); only re-scheduled
       statements ever reach the global task list (finalize never runs a task that needs a local scope).
   Found by this proof and repaired (8bb2c3e): with an active buffer of exactly 2^32 bytes curr_addr() was truncated to
   the base address and a task resolving inside the buffer tripped `assert!(addr <= self.curr_addr())`
   (`.addr 0; .du32 0; .du32 X; .align 0xFFFFFFFF; .du8 0; .const X, 1;`).
   The outcome POutOfFuel of the model is not a behaviour of the implementation (the model runs the include recursion,
   the task rounds, the map's binary search and the tokenizer / parser on explicit fuel).  C06_fuel_not_rounds
   (Asm/CtxFuel.v) excludes two of its sources: the tokenizer / parser fuel never runs out, and the round bound of
   the two task loops is never the reason (a task never adds to the list being drained, so the second round is empty).
   C06_no_out_of_fuel (Asm/CtxFuel2.v) composes them with the remaining two and closes the characterisation:
     forall files, (forall p, fs p <> None -> In p files) -> length files < fuel -> pipeline_gen dbg fs fuel path text <> POutOfFuel
   * the map's binary search never runs out of fuel on a map with C15's invariant Rep (MapProofs.locate_ok), and every
     state the pipeline reaches has it (C13: good), so close_segment / select_segment / write_instr / write_data never
     return OutOfFuel;
   * the fuel of Context::assemble is consumed one unit per open file; since fix 1569db8 a path already on path_stack is
     refused, so every recursing `.include` opens a file p with fs p <> None that is not open: the number of project
     files that are not open strictly decreases along an include chain (pigeonhole on path_stack), and a fuel larger
     than the number of files of the project is never exhausted.
   So POutOfFuel can only mean "more nested includes than fuel" (with the release constant include_fuel = 64: a project
   of 64 or more files); C06_no_out_of_fuel_single: a project without files never yields it, whatever the positive fuel.
   With C06_never_panics: for such projects every outcome of the pipeline is Done.
   C06_no_out_of_fuel_depth: the same with the include DEPTH in place of the number of files: for any rank function
   that decreases along every `.include "name"` statement (of the root text and of every project file) whose target can
   be opened - e.g. the height of a file in the include graph - a fuel above the rank of the root is never exhausted.
   `includes data name` = the parsed statements of data contain `.include "name"`; resolve_path = the model of
   `dir(current file) / name`. *)
From Coq Require Import ZArith NArith List Bool String.
From Trion Require Import Text.Types Asm.CtxModel Asm.ReportSpec Asm.Ctx06Proofs Asm.CtxNoPanic Asm.CtxFuel Asm.CtxFuel2.
From Trion Require Arm.AsmStmtModel Expr.EvalModel.
Import ListNotations.
Open Scope N_scope.

(* no panic site is reached: the whole pipeline (assemble, close the last region, finalize), any project `fs`, any
   root path and source text, any include-depth fuel, release (dbg = false) and overflow-checking (dbg = true) builds *)
Theorem C06_never_panics : forall dbg fs fuel path text p, pipeline_gen dbg fs fuel path text <> PPanic p.
Proof. exact never_panics. Qed.

(* the model's OutOfFuel outcome never comes from the tokenizer / parser fuel, and never from the round bound of the task
   loops of Context::assemble and finalize: if a loop runs out of fuel, a task of its first round did *)
Theorem C06_fuel_not_rounds : forall dbg,
  (forall data, exists items, parse_source data = Parsed items None) /\
  (forall k tasks st r, tinv st -> infile st -> local_tasks st = Some [] ->
     local_loop dbg (S k) tasks st r = OutOfFuel -> local_round dbg tasks st r = OutOfFuel) /\
  (forall k tasks st, tinv st -> path_stack st = [] -> Forall plain tasks -> global_tasks st = [] ->
     final_loop dbg (S k) tasks st = OutOfFuel -> final_round dbg tasks st = OutOfFuel).
Proof. exact fuel_not_rounds. Qed.

(* the model's OutOfFuel outcome means "include nesting deeper than the fuel" and nothing else: when the fuel exceeds
   the number of files of the project (files = any list that contains every path fs can open), the pipeline never
   returns POutOfFuel - any root path and source text, both build profiles.  (Map search, tokenizer, parser and
   task-round fuels always suffice; an include chain never repeats a path, fix 1569db8.) *)
Theorem C06_no_out_of_fuel : forall dbg fs fuel path text files,
  (forall p, fs p <> None -> In p files) -> (List.length files < fuel)%nat ->
  pipeline_gen dbg fs fuel path text <> POutOfFuel.
Proof. exact no_out_of_fuel. Qed.

(* the sharper bound, by include depth: rank decreases along every include statement that can be opened; the fuel need
   only exceed the rank of the root file ("every include chain from the root is shorter than the fuel") *)
Theorem C06_no_out_of_fuel_depth : forall dbg fs fuel path text (rank : str -> nat),
  (forall name, includes text name -> fs (resolve_path path name) <> None ->
     (rank (resolve_path path name) < rank path)%nat) ->
  (forall p d, fs p = Some d -> forall name, includes d name -> fs (resolve_path p name) <> None ->
     (rank (resolve_path p name) < rank p)%nat) ->
  (rank path < fuel)%nat ->
  pipeline_gen dbg fs fuel path text <> POutOfFuel.
Proof. exact no_out_of_fuel_depth. Qed.

(* a single source text (no file can be opened: every .include / .dfile is a diagnostic): never OutOfFuel *)
Theorem C06_no_out_of_fuel_single : forall dbg fuel path text,
  pipeline_gen dbg (fun _ => None) (S fuel) path text <> POutOfFuel.
Proof. exact no_out_of_fuel_single. Qed.

(* with C06_never_panics: the pipeline of a project with fewer files than the release include fuel (64) always
   returns Done - success or failure with its diagnostics and regions *)
Theorem C06_always_done : forall fs path text files,
  (forall p, fs p <> None -> In p files) -> (List.length files < include_fuel)%nat ->
  exists s diags regions, pipeline fs path text = Done s diags regions.
Proof. exact always_done. Qed.

(* success <=> no diagnostic recorded; failure => at least one diagnostic (a close error is its own report).
   Every diagnostic carries a file name, line and column by construction (record CtxModel.diag). *)
Theorem C06_reported : forall dbg fs fuel path text s diags regions,
  pipeline_gen dbg fs fuel path text = Done s diags regions ->
  (s = Success -> diags = []) /\ (s = Failure -> diags <> []).
Proof. exact pipeline_reported. Qed.

(* every Err return of Context::assemble (any nesting of .include) is preceded by a pushed diagnostic,
   and diagnostics are never removed *)
Theorem C06_assemble_reported : forall dbg fs fuel st data path r st',
  assemble dbg fs fuel st data path = Ret r st' ->
  (exists l, errors st' = l ++ errors st) /\ (r <> None -> exists d l, errors st' = d :: l ++ errors st).
Proof. exact assemble_reported. Qed.

(* the same for one statement and for one deferred task *)
Theorem C06_step_reported : forall dbg fs fuel st e r st',
  step dbg fs (assemble dbg fs fuel) st e = Ret r st' ->
  (exists l, errors st' = l ++ errors st) /\ (r <> None -> exists d l, errors st' = d :: l ++ errors st).
Proof. exact step_reported. Qed.
Theorem C06_task_reported : forall dbg st t r st',
  run_task dbg st t = Ret r st' ->
  (exists l, errors st' = l ++ errors st) /\ (r <> None -> exists d l, errors st' = d :: l ++ errors st).
Proof. exact run_task_spec. Qed.

(* ---- C06_invalid_constructs: one statement per listed construct; each is an equation  ... = Ret (Some _) (push_error ...),
        i.e. a diagnostic at the statement's position and no panic ---- *)
Theorem C06_invalid_register_label : forall dbg fs inc st s l c n, is_register n = true -> active st = Active s ->
  step dbg fs inc st (mkElement l c (ELabel n)) = Ret (Some Fatal) (push_error st l c KConstReserved).
Proof. exact label_register. Qed.
Theorem C06_invalid_register_const : forall st l c n v, is_register n = true ->
  dir_const st l c [AIdent n; AConst v] = Ret (Some Fatal) (push_error st l c (KApply AConstReserved)).
Proof. exact const_register. Qed.
Theorem C06_invalid_register_global : forall st l c n, is_register n = true ->
  dir_global st l c DGlobal [AIdent n] = Ret (Some Fatal) (push_error st l c (KApply AConstReserved)).
Proof. exact global_register. Qed.
Theorem C06_invalid_argc_addr : forall dbg st l c args, List.length args <> 1%nat ->
  dir_addr dbg st l c args = Ret (Some Trivial) (push_error st l c (argc_class (List.length args) 1)).
Proof. exact addr_argc. Qed.
Theorem C06_invalid_argc_const : forall st l c args, List.length args <> 2%nat ->
  dir_const st l c args = Ret (Some Trivial) (push_error st l c (argc_class (List.length args) 2)).
Proof. exact const_argc. Qed.
Theorem C06_invalid_argc_global : forall st l c d args, List.length args <> 1%nat ->
  dir_global st l c d args = Ret (Some Trivial) (push_error st l c (argc_class (List.length args) 1)).
Proof. exact global_argc. Qed.
Theorem C06_invalid_argc_include : forall fs inc st l c args, List.length args <> 1%nat ->
  dir_include fs inc st l c args = Ret (Some Trivial) (push_error st l c (argc_class (List.length args) 1)).
Proof. exact include_argc. Qed.
Theorem C06_invalid_argc_align : forall dbg st s l c args, active st = Active s -> List.length args <> 1%nat ->
  dir_align dbg st l c args = Ret (Some Trivial) (push_error st l c (argc_class (List.length args) 1)).
Proof. exact align_argc. Qed.
Theorem C06_invalid_argc_bytes : forall dbg fs st s l c d args, active st = Active s -> List.length args <> 1%nat ->
  dir_bytes dbg fs st l c d args = Ret (Some Trivial) (push_error st l c (argc_class (List.length args) 1)).
Proof. exact bytes_argc. Qed.
Theorem C06_invalid_argc_data : forall dbg st s l c k args, active st = Active s -> has_remaining dbg s (dk_size k) = SOk true ->
  List.length args <> 1%nat ->
  dir_data dbg st l c k args = Ret (Some Trivial) (push_error st l c (argc_class (List.length args) 1)).
Proof. exact data_argc. Qed.
Theorem C06_invalid_kind_global : forall st l c d a, (forall n, a <> AIdent n) ->
  dir_global st l c d [a] = Ret (Some Trivial) (push_error st l c KDirArgType).
Proof. exact global_kind. Qed.
Theorem C06_invalid_kind_include : forall fs inc st l c a, (forall n, a <> AStr n) ->
  dir_include fs inc st l c [a] = Ret (Some Trivial) (push_error st l c KDirArgType).
Proof. exact include_kind. Qed.
Theorem C06_invalid_kind_const : forall st l c a0 a1, (forall n, a0 <> AIdent n) ->
  dir_const st l c [a0; a1] = Ret (Some Trivial) (push_error st l c KDirArgType).
Proof. exact const_kind. Qed.
Theorem C06_invalid_kind_bytes : forall dbg fs st s l c d a, active st = Active s -> (forall n, a <> AStr n) ->
  dir_bytes dbg fs st l c d [a] = Ret (Some Trivial) (push_error st l c KDirArgType).
Proof. exact bytes_kind. Qed.
Theorem C06_invalid_unknown_directive : forall dbg fs inc st l c name args, dir_of name = None ->
  process_directive dbg fs inc st l c name args = Ret (Some Fatal) (push_error st l c KDirNotFound).
Proof. exact unknown_directive. Qed.
Theorem C06_invalid_unknown_mnemonic : forall dbg st s l c name args, active st = Active s -> has_remaining dbg s 2 = SOk true ->
  AsmStmtModel.template name = None ->
  assemble_instr dbg st l c name args = Ret (Some Fatal) (push_error st l c (KInstr AsmStmtModel.DNotFound)).
Proof. exact unknown_mnemonic. Qed.
Theorem C06_invalid_range_data : forall dbg st d v local, de_arg d = AConst v -> (v < 0 \/ dk_max (de_kind d) < v)%Z ->
  exists d', data_apply dbg st d local = Ret (DErr Trivial, d') (push_error_in st (de_file d) (de_line d) (de_col d) (KApply ADataRange)).
Proof. exact data_range. Qed.
Theorem C06_invalid_range_align : forall dbg st s l c v, active st = Active s -> (v <= 0 \/ 4294967296 <= v)%Z ->
  dir_align dbg st l c [AConst v] = Ret (Some Fatal) (push_error st l c (KApply AAlignRange)).
Proof. exact align_range. Qed.
Theorem C06_invalid_range_addr : forall dbg st l c v, (v < 0 \/ 4294967296 <= v)%Z ->
  dir_addr dbg st l c [AConst v] = Ret (Some Fatal) (push_error st l c (KApply AAddrRange)).
Proof. exact addr_range. Qed.
Theorem C06_invalid_undefined_symbol : forall dbg st d g x t, de_arg d = AIdent x -> is_register x = false -> path_stack st <> [] ->
  locals st = Some t -> tbl_get t x = None ->
  exists d', run_task dbg st (DataTask d g) = Ret (Some Trivial) (push_error_in st (de_file d') (de_line d') (de_col d') (KApply AEval)).
Proof. exact undefined_symbol. Qed.
Theorem C06_invalid_duplicate_label : forall dbg fs inc st s l c n w t, is_register n = false -> active st = Active s ->
  locals st = Some t -> tbl_get t n = Some (Some w) ->
  step dbg fs inc st (mkElement l c (ELabel n)) = Ret (Some Fatal) (push_error st l c KConstDuplicate).
Proof. exact label_duplicate. Qed.
Theorem C06_invalid_duplicate_const : forall st l c n v w t, is_register n = false -> locals st = Some t -> tbl_get t n = Some (Some w) ->
  dir_const st l c [AIdent n; AConst v] = Ret (Some Fatal) (push_error st l c (KApply AConstDup)).
Proof. exact const_duplicate. Qed.
Theorem C06_invalid_before_addr_label : forall dbg fs inc st l c n, active st = Inactive ->
  step dbg fs inc st (mkElement l c (ELabel n)) = Ret (Some Fatal) (push_error st l c KInactive).
Proof. exact label_inactive. Qed.
Theorem C06_invalid_before_addr_instr : forall dbg fs inc st l c n args, active st = Inactive ->
  step dbg fs inc st (mkElement l c (EInstruction n args)) = Ret (Some Fatal) (push_error st l c KInactive).
Proof. exact instr_inactive. Qed.
Theorem C06_invalid_before_addr_data : forall dbg st l c k args, active st = Inactive ->
  dir_data dbg st l c k args = Ret (Some Fatal) (push_error st l c (KApply ADataInactive)).
Proof. exact data_inactive. Qed.
Theorem C06_invalid_before_addr_bytes : forall dbg fs st l c d args, active st = Inactive ->
  dir_bytes dbg fs st l c d args = Ret (Some Fatal) (push_error st l c (KApply ADataInactive)).
Proof. exact bytes_inactive. Qed.
Theorem C06_invalid_before_addr_align : forall dbg st l c args, active st = Inactive ->
  dir_align dbg st l c args = Ret (Some Fatal) (push_error st l c (KApply AAlignInactive)).
Proof. exact align_inactive. Qed.

(* non-vacuity: every listed construct through the WHOLE model pipeline (tokenizer, parser, Context, finalize),
   and the observation oracle of the correspondence stream *)
Theorem C06_examples_pipeline :
  run1 ".const R0, 5;" = Some (Failure, [KApply AConstReserved]) /\
  run1 ".global sp;" = Some (Failure, [KApply AConstReserved]) /\
  run1 ".import R0;" = Some (Failure, [KApply AGNotFound]) /\
  run1 ".export PC;" = Some (Failure, [KApply AGNotFound]) /\
  run1 ".addr 256; R0:" = Some (Failure, [KConstReserved]) /\
  run1 ".addr;" = Some (Failure, [KDirNotEnough]) /\
  run1 ".const X, 1, 2;" = Some (Failure, [KDirTooMany]) /\
  run1 ".addr 256; NOP R0;" = Some (Failure, [KInstr AsmStmtModel.DTooMany; KInstr AsmStmtModel.DTooMany]) /\
  run1 ".include 5;" = Some (Failure, [KDirArgType]) /\
  run1 ".addr 256; FOO;" = Some (Failure, [KInstr AsmStmtModel.DNotFound]) /\
  run1 ".bar;" = Some (Failure, [KDirNotFound]) /\
  run1 ".addr 256; .du8 256;" = Some (Failure, [KApply ADataRange; KApply ADataRange]) /\
  run1 ".addr 256; .du16 0 - 1;" = Some (Failure, [KApply ADataRange; KApply ADataRange]) /\
  run1 ".addr 256; .align 0;" = Some (Failure, [KApply AAlignRange]) /\
  run1 ".addr 256; B 256 + 4 + 2048;" = Some (Failure, [KInstr AsmStmtModel.DRange; KInstr AsmStmtModel.DRange]) /\
  run1 ".addr 256; .du32 UNDEF;" = Some (Failure, [KApply AEval]) /\
  run1 ".addr 256; L: NOP; L:" = Some (Failure, [KConstDuplicate]) /\
  run1 ".const K, 1; .const K, 2;" = Some (Failure, [KApply AConstDup]) /\
  run1 "NOP;" = Some (Failure, [KInactive]) /\
  run1 ".du8 1;" = Some (Failure, [KApply ADataInactive]) /\
  run1 ".include ""p.asm"";" = Some (Failure, [KApply AIncRecursive]) /\
  run1 ".addr 256; X: .global X; .du32 X;" = Some (Success, []).
Proof. exact pipeline_examples. Qed.

(* non-vacuity of the fuel theorems, and tightness of the bound: main includes a.asm which includes b.asm (3 units of fuel:
   one per open file).  With fuel 3 - the rank of the root in `main > a.asm > b.asm`, plus one - the pipeline is Done; with
   fuel 2 the model reports POutOfFuel; the files list [a.asm; b.asm] has length 2 < 3 *)
Definition fuel_fs (p : str) : option (list N) :=
  if str_eqb p (DisplayModel.bytes_of_string "a.asm") then Some (DisplayModel.bytes_of_string ".include ""b.asm""; NOP;")
  else if str_eqb p (DisplayModel.bytes_of_string "b.asm") then Some (DisplayModel.bytes_of_string "NOP;")
  else None.
Theorem C06_fuel_examples :
  let src := DisplayModel.bytes_of_string in
  let root := src ".addr 256; .include ""a.asm""; NOP;"%string in
  pipeline_gen false fuel_fs 3 (src "main.asm"%string) root = Done Success [] [(256, 261, [0; 191; 0; 191; 0; 191])]
  /\ pipeline_gen false fuel_fs 2 (src "main.asm"%string) root = POutOfFuel
  /\ pipeline_gen false (fun _ => None) 1 (src "main.asm"%string) root <> POutOfFuel.
Proof. vm_compute. repeat split; try reflexivity. discriminate. Qed.

Theorem C06_examples :
  judge [([112], [78;79;80;59;10])] StSuccess [] false None = None /\
  judge [([112], [78;79;80;59;10])] StPanic [] false None = Some VPanic /\
  judge [([112], [78;79;80;59;10])] StFailure [] false None = Some VFailureUnreported /\
  judge [([112], [78;79;80;59;10])] StFailure [ReportSpec.mkDiag [112] 1 5] false None = None /\
  judge [([112], [78;79;80;59;10])] StFailure [ReportSpec.mkDiag [112] 2 1] false None = None /\
  judge [([112], [78;79;80;59;10])] StFailure [ReportSpec.mkDiag [112] 2 2] false None = Some VDiagOutOfBounds /\
  judge [([112], [78;79;80;59;10])] StFailure [ReportSpec.mkDiag [113] 1 1] false None = Some VDiagOutOfBounds /\
  judge [([112], [78;79;80;59;10])] StSuccess [] true None = Some VInvalidAccepted /\
  judge [([112], [78;79;80;59;10])] StFailure [ReportSpec.mkDiag [112] 1 1] true (Some (ReportSpec.mkDiag [112] 1 2)) = Some VWrongPosition.
Proof. vm_compute. repeat split. Qed.
