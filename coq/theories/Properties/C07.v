(* C07 — Constant expressions follow checked signed 64-bit arithmetic.  Statements only; proofs in Expr/C07Proofs.v.
   `evaluate lookup is_register t` is the model of src/asm/simplify/eval.rs (which calls simplify_raw at every node);
   `ideal` (Expr/Denote.v) is the property text over unbounded integers: Val z | Error | Open (the two open corners). *)
From Coq Require Import ZArith List.
From Trion Require Import Text.Types Expr.I64 Expr.SimplifyModel Expr.EvalModel Expr.Denote Expr.C07Proofs.
Import ListNotations.
Open Scope Z_scope.

(* whenever every intermediate result fits: the evaluator returns exactly that constant (any table, any register set) *)
Theorem C07_value : forall lookup is_register t v,
  literal_tree t = true -> ideal t = Val v -> exists ev, evaluate lookup is_register t = Ok (AConst v, ev).
Proof. exact lit_value. Qed.

(* overflow of + - * neg /, zero divisor, shift amount < 0 or >= 64: an error, never a (wrapped) value *)
Theorem C07_error : forall lookup is_register t,
  literal_tree t = true -> ideal t = Error -> exists e, evaluate lookup is_register t = Err e.
Proof. exact lit_error. Qed.

(* no unreachable!/assert!/unwrap is hit on a literal tree, open corners included *)
Theorem C07_no_panic : forall lookup is_register t,
  literal_tree t = true -> forall site, evaluate lookup is_register t <> Panic site.
Proof. exact lit_no_panic. Qed.

(* also in the open corners the answer is an i64 constant or an error *)
Theorem C07_total : forall lookup is_register t, literal_tree t = true ->
  (exists v ev, evaluate lookup is_register t = Ok (AConst v, ev) /\ in_i64 v = true)
  \/ (exists e, evaluate lookup is_register t = Err e).
Proof. exact lit_total. Qed.

(* on literal trees the evaluator is exactly the compositional checked semantics den64 that C08 (and C04/C05) use *)
Theorem C07_refines_den64 : forall lookup is_register rho t v, literal_tree t = true ->
  ((exists ev, evaluate lookup is_register t = Ok (AConst v, ev)) <-> den64 rho t = Some v).
Proof. exact lit_refines_den64. Qed.

(* non-vacuity: the examples of the property text, on the model and on the oracle *)
Theorem C07_examples :
  let ev t := evaluate (fun _ => NotFound) (fun _ => false) t in
     ev (AAdd (AConst i64_max) (AConst 1)) = Err (EOverflow OvAdd) /\ ideal (AAdd (AConst i64_max) (AConst 1)) = Error
  /\ ev (ADiv (AConst i64_min) (AConst (-1))) = Err (EOverflow OvDivide) /\ ideal (ADiv (AConst i64_min) (AConst (-1))) = Error
  /\ ev (ADiv (AConst 7) (AConst (-2))) = Ok (AConst (-3), Complete true) /\ ideal (ADiv (AConst 7) (AConst (-2))) = Val (-3)
  /\ ev (AMod (AConst (-7)) (AConst 2)) = Ok (AConst (-1), Complete true) /\ ideal (AMod (AConst (-7)) (AConst 2)) = Val (-1)
  /\ ev (AShl (AConst 1) (AConst 62)) = Ok (AConst 4611686018427387904, Complete true)
  /\ ideal (AShl (AConst 1) (AConst 62)) = Val 4611686018427387904
  /\ ev (AShl (AConst 5) (AConst 64)) = Err (EOverflow OvShift) /\ ideal (AShl (AConst 5) (AConst 64)) = Error
  /\ ev (ANeg (AConst i64_min)) = Err (EOverflow OvNegate) /\ ideal (ANeg (AConst i64_min)) = Error
  /\ ideal (AMod (AConst i64_min) (AConst (-1))) = Open /\ ideal (AShl (AConst 1) (AConst 63)) = Open.
Proof. vm_compute. repeat split; reflexivity. Qed.
