(* C17 — Checksum is CRC-32/MPEG-2.  Statements only; proofs live in Uf2/CrcProofs.v. *)
From Coq Require Import NArith List.
From Trion Require Import Uf2.CrcModel Uf2.CrcSpec Uf2.CrcProofs.
Import ListNotations.
Open Scope N_scope.

(* every (32-bit state, byte) pair: the table-driven update is one byte through the bit-serial register *)
Theorem C17_step : forall s b, s < 2^32 -> b < 256 -> crc_update s b = spec_byte s b.
Proof. exact update_is_bitserial. Qed.

(* every byte string: fresh state, bytes in order = CRC-32/MPEG-2 *)
Theorem C17_crc : forall bs, Forall (fun b => b < 256) bs -> crc_of bs = spec_crc bs.
Proof. exact crc_is_bitserial. Qed.

(* feeding in pieces = feeding whole, for every state and every way of cutting the string *)
Theorem C17_chunks : forall s (chunks : list (list N)),
  crc_update_slice s (concat chunks) = fold_left crc_update_slice chunks s.
Proof. exact crc_chunks_list. Qed.

(* the state never leaves 32 bits (so `get_value` is the state) *)
Theorem C17_state_u32 : forall s b, crc_update s b < 2^32.
Proof. exact crc_update_lt. Qed.

(* non-vacuity: the standard check value *)
Theorem C17_check_value : crc_of [0x31;0x32;0x33;0x34;0x35;0x36;0x37;0x38;0x39] = 0x0376E6E7
                       /\ spec_crc [0x31;0x32;0x33;0x34;0x35;0x36;0x37;0x38;0x39] = 0x0376E6E7.
Proof. exact (conj check_value spec_check_value). Qed.
