(* C12 — Reported source positions point at the item.
   Statements only.  Tokenizer half (Text/TokenProofs.v): the tokenizer's (line, col) is pos_of (PosSpec.v) of the
   consumed prefix, for every separator kind; every token carries the position of its first byte.  Parser half
   (Text/ParseProofs.v): every parsed statement carries the position of its first token.  The diagnostics clause
   (a diagnostic for a directive / instruction statement names that statement's file, line and column) is carried
   by the C12 correspondence stream on the real Context (one repaired defect, known_findings.txt). *)
From Coq Require Import ZArith NArith List.
From Trion Require Import Base.Utf8 Text.Types Text.ParseModel Text.ParseProofs Text.TokenModel Text.PosSpec Text.TokenLemmas Text.TokenProofs.
Import ListNotations.
Open Scope N_scope.

(* ---------------- tokenizer ---------------- *)
(* state invariant: if (line, col) = pos_of pre for the text `pre` consumed so far, then a step that yields a token consumed
   `skipped ++ text` (separators, then the token), the token carries pos_of (pre ++ skipped) - the position of its first byte -
   and the new (line, col) is pos_of of everything consumed.  Covers the ASCII fast path, update_pos and both comment skippers. *)
Theorem C12_tok_pos_invariant : forall st pre t st', Valid (ts_data st) -> pos_st st = pos_of pre -> next_token st = Ok (Some (inl t), st') ->
  exists skipped text, ts_data st = skipped ++ text ++ ts_data st' /\ text <> [] /\
    (t_line t, t_col t) = pos_of (pre ++ skipped) /\ pos_st st' = pos_of (pre ++ skipped ++ text) /\ Valid (ts_data st').
Proof. exact tok_pos_invariant. Qed.

(* every token of Tokenizer::new(bs) is at pos_of (the input before the token's first byte) *)
Theorem C12_tok_token_pos : forall bs l, tokens_offsets bs = Ok l ->
  Forall (fun x => match fst x with inl t => (t_line t, t_col t) = pos_of (firstn (snd x) bs) | inr _ => True end) l.
Proof. exact tok_token_pos. Qed.

(* update_pos and pos_of agree on every text: pos_of is compositional *)
Theorem C12_tok_pos_compositional : forall pre d, upd (pos_of pre) d = pos_of (pre ++ d).
Proof. exact upd_pos_of. Qed.

(* non-vacuity: "é /*\n€*/ x" - x is the 4th character of line 2 (bytes: c3 a9 20 2f 2a 0a e2 82 ac 2a 2f 20 78) *)
Theorem C12_tok_examples :
  tokens_offsets [195; 169; 32; 47; 42; 10; 226; 130; 172; 42; 47; 32; 120; 32; 121] =
    Ok [(inr (mkTokErr 1 1 (Unexpected 233)), 0%nat)] /\
  tokens_offsets [34; 195; 169; 34; 32; 47; 42; 10; 226; 130; 172; 42; 47; 32; 120] =
    Ok [(inl (mkToken 1 1 (TString [195; 169])), 0%nat); (inl (mkToken 2 5 (TIdentifier [120])), 14%nat)] /\
  pos_of [34; 195; 169; 34; 32; 47; 42; 10; 226; 130; 172; 42; 47; 32] = (2, 5).
Proof. vm_compute. repeat split; reflexivity. Qed.

(* ---------------- parser ---------------- *)
(* every Ok element of a run sits at the first token of the consecutive chunk of tokens its statement consumed *)
Theorem C12_element_pos : forall s items after, parse_all s = Done items after -> run_spec (stream s) items.
Proof. exact parse_positions. Qed.

(* one poll: an Ok element carries the position of the token the poll started with *)
Theorem C12_element_pos_step : forall F s e s', (10 * length (stream s) + 9 <= F)%nat -> parser_next F s = (PollItem (IOk e), s') ->
  exists tk toks, stream s = inl tk :: map inl toks ++ stream s' /\ e_line e = t_line tk /\ e_col e = t_col tk.
Proof. intros F s e s' HF H. pose proof (parser_next_spec F s HF) as Hp. rewrite H in Hp. exact Hp. Qed.

Theorem C12_parse_examples :
  let tk l c v := inl (mkToken l c v) : tok_item in
  parse_all (src_of [tk 3 7 (TIdentifier [97]); tk 4 1 TLabelMark; tk 9 2 (TIdentifier [110]); tk 9 9 TTerminator] 10 1)
    = Done [IOk (mkElement 3 7 (ELabel [97])); IOk (mkElement 9 2 (EInstruction [110] []))] [PollNone; PollNone; PollNone].
Proof. vm_compute. reflexivity. Qed.
