(* C03 — Decoder is total and canonical over all bit patterns. *)
From Coq Require Import ZArith NArith List.
From Trion Require Import Arm.Instr Arm.EncodeModel Arm.DecodeModel Arm.CodecCheck Arm.DecProofs.
Import ListNotations.
Open Scope N_scope.

(* every byte sequence: no unwrap / unreachable! fires *)
Theorem C03_total : forall bs, bytes_ok bs -> dec bs <> DecPanic.
Proof. exact dec_no_panic. Qed.

(* success: length 2 or 4 decided by the top five bits of the first halfword, within the input;
   the instruction re-encodes with the same length, decodes to itself again, and the re-encoding is
   the input prefix itself or the input is the T1 ADDS/SUBS Rd,Rd,#imm3 alias *)
Theorem C03_canonical : forall bs n i, bytes_ok bs -> dec bs = DecOk n i ->
  n = expect_len (first_halfword bs) /\ n <= N.of_nat (length bs) /\
  exists hws, enc i = EncOk hws /\ 2 * N.of_nat (length hws) = n /\
              dec (le_bytes hws) = DecOk n i /\
              (le_bytes hws = firstn_N n bs \/ alias_addsub_imm3 (first_halfword bs) = true).
Proof. exact dec_ok_facts. Qed.

(* underflow is reported only when fewer bytes than the instruction length were supplied ... *)
Theorem C03_underflow_only_if : forall bs, bytes_ok bs ->
  forall need have, dec bs = DecErr (Underflow need have) ->
    have = N.of_nat (length bs) /\ have < need /\
    ((length bs < 2)%nat /\ need = 2 \/ (2 <= length bs)%nat /\ need = 4 /\ expect_len (first_halfword bs) = 4).
Proof. exact dec_underflow_iff. Qed.

(* ... and never when the bytes are there *)
Theorem C03_no_underflow_when_supplied : forall bs, bytes_ok bs -> (2 <= length bs)%nat ->
  expect_len (first_halfword bs) <= N.of_nat (length bs) ->
  forall need have, dec bs <> DecErr (Underflow need have).
Proof. exact dec_enough_bytes. Qed.

Theorem C03_examples :
  dec [0x24; 0x1C] = DecOk 2 (Add true R4 R4 (Imm 0)) /\ enc (Add true R4 R4 (Imm 0)) = EncOk [0x3400] /\
  alias_addsub_imm3 0x1C24 = true /\
  dec [0x00; 0xF0] = DecErr (Underflow 4 2) /\ dec [0xFF; 0xF7; 0xFF; 0xFF] = DecOk 4 (Bl (-2)) /\ dec [0xFF; 0xFF; 0xFF; 0xFF] = DecErr Undefined.
Proof. vm_compute. repeat split. Qed.
