(* C12, diagnostics clause — "a diagnostic raised for a directive or instruction statement names the file, line and
   column of that statement's first token".  Statements only; proofs in Asm/CtxDiagProofs.v, over the Context model
   (Asm/CtxModel.v).  Together with C12_element_pos (Properties/C12.v: every parsed statement carries the position of
   its first token) this gives the clause for the model; the model is tied to the Rust code by the correspondence
   streams of ./check C06 / C12.

   at_pos F L C d  : d_file d = F /\ d_line d = L /\ d_col d = C;
   task_at F L C t : the deferred task t stores that position (InstrTask / DataTask: file, line, column; the .global /
                     .import bookkeeping tasks: line, column — they report in the file that is current when they run,
                     which is the file that created them: C12_diag_file_name_kept, they never leave their file's list);
   rel Pd Pt st st' : curr_name unchanged, `errors` grew by diagnostics satisfying Pd, `global_tasks` / `local_tasks`
                     grew by tasks satisfying Pt.
   The file name is the path under which Context::assemble was entered (curr_name; the Rust code reports its base name,
   the model keeps what enter_file stores).
   Parse errors: ONE diagnostic of class Parse in the current file at the parser's error position (pe_line, pe_col):
   the offending token for "expected ..." errors, the end of input for a missing terminator, and for a token error the
   position recorded by the parser (Text/ParseModel.v: tokerr_err / the statement start) — C12_diag_parse.

   END TO END (C12_diag_final*, proofs in Asm/CtxDiagFinal.v), over the final diagnostic list of the whole pipeline model
   (CtxModel.pipeline_gen = what the C06 / C12 streams extract: Context::assemble of the root with all includes, closing the
   last region, finalize; both build profiles, every project `fs`, root name, root text, include fuel):
   opened fs root text path data : data is the text assembled under the name `path` - the root, or the target of an .include
                      statement (name resolved against the includer's path, found in fs) of an opened file; every file the run
                      enters is in this set;
   pos_src .. F L C : (L, C) = (e_line, e_col) of a statement element of the parse of a file opened as F;
   diag_src .. d    : d is at a pos_src position under that file's name, or d is the Parse diagnostic of an opened file at the
                      parser's error position;
   diag_pos .. d    : the same with the position spelled out as PosSpec.pos_of of the file text before the byte offset at which
                      the statement's first token starts.
   The model has no position-less diagnostic: a close error is reported by the status only (C12_diag_close_error_silent), and
   finalize reports through the re-scheduled statements, which store file, line and column. *)
From Coq Require Import ZArith NArith List String.
From Trion Require Import Text.Types Asm.CtxModel Asm.CtxDiagProofs Asm.CtxDiagFinal.
From Trion Require Text.ParseModel Text.ParseProofs Text.TokenModel Text.PosSpec.
Import ListNotations.
Open Scope N_scope.

(* a statement other than .include (label, instruction, every other directive): every diagnostic pushed while it is
   processed names the current file and the statement's line and column; every task it schedules (deferred instruction,
   deferred .du8/.du16/.du32, the end-of-file tasks of .global / .import) stores that position *)
Theorem C12_diag_step : forall dbg fs inc st e r st', is_include e = false -> step dbg fs inc st e = Ret r st' ->
  rel (at_pos (curr_name st) (e_line e) (e_col e)) (task_at (curr_name st) (e_line e) (e_col e)) st st'.
Proof. exact step_diag. Qed.

(* the .include statement: its own diagnostics (argument count / kind, recursive include, file not found, "include
   failed") are at its position; they follow whatever the included file reported (st1 = the state the nested
   Context::assemble returned) *)
Theorem C12_diag_include : forall dbg fs fuel st l c args r st',
  dir_include fs (assemble dbg fs fuel) st l c args = Ret r st' ->
  let R := rel (at_pos (curr_name st) l c) (task_at (curr_name st) l c) in
  R st st' \/ exists data path r1 st1, assemble dbg fs fuel st data path = Ret r1 st1 /\ R st1 st'.
Proof. exact include_diag. Qed.

(* a deferred task (run at the end of its file, in the includer, or by finalize): every diagnostic it pushes carries the
   position stored in the task, and so does the task it re-schedules *)
Theorem C12_diag_task : forall dbg st t r st', run_task dbg st t = Ret r st' ->
  rel (at_pos (task_file st t) (task_line t) (task_col t)) (task_at (task_file st t) (task_line t) (task_col t)) st st'.
Proof. exact task_diag. Qed.

(* a parse error: exactly one diagnostic, class Parse, current file, the parser's error position; the file ends there *)
Theorem C12_diag_parse : forall dbg fs inc rest st pe,
  run_items dbg fs inc (ParseModel.IErr pe :: rest) st
    = Ret (Some Fatal) (set_errors st (mkDiag (curr_name st) (ParseModel.pe_line pe) (ParseModel.pe_col pe) KParse :: errors st)).
Proof. exact parse_diag. Qed.

(* the name under which diagnostics are reported is the same after every statement (an .include restores it), every
   task and every nested Context::assemble *)
Theorem C12_diag_file_name_kept : forall dbg fs fuel,
  (forall st e r st', step dbg fs (assemble dbg fs fuel) st e = Ret r st' -> curr_name st' = curr_name st) /\
  (forall st t r st', run_task dbg st t = Ret r st' -> curr_name st' = curr_name st) /\
  (forall st data path r st', assemble dbg fs fuel st data path = Ret r st' -> curr_name st' = curr_name st).
Proof. exact file_name_kept. Qed.

(* ---------------------------------------------------------------------------------------------- *)
(* END TO END.  For every project, root, text, build profile and include fuel: if the pipeline ends (no matter with which
   status), EVERY diagnostic of its final list is at a statement element of a file of the project, under the path the file was
   opened with, or is the parse error of such a file at the parser's error position.  (With insufficient fuel the outcome is
   POutOfFuel and there is no list; C06_never_panics excludes PPanic.) *)
Theorem C12_diag_final : forall fs root text dbg fuel s diags regions,
  pipeline_gen dbg fs fuel root text = Done s diags regions -> Forall (diag_src fs root text) diags.
Proof. exact diag_final. Qed.

(* the position of a statement element is the position of a token of its file (the first of the element's chunk: C12_element_pos),
   and that is pos_of (the file text before the token's byte offset) *)
Theorem C12_diag_stmt_pos_of : forall data items tail el, parse_source data = Parsed items tail -> In (ParseModel.IOk el) items ->
  exists toks tk off, TokenModel.tokens_offsets data = TokenModel.Ok toks /\ In (inl tk, off) toks /\
    e_line el = t_line tk /\ e_col el = t_col tk /\ (e_line el, e_col el) = PosSpec.pos_of (firstn off data).
Proof. exact stmt_pos_of. Qed.

(* the items parse_source hands to the Context are a parser run over exactly the tokenizer's items of that text *)
Theorem C12_diag_parse_source_tokens : forall data items tail, parse_source data = Parsed items tail ->
  exists toks, TokenModel.tokens_offsets data = TokenModel.Ok toks /\ ParseProofs.run_spec (map fst toks) items.
Proof. exact parse_source_tokens. Qed.

(* ... hence: every diagnostic of the final list is at pos_of (text of an opened file before a token of that file), or is
   that file's parse error *)
Theorem C12_diag_final_pos : forall fs root text dbg fuel s diags regions,
  pipeline_gen dbg fs fuel root text = Done s diags regions -> Forall (diag_pos fs root text) diags.
Proof. exact diag_final_pos. Qed.

(* no position-less diagnostics: when closing the last region fails, the pipeline ends with status CloseError and the error
   list Context::assemble left *)
Theorem C12_diag_close_error_silent : forall dbg fs fuel root text st1 r st2 e,
  assemble dbg fs fuel init_state text root = Ret r st1 -> close_segment dbg st1 = Ret (inr e) st2 ->
  exists st, pipeline_state dbg fs fuel root text = Ret CloseError st /\ errors st = errors st1.
Proof. exact close_error_no_diag. Qed.

Open Scope string_scope.
(* non-vacuity, whole pipeline (tokenizer, parser, Context, finalize): (file, line, column) of every diagnostic.
   1: `NOP R0` (line 2, col 3) and the unknown directive (line 3, col 14);  2: i.asm reports `.du8 300` at (2, 4) - at
   once and at the end-of-file retry -, then p.asm the failed include at (2, 2);  3: a parse error at the offending token *)
Theorem C12_diag_examples :
  diag_positions (fun _ => None) "p.asm" ".addr 256;
  NOP R0;
.du16 UNDEF; .bar;" = Some [([112; 46; 97; 115; 109], 2, 3); ([112; 46; 97; 115; 109], 3, 14)] /\
  diag_positions fs_inc "p.asm" ".addr 256; B far;
 .include ""i.asm"";" = Some [([105; 46; 97; 115; 109], 2, 4); ([105; 46; 97; 115; 109], 2, 4); ([112; 46; 97; 115; 109], 2, 2)] /\
  diag_positions (fun _ => None) "p.asm" ".addr 256;
  NOP; + ;" = Some [([112; 46; 97; 115; 109], 2, 8)].
Proof. vm_compute. repeat split; reflexivity. Qed.

(* the two-file project above: each diagnostic (file, line, column) next to the element positions of THAT file's parse:
   i.asm has elements at (1,1) (2,4), p.asm at (1,1) (1,12) (2,2) *)
Theorem C12_diag_final_examples :
  ex_positions = Some [([105; 46; 97; 115; 109], 2, 4, [(1, 1); (2, 4)]); ([105; 46; 97; 115; 109], 2, 4, [(1, 1); (2, 4)]);
                       ([112; 46; 97; 115; 109], 2, 2, [(1, 1); (1, 12); (2, 2)])]%N.
Proof. vm_compute. reflexivity. Qed.
