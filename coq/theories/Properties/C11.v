(* C11 — Literals denote exactly the written value.  Statements only; proofs live in Text/TokenLit.v (and Base/Utf8.v).
   `show_int / show_char / show_string` (Text/LitSpec.v) say how a literal is written; `tokens_all` is the whole item
   sequence of Tokenizer::new(text) followed by three more polls (Text/TokenModel.v). *)
From Coq Require Import ZArith NArith List.
From Trion Require Import Base.Utf8 Text.Types Text.TokenModel Text.PosSpec Text.LitSpec Text.TokenLemmas Text.TokenNext Text.TokenLit.
Import ListNotations.
Open Scope N_scope.

(* every integer below 2^63 in binary, octal, decimal, hexadecimal, lower or upper case digits, any number of leading zeros *)
Theorem C11_int : forall r upper zeros n, radix_ok r = true -> n < 2 ^ 63 ->
  tokens_all (show_int r upper zeros n) = Ok ([inl (mkToken 1 1 (TNumber (Z.of_N n)))], [None; None; None]).
Proof. exact int_literal. Qed.

(* 2^63 and above: BadNumber, never a wrapped value, and nothing after the error *)
Theorem C11_int_reject : forall r upper zeros n, radix_ok r = true -> 2 ^ 63 <= n ->
  tokens_all (show_int r upper zeros n) = Ok ([inr (mkTokErr 1 1 BadNumber)], [None; None; None]).
Proof. exact int_literal_reject. Qed.

(* the same inside a longer text, at any position: the literal is followed by the end of the input or by a byte that cannot
   continue a number or an identifier; the rest of the text is left for the next token *)
Theorem C11_int_followed : forall st pre r upper zeros n rest, radix_ok r = true -> Valid (ts_data st) -> pos_st st = pos_of pre ->
  ts_data st = show_int r upper zeros n ++ rest -> follows_literal rest (ts_utf_err st) ->
  if n <? 2 ^ 63 then
    exists st', do_next st = Ok (inl (pos_tok st (TNumber (Z.of_N n))), st') /\ ts_data st' = rest /\
                pos_st st' = pos_of (pre ++ show_int r upper zeros n) /\ ts_utf_err st' = ts_utf_err st
  else do_next st = Ok (inr (pos_err st BadNumber), clear st).
Proof. exact int_literal_followed. Qed.

(* a radix prefix without digits is rejected *)
Theorem C11_prefix_without_digits : forall st r rest, (r = 2 \/ r = 8 \/ r = 16) -> Valid (ts_data st) ->
  ts_data st = radix_prefix r ++ rest -> (forall b t, rest = b :: t -> is_digit r b = false /\ is_ident_byte b = false) ->
  (rest = [] -> ts_utf_err st = false) ->
  do_next st = Ok (inr (pos_err st BadNumber), clear st).
Proof. exact prefix_without_digits. Qed.

(* every character literal: a plain scalar value (tab, printable ASCII except the backslash, everything from U+0080 - all
   1 112 064 - 128 + 96 of them) or one of the six escapes yields that scalar value *)
Theorem C11_char : forall l, char_lit_ok l = true ->
  tokens_all (show_char l) = Ok ([inl (mkToken 1 1 (TNumber (Z.of_N (char_value l))))], [None; None; None]).
Proof. exact char_literal. Qed.

(* ... at any position, whatever follows the closing quote *)
Theorem C11_char_followed : forall st pre l rest, char_lit_ok l = true -> Valid (ts_data st) -> pos_st st = pos_of pre ->
  ts_data st = show_char l ++ rest ->
  exists st', do_next st = Ok (inl (pos_tok st (TNumber (Z.of_N (char_value l)))), st') /\ ts_data st' = rest /\
              pos_st st' = pos_of (pre ++ show_char l) /\ ts_utf_err st' = ts_utf_err st.
Proof. exact char_step. Qed.

(* every string literal over plain characters and the eight escape forms (backslash + 0 t n r double-quote quote backslash, and
   backslash-u{1..6 hex digits, either case}):
   exactly one String token carrying exactly the denoted text (borrowed and owned result paths alike) *)
Theorem C11_string : forall items, ok_items items ->
  tokens_all (show_string items) = Ok ([inl (mkToken 1 1 (TString (string_value items)))], [None; None; None]).
Proof. exact string_literal. Qed.

(* ... at any position, whatever follows the closing quote *)
Theorem C11_string_followed : forall st pre items rest, ok_items items -> Valid (ts_data st) -> pos_st st = pos_of pre ->
  ts_data st = show_string items ++ rest ->
  exists st', do_next st = Ok (inl (pos_tok st (TString (string_value items))), st') /\ ts_data st' = rest /\
              pos_st st' = pos_of (pre ++ show_string items) /\ ts_utf_err st' = ts_utf_err st.
Proof. exact string_step. Qed.

(* C11_malformed.  Every error below is the last item of the stream (C10_tok_shape); ts_utf_err st = false says the input is UTF-8.

   Strings: after ANY number of well-formed items (`render items` is their text) a raw control character or DEL, a backslash too
   close to the end, an unknown escape letter, backslash-u without an opening brace, or backslash-u-{ not followed by the notation of
   a scalar value and a closing brace (bad_tail, Text/TokenLit.v) gives BadString. *)
Theorem C11_malformed_string : forall st items T, ok_items items -> Valid (ts_data st) -> ts_utf_err st = false ->
  ts_data st = 34 :: render items ++ T -> bad_tail T -> T <> [] ->
  do_next st = Ok (inr (pos_err st BadString), clear st).
Proof. exact string_malformed. Qed.

(* instances of the last form: a surrogate or a value above 0x10FFFF (any digit case, leading zeros, at most six digits),
   no digits at all, seven or more bytes without a closing brace *)
Theorem C11_bad_u_value : forall c z u T, is_scalar c = false -> (length (u_digits c z u) <= 6)%nat -> bad_u (u_digits c z u ++ 125 :: T).
Proof. exact bad_u_value. Qed.
Theorem C11_bad_u_empty : forall T, bad_u (125 :: T).
Proof. exact bad_u_empty. Qed.
Theorem C11_bad_u_long : forall ds T, Forall (fun b => (b =? 125) = false) ds -> (7 <= length ds)%nat -> bad_u (ds ++ T).
Proof. exact bad_u_long. Qed.

(* missing closing quote: the input ends after well-formed items and plain text *)
Theorem C11_unclosed_string : forall st items run, ok_items items -> Valid (ts_data st) -> ts_utf_err st = false ->
  ts_data st = 34 :: render items ++ run -> nonspecial run -> Valid run ->
  do_next st = Ok (inr (pos_err st BadString), clear st).
Proof. exact string_unclosed_all. Qed.

(* character literals: nothing after the quote, a raw control character or DEL, no closing quote after the character
   (also two quotes at the end of the input, two characters), a backslash at the end, an unknown escape, an escape without closing quote *)
Theorem C11_malformed_char : forall st tail, Valid (ts_data st) -> ts_utf_err st = false -> ts_data st = 39 :: tail -> bad_char_tail tail ->
  do_next st = Ok (inr (pos_err st BadCharacter), clear st).
Proof. exact char_malformed. Qed.

(* UTF-8: decoding the encoding of a scalar value gives it back (kernel sweep over all scalar values), and every decoded
   sequence is the encoding of its value (sweep over all well-formed 2-, 3-, 4-byte sequences) *)
Theorem C11_decode_encode : forall c r, is_scalar c = true ->
  decode_char (encode_char c ++ r) = Some (c, len_utf8 c) /\ seq_len (encode_char c) = len_utf8 c.
Proof. exact decode_encode. Qed.

Theorem C11_encode_decode : forall bs c k, decode_char bs = Some (c, k) ->
  k = seq_len bs /\ len_utf8 c = k /\ is_scalar c = true /\ exists r, bs = encode_char c ++ r.
Proof. exact decode_char_spec. Qed.

(* non-vacuity: 0x7fffffffffffffff is accepted, 0x8000000000000000 is BadNumber, the character literal of U+00E9 is 233, the string a, backslash-u{0E9}, backslash-n is a, U+00E9, LF *)
Theorem C11_examples :
  tokens_all (show_int 16 false 0 (2^63 - 1)) = Ok ([inl (mkToken 1 1 (TNumber (2^63 - 1)%Z))], [None; None; None]) /\
  tokens_all (show_int 16 true 2 (2^63)) = Ok ([inr (mkTokErr 1 1 BadNumber)], [None; None; None]) /\
  tokens_all (show_char (CPlain 233)) = Ok ([inl (mkToken 1 1 (TNumber 233))], [None; None; None]) /\
  tokens_all (show_string [SPlain 97; SEscU 233 1 true; SEsc EscN]) = Ok ([inl (mkToken 1 1 (TString [97; 195; 169; 10]))], [None; None; None]).
Proof. vm_compute. repeat split; reflexivity. Qed.
