(* C01 — Emitted machine code is the ARMv6-M encoding of the instruction.
   Statements only; proofs in Arm/CodecProofs.v (kernel sweeps over every discrete operand and
   every immediate in a window, symbolic rejection outside the windows). *)
From Coq Require Import ZArith NArith List.
From Trion Require Import Arm.Instr Arm.EncodeModel Arm.Armv6mSpec Arm.CodecCheck Arm.CodecProofs.
Import ListNotations.
Open Scope N_scope.

(* For EVERY instruction value (fields within their Rust types): the encoder's answer is the table's
   answer.  One equation carries the three clauses: accepted => exactly the manual's halfwords;
   no ARMv6-M encoding => Unrepresentable; has an encoding => accepted. *)
Theorem C01_enc_is_spec : forall i, wf_instr i -> enc i = of_spec (armv6m_enc i).
Proof. exact enc_is_table. Qed.

(* bytes: little-endian, first halfword first; Overflow exactly when the buffer is too short *)
Theorem C01_bytes : forall i n, wf_instr i ->
  enc_bytes i n = match armv6m_enc i with
                  | None => EbUnrep
                  | Some hws => let need := 2 * N.of_nat (length hws) in
                                if N.ltb n need then EbOverflow need n else EbOk need (spec_bytes hws)
                  end.
Proof. exact enc_bytes_table. Qed.

(* 2 or 4 bytes *)
Theorem C01_length : forall i hws, wf_instr i -> enc i = EncOk hws -> length hws = 1%nat \/ length hws = 2%nat.
Proof. exact enc_length. Qed.

(* non-vacuity and the repaired witnesses *)
Theorem C01_examples :
  enc (Add true R1 R2 (Imm 5)) = EncOk [0x1D51] /\ enc (Bl 4) = EncOk [0xF000; 0xF802] /\
  enc (Msr PRIMASK R0) = EncOk [0xF380; 0x8810] /\ enc (Cps true) = EncOk [0xB662] /\
  enc (Adc R8 R0) = EncUnrep /\ enc (Cmp PC (Reg R0)) = EncUnrep /\ enc (Add true R0 R0 (Reg R8)) = EncUnrep.
Proof. vm_compute. repeat split. Qed.
