(* C13 — Output regions never overlap or overflow silently.  Statements only; proofs in Asm/SegProofs.v.
   Model: Asm/CtxSeg.v + Asm/CtxModel.v (transliteration of src/asm/mod.rs, the directives and the deferred-statement
   code of src/arm6m/mod.rs after the repairs d7ad029, 14f510b, a613c66, fe020dd).

   SegInv m s : |buf| <= max_len, 0 < max_len, base + max_len <= 2^32, and every segment of the map m ends below base or
                starts at/after base + max_len (so the active range is disjoint from the occupied set and its
                capacity ends at the next occupied address or at 2^32);
   Inv st     : Rep (output st) (C15's map invariant) and SegInv for the active segment, if any;
   occupied m a : some segment of m covers address a.

   PutFresh (explicit hypothesis, stated in Asm/SegProofs.v): MemoryMap::put of n bytes into addresses none of which
   is occupied (adjacent neighbours allowed) returns Ok(n), keeps Rep and adds exactly those addresses.  C15 proves
   this for the non-adjacent case (C15_put_partial); the adjacent arms are covered by C15's correspondence stream.
   Theorems that need the adjacent case carry PutFresh as a hypothesis; C13_close_no_panic_separated does not.

   NOT proved (correspondence only, see props/C13.json):
   * C13_inv for whole programs: forall fs path text, every state reached by `pipeline` satisfies Inv and every
     pending task's range is occupied / inside the active buffer (needs the induction over step / run_task);
   * C13_capacity for the statement level (align, .dfile, .dstr, instructions, .du8 .du16 .du32): each is a call of seg_write /
     seg_write_at below, whose capacity theorems are proved; the lifting through the dir_ functions and write_stmt is not;
   * C13_deferred_address: forall st t, Inv st -> task range allocated -> run_task rewrites exactly [addr, addr+len). *)
From Coq Require Import ZArith NArith List Bool String.
From Trion Require Import Text.Types Arm.DisplayModel Mem.MapModel Mem.MapProofs Asm.CtxModel Asm.SegProofs.
Import ListNotations.
Open Scope N_scope.

(* selecting a free address in a closed context: the new segment is empty, starts there, and the invariant holds *)
Theorem C13_inv_select : forall dbg st addr, Rep (output st) -> active st = Inactive -> addr < CtxSeg.U32 ->
  ~ occupied (output st) addr ->
  exists s, change_segment dbg st addr = Ret (inl true) (set_active st (Active s)) /\
            s_base s = addr /\ s_buf s = [] /\ curr_addr s = addr /\ Inv (set_active st (Active s)).
Proof. exact change_ok_inactive. Qed.

(* append keeps the invariant (and is exactly an append) while the data fits *)
Theorem C13_inv_write : forall dbg m s data, SegInv m s -> blen s + MapModel.len data <= s_max s ->
  seg_write dbg s data = SOk (set_buf s (s_buf s ++ data)) /\ SegInv m (set_buf s (s_buf s ++ data)).
Proof. exact write_ok. Qed.

(* write_at (all three branches): the buffer becomes prefix ++ data ++ rest-after-the-data, the prefix is untouched,
   the invariant is kept *)
Theorem C13_inv_write_at : forall dbg m s addr data, SegInv m s ->
  s_base s <= addr -> addr <= curr_addr s -> (addr - s_base s) + MapModel.len data <= s_max s ->
  let start := addr - s_base s in
  seg_write_at dbg s addr data = SOk (set_buf s (splice (s_buf s) start data)) /\
  SegInv m (set_buf s (splice (s_buf s) start data)) /\
  MapModel.takeN start (splice (s_buf s) start data) = MapModel.takeN start (s_buf s).
Proof. exact write_at_ok. Qed.

(* capacity: a write that would cross max_len is SegmentError::Overflow; the segment value is not changed (the
   functions are pure: the caller keeps `s`) and the map is not involved *)
Theorem C13_capacity_write : forall dbg m s data, SegInv m s -> s_max s < blen s + MapModel.len data ->
  seg_write dbg s data = SOverflow (MapModel.len data) (s_max s - blen s).
Proof. exact write_overflow. Qed.

Theorem C13_capacity_write_at : forall dbg m s addr data, SegInv m s ->
  s_base s <= addr -> addr <= curr_addr s -> s_max s < (addr - s_base s) + MapModel.len data ->
  exists need have, seg_write_at dbg s addr data = SOverflow need have.
Proof. exact write_at_overflow. Qed.

(* the choice between the active segment and the map for a (re)written statement (fix fe020dd): inside the buffer,
   or at its end only while the segment can still grow *)
Theorem C13_covers : forall dbg m s addr, SegInv m s ->
  covers dbg s addr = SOk ((s_base s <=? addr) && ((addr - s_base s <? blen s) || ((addr - s_base s =? blen s) && (blen s <? s_max s)))).
Proof. exact covers_spec. Qed.

(* selecting an address inside a closed region: Occupied, state unchanged *)
Theorem C13_select_refused : forall dbg st addr, Rep (output st) -> active st = Inactive -> addr < CtxSeg.U32 ->
  occupied (output st) addr -> change_segment dbg st addr = Ret (inr (SegOccupied addr)) st.
Proof. exact change_refused_closed. Qed.

(* ... and with a segment being written: an address in a closed region or among the bytes already written there
   (its base included, fix 14f510b) is Occupied; the only state change is that the active segment was closed *)
Theorem C13_select_refused_active : PutFresh -> forall dbg st s addr, Inv st -> active st = Active s -> addr < CtxSeg.U32 ->
  (occupied (output st) addr \/ (s_base s <= addr /\ addr < s_base s + blen s)) ->
  exists st', change_segment dbg st addr = Ret (inr (SegOccupied addr)) st' /\ active st' = Inactive /\
    forall x, occupied (output st') x <-> occupied (output st) x \/ (s_base s <= x /\ x < s_base s + blen s).
Proof. exact change_refused_active. Qed.

(* after a successful selection the next byte goes to exactly that address: the segment is empty with base = addr,
   so curr_addr = addr and the first write is the buffer [data] at base addr *)
Theorem C13_next_byte : forall dbg st addr data, Rep (output st) -> active st = Inactive -> addr < CtxSeg.U32 ->
  ~ occupied (output st) addr ->
  exists s, change_segment dbg st addr = Ret (inl true) (set_active st (Active s)) /\ curr_addr s = addr /\
    (MapModel.len data <= s_max s -> seg_write dbg s data = SOk (mkSeg addr data (s_max s))).
Proof.
  intros dbg st addr data HR HA Hlt Hf.
  destruct (change_ok_inactive dbg st addr HR HA Hlt Hf) as (s & E & B & Bu & C & (_ & HI)).
  exists s. split; [exact E|]. split; [exact C|]. intros Hfit. cbn [active set_active] in HI.
  destruct (write_ok dbg (output st) s data HI) as (W & _).
  - unfold blen. rewrite Bu. cbn. exact Hfit.
  - rewrite W. unfold set_buf. rewrite Bu, B. reflexivity.
Qed.

(* closing: under the invariant the close-time assert_eq!(n, len) holds — no panic, the map keeps its invariant and
   gains exactly the written addresses *)
Theorem C13_close_no_panic : PutFresh -> forall dbg st, Inv st ->
  exists st' b, close_segment dbg st = Ret (inl b) st' /\ Inv st' /\ active st' = Inactive /\
    (forall x, occupied (output st') x <->
       occupied (output st) x \/ match active st with
                                 | Active s => s_base s <= x /\ x < s_base s + blen s
                                 | Inactive => False
                                 end).
Proof. exact close_ok. Qed.

(* the same without any hypothesis about put when at least one free address separates the region from its neighbours *)
Theorem C13_close_no_panic_separated : forall dbg st s, Inv st -> active st = Active s -> s_buf s <> [] ->
  (forall g, In g (output st) -> slast g + 1 < s_base s \/ s_base s + blen s < sfirst g) ->
  exists m', close_segment dbg st = Ret (inl true) (set_active (set_output st m') Inactive) /\ Rep m'.
Proof. exact close_separated. Qed.

Open Scope string_scope.
(* non-vacuity: the four repaired defects on the model (source texts of the corpus) *)
Theorem C13_examples :
  let src := bytes_of_string in
  let nofs : str -> option (list N) := fun _ => None in
  let run t := pipeline nofs (src "root.asm") (src t) in
  let d l c k := mkDiag (src "root.asm") l c k in
     run ".addr 0x20000010; NOP; .addr 0x2000000E; NOP; NOP;"
       = Done Failure [d 1 47 KInstrSegOverflow] [(0x2000000E, 0x20000011, [0; 191; 0; 191])]
  /\ run ".addr 0x100; NOP; .addr 0x100; NOP;" = Done Failure [d 1 19 (KApply ASegOccupied)] [(0x100, 0x101, [0; 191])]
  /\ run ".addr 0x100; .addr 0x100; NOP;" = Done Success [] [(0x100, 0x101, [0; 191])]
  /\ run ".addr 0xFFFFFFFF; .du8 1; .du8 2;" = Done Failure [d 1 27 (KApply ASegOverflow)] [(0xFFFFFFFF, 0xFFFFFFFF, [1])]
  /\ run ".addr 0x20000010; B later; NOP; .addr 0x2000000E; NOP; later:"
       = Done Success [] [(0x2000000E, 0x20000013, [0; 191; 254; 231; 0; 191])].
Proof. vm_compute. repeat split; reflexivity. Qed.
