(* C13 — Output regions never overlap or overflow silently.  Statements only; proofs in Asm/SegProofs.v, SegPut.v,
   InstrSize.v, CtxInvDefs.v, CtxInvSeg.v, CtxInvStep.v, CtxInvCap.v, CtxInvTop.v.
   Model: Asm/CtxSeg.v + Asm/CtxModel.v (transliteration of src/asm/mod.rs, the directives and the deferred-statement
   code of src/arm6m/mod.rs after the repairs d7ad029, 14f510b, a613c66, fe020dd, 8bb2c3e).

   SegInv m s : |buf| <= max_len, 0 < max_len, base + max_len <= 2^32, and every segment of the map m ends below base or
                starts at/after base + max_len (so the active range is disjoint from the occupied set and its
                capacity ends at the next occupied address or at 2^32);
   Inv st     : Rep (output st) (C15's map invariant) and SegInv for the active segment, if any;
   occupied m a : some segment of m covers address a.
   task_range t : the address range (addr, len) of a pending task: len = the size of the mnemonic's encoding (isz: 2 or 4,
                fixed by the constructor of the instruction; encode / ArmInstr::assemble / the partially converted
                template all keep it) or 1/2/4 for .du8/.du16/.du32; None for the .global / .import bookkeeping tasks;
   allocated st a n : [a, a+n) lies wholly inside the active buffer, or every address of it is occupied in the map;
   good st    : Inv st, and the range of every task in global_tasks / local_tasks is allocated;
   mono st st' : every range allocated in st is allocated in st' (this carries the tasks that are not in the state
                at that moment: the list being drained by assemble / finalize and the lists saved in a PathFrame
                across `.include`);
   seg_site p : p is one of the panic sites of the segment / map code: P_close_assert (assert_eq!(n, len) at close),
                P_put_assert_instr / P_put_assert_data (assert_eq!(n, 0) in write_instr / write_data), any panic inside
                MemoryMap::{find, put} (P_map _), the usize subtractions P_remaining / P_next_sub / P_write_at_sub,
                P_not_inactive, and the assert of write_at P_write_at_assert (addr <= curr_addr());
   stmt_size fs st s e : the number of bytes statement e appends when that is known before it runs (instruction: size
                of the mnemonic; .du*: 1/2/4; .dstr/.dhex/.dfile: the bytes given; .align n: distance to the next
                multiple); cshape / wshape: the possible effects of a statement / of a resolving task (CtxInvCap.v).

   MemoryMap::put facts come from C15 (Mem/MapOccupied.put_fresh_ok for the close, Mem/MapPutProofs.put_ok for the
   rewrite of pre-allocated bytes); no theorem here carries a hypothesis about put any more.

   Whole programs, `.include` included (the recursion of Context::assemble is covered by induction on its fuel): every
   state reached by `pipeline` from init_state is `good` (C13_inv_step / C13_inv_task / C13_inv_assemble /
   C13_inv_finalize / C13_inv_pipeline), no seg_site panic occurs (C13_no_assert_fires, C13_write_at_assert_never).
   The assert inside write_at used to fire for a task resolving inside a buffer of exactly 2^32 bytes (`buffer.len()
   as u32` = 0; witness `.addr 0; .du32 0; .du32 X; .align 0xFFFFFFFF; .du8 0; .const X, 1;`, found by the C06
   proof); repaired by 8bb2c3e (curr_addr saturates), now excluded unconditionally.

   NOT proved:
   * panics that depend on the scope discipline (P_no_local_scope, P_active_unwrap, ...) belong to C06 / C14
     (C06_never_panics).
   * C13_capacity_stmt covers a statement whose size is known before it runs (stmt_size = Some n).  It says: the map is
     untouched, and either nothing is written, an error level is returned and a diagnostic has been pushed, or all n
     bytes are appended within max_len.  The class of the diagnostic (ASegOverflow / KInstrSegOverflow, or an earlier
     error of the same statement) is not stated here (correspondence stream).  `.align` with a deferred / ill-typed
     argument, `.dfile` of a missing file, `.dhex` of a malformed string and unknown mnemonics have no stmt_size: they
     write nothing or fall under C13_inv_step only.
   * ownership (which statement owns which address, "no byte written twice" as a ghost-owner statement) is checked by
     the generator's oracle in the correspondence stream, not proved. *)
From Coq Require Import ZArith NArith List Bool String.
From Trion Require Arm.Instr Arm.AsmStmtModel.
From Trion Require Import Text.Types Arm.DisplayModel Mem.MapModel Mem.DictSpec Mem.MapProofs Asm.CtxModel Asm.SegProofs Asm.SegPut
  Asm.InstrSize Asm.CtxInvDefs Asm.CtxInvSeg Asm.CtxInvStep Asm.CtxInvCap Asm.CtxInvTop.
Import ListNotations.
Open Scope N_scope.

(* selecting a free address in a closed context: the new segment is empty, starts there, and the invariant holds *)
Theorem C13_inv_select : forall dbg st addr, Rep (output st) -> active st = Inactive -> addr < CtxSeg.U32 ->
  ~ occupied (output st) addr ->
  exists s, change_segment dbg st addr = Ret (inl true) (set_active st (Active s)) /\
            s_base s = addr /\ s_buf s = [] /\ curr_addr s = addr /\ Inv (set_active st (Active s)).
Proof. exact change_ok_inactive. Qed.

(* append keeps the invariant (and is exactly an append) while the data fits *)
Theorem C13_inv_write : forall dbg m s data, SegInv m s -> blen s + MapModel.len data <= s_max s ->
  seg_write dbg s data = SOk (set_buf s (s_buf s ++ data)) /\ SegInv m (set_buf s (s_buf s ++ data)).
Proof. exact write_ok. Qed.

(* write_at (all three branches): the buffer becomes prefix ++ data ++ rest-after-the-data, the prefix is untouched,
   the invariant is kept *)
Theorem C13_inv_write_at : forall dbg m s addr data, SegInv m s ->
  s_base s <= addr -> addr <= curr_addr s -> (addr - s_base s) + MapModel.len data <= s_max s ->
  let start := addr - s_base s in
  seg_write_at dbg s addr data = SOk (set_buf s (splice (s_buf s) start data)) /\
  SegInv m (set_buf s (splice (s_buf s) start data)) /\
  MapModel.takeN start (splice (s_buf s) start data) = MapModel.takeN start (s_buf s).
Proof. exact write_at_ok. Qed.

(* capacity: a write that would cross max_len is SegmentError::Overflow; the segment value is not changed (the
   functions are pure: the caller keeps `s`) and the map is not involved *)
Theorem C13_capacity_write : forall dbg m s data, SegInv m s -> s_max s < blen s + MapModel.len data ->
  seg_write dbg s data = SOverflow (MapModel.len data) (s_max s - blen s).
Proof. exact write_overflow. Qed.

Theorem C13_capacity_write_at : forall dbg m s addr data, SegInv m s ->
  s_base s <= addr -> addr <= curr_addr s -> s_max s < (addr - s_base s) + MapModel.len data ->
  exists need have, seg_write_at dbg s addr data = SOverflow need have.
Proof. exact write_at_overflow. Qed.

(* the choice between the active segment and the map for a (re)written statement (fix fe020dd): inside the buffer,
   or at its end only while the segment can still grow *)
Theorem C13_covers : forall dbg m s addr, SegInv m s ->
  covers dbg s addr = SOk ((s_base s <=? addr) && ((addr - s_base s <? blen s) || ((addr - s_base s =? blen s) && (blen s <? s_max s)))).
Proof. exact covers_spec. Qed.

(* selecting an address inside a closed region: Occupied, state unchanged *)
Theorem C13_select_refused : forall dbg st addr, Rep (output st) -> active st = Inactive -> addr < CtxSeg.U32 ->
  occupied (output st) addr -> change_segment dbg st addr = Ret (inr (SegOccupied addr)) st.
Proof. exact change_refused_closed. Qed.

(* ... and with a segment being written: an address in a closed region or among the bytes already written there
   (its base included, fix 14f510b) is Occupied; the only state change is that the active segment was closed *)
Theorem C13_select_refused_active : forall dbg st s addr, Inv st -> active st = Active s -> addr < CtxSeg.U32 ->
  (occupied (output st) addr \/ (s_base s <= addr /\ addr < s_base s + blen s)) ->
  exists st', change_segment dbg st addr = Ret (inr (SegOccupied addr)) st' /\ active st' = Inactive /\
    forall x, occupied (output st') x <-> occupied (output st) x \/ (s_base s <= x /\ x < s_base s + blen s).
Proof. exact change_refused_active'. Qed.

(* after a successful selection the next byte goes to exactly that address: the segment is empty with base = addr,
   so curr_addr = addr and the first write is the buffer [data] at base addr *)
Theorem C13_next_byte : forall dbg st addr data, Rep (output st) -> active st = Inactive -> addr < CtxSeg.U32 ->
  ~ occupied (output st) addr ->
  exists s, change_segment dbg st addr = Ret (inl true) (set_active st (Active s)) /\ curr_addr s = addr /\
    (MapModel.len data <= s_max s -> seg_write dbg s data = SOk (mkSeg addr data (s_max s))).
Proof.
  intros dbg st addr data HR HA Hlt Hf.
  destruct (change_ok_inactive dbg st addr HR HA Hlt Hf) as (s & E & B & Bu & C & (_ & HI)).
  exists s. split; [exact E|]. split; [exact C|]. intros Hfit. cbn [active set_active] in HI.
  destruct (write_ok dbg (output st) s data HI) as (W & _).
  - unfold blen. rewrite Bu. cbn. exact Hfit.
  - rewrite W. unfold set_buf. rewrite Bu, B. reflexivity.
Qed.

(* closing: under the invariant the close-time assert_eq!(n, len) holds — no panic, the map keeps its invariant and
   gains exactly the written addresses *)
Theorem C13_close_no_panic : forall dbg st, Inv st ->
  exists st' b, close_segment dbg st = Ret (inl b) st' /\ Inv st' /\ active st' = Inactive /\
    (forall x, occupied (output st') x <->
       occupied (output st) x \/ match active st with
                                 | Active s => s_base s <= x /\ x < s_base s + blen s
                                 | Inactive => False
                                 end).
Proof. exact close_ok'. Qed.

(* ---------------------------------------------------------------- whole programs *)
(* the empty context is good *)
Theorem C13_inv_init : good init_state.
Proof. exact good_init. Qed.

(* one statement (any kind; `.include` runs Context::assemble one level down): from a good state the next state is
   good, everything allocated stays allocated, and a panic — if any — is not at a segment / map site *)
Theorem C13_inv_step : forall dbg fs fuel st e, good st ->
  match step dbg fs (assemble dbg fs fuel) st e with
  | Ret _ st' => good st' /\ mono st st'
  | Panic p => ~ seg_site p
  | OutOfFuel => True
  end.
Proof. exact step_inv. Qed.

(* one deferred task whose range is allocated (it need not be in the state's lists: it is being drained) *)
Theorem C13_inv_task : forall dbg st t, good st -> task_ok st t -> post st (run_task dbg st t).
Proof. exact run_task_post. Qed.

(* Context::assemble: a whole file with its task loop, includes and the PathFrame restore *)
Theorem C13_inv_assemble : forall dbg fs fuel st data path, good st -> post st (assemble dbg fs fuel st data path).
Proof. exact assemble_post. Qed.

Theorem C13_inv_finalize : forall dbg st, good st -> post st (finalize dbg st).
Proof. exact finalize_post. Qed.

(* the pipeline of src/bin/assembler.rs: assemble, close_segment, finalize *)
Theorem C13_inv_pipeline : forall dbg fs fuel path text,
  match pipeline_state dbg fs fuel path text with
  | Ret _ st => good st
  | Panic p => ~ seg_site p
  | OutOfFuel => True
  end.
Proof. exact pipeline_inv. Qed.

(* corollary: the close-time assert_eq!(n, len), the two assert_eq!(n, 0) of write_instr / write_data and the other
   segment / map sites never fire, in either build profile, for any project and include depth *)
Theorem C13_no_assert_fires : forall dbg fs fuel path text p, pipeline_gen dbg fs fuel path text = PPanic p ->
  p <> P_close_assert /\ p <> P_put_assert_instr /\ p <> P_put_assert_data /\ (forall q, p <> P_map q) /\
  p <> P_remaining /\ p <> P_next_sub /\ p <> P_write_at_sub /\ p <> P_not_inactive.
Proof. exact no_assert_fires. Qed.

(* the reported regions are the listing of a map that satisfies C15's invariant (sorted, disjoint, non-adjacent) *)
Theorem C13_image_rep : forall dbg fs fuel path text s diags regions,
  pipeline_gen dbg fs fuel path text = Done s diags regions -> exists m, Rep m /\ regions = map_iter m.
Proof. exact pipeline_image_rep. Qed.

(* the assert inside write_at (addr >= base && addr <= curr_addr()) never fires: not for a write over an allocated
   range in a state satisfying Inv (also with a buffer of 2^32 bytes: curr_addr saturates, fix 8bb2c3e), and not in
   any pipeline run *)
Theorem C13_write_at_assert_never :
  (forall dbg st f l c a data ko kp pa, Inv st -> allocated st a (MapModel.len data) -> 0 < MapModel.len data ->
     write_stmt dbg st f l c a data ko kp pa <> Panic P_write_at_assert) /\
  (forall dbg fs fuel path text, pipeline_gen dbg fs fuel path text <> PPanic P_write_at_assert).
Proof. exact write_at_assert_never. Qed.

(* ---------------------------------------------------------------- capacity at statement level *)
(* a statement of known size n (instruction, .du8/16/32, .dstr, .dhex, .dfile, .align) on the active segment s:
   the map (all other regions) is unchanged, and either nothing is written, an error level is returned and the last
   action was to push a diagnostic (so the run ends in Failure), or all n bytes are appended and they fit below max_len — i.e. (by Inv) below the next occupied address and below 2^32 *)
Theorem C13_capacity_stmt : forall dbg fs inc st s e n r st', good st -> active st = Active s ->
  stmt_size fs st s e = Some n -> step dbg fs inc st e = Ret r st' ->
  output st' = output st /\
  ((active st' = Active s /\ r <> None /\ errors st' <> [])
   \/ (exists data, MapModel.len data = n /\ blen s + n <= s_max s /\ active st' = Active (set_buf s (s_buf s ++ data)))).
Proof. exact stmt_capacity. Qed.

(* ... so a statement that would cross max_len (the next occupied address or 2^32) changes neither the map nor the
   active segment, returns an error level and has pushed a diagnostic *)
Theorem C13_capacity_overflow : forall dbg fs inc st s e n r st', good st -> active st = Active s ->
  stmt_size fs st s e = Some n -> s_max s < blen s + n -> step dbg fs inc st e = Ret r st' ->
  output st' = output st /\ active st' = active st /\ r <> None /\ errors st' <> [].
Proof. exact stmt_overflow. Qed.

(* ---------------------------------------------------------------- deferred statements *)
(* a task with range [a, a+n) either changes nothing (diagnostic, or deferred again), or rewrites exactly that range:
   inside the active buffer when the range lies there (the buffer is spliced at offset a - base, its length and every
   other byte kept), otherwise over the pre-allocated bytes of the map (same occupied set, contents = the old
   dictionary with data written at a); the other one of active segment / map is untouched *)
Theorem C13_deferred_address : forall dbg st t a n r st', good st -> task_range t = Some (a, n) -> allocated st a n ->
  run_task dbg st t = Ret r st' ->
  (output st' = output st /\ active st' = active st)
  \/ (exists s data, active st = Active s /\ in_active s a n /\ MapModel.len data = n /\ output st' = output st /\
        active st' = Active (set_buf s (splice (s_buf s) (a - s_base s) data)))
  \/ (exists data, in_map (output st) a n /\ MapModel.len data = n /\ active st' = active st /\ Rep (output st') /\
        (forall x, occupied (output st') x <-> occupied (output st) x) /\
        abs (output st') = d_write (abs (output st)) a data).
Proof. exact run_task_shape. Qed.

(* the case the property names (fix fe020dd): the active region now ends exactly where the statement begins — the
   statement's bytes are the ones in the map, and the active region is not touched *)
Theorem C13_deferred_address_adjacent : forall dbg st t a n r st' s, good st -> task_range t = Some (a, n) ->
  allocated st a n -> 0 < n -> active st = Active s -> s_base s + blen s = a ->
  run_task dbg st t = Ret r st' -> active st' = active st /\ in_map (output st) a n.
Proof. exact run_task_shape_adjacent. Qed.

Open Scope string_scope.
(* non-vacuity: the four repaired defects on the model (source texts of the corpus) *)
Theorem C13_examples :
  let src := bytes_of_string in
  let nofs : str -> option (list N) := fun _ => None in
  let run t := pipeline nofs (src "root.asm") (src t) in
  let d l c k := mkDiag (src "root.asm") l c k in
     run ".addr 0x20000010; NOP; .addr 0x2000000E; NOP; NOP;"
       = Done Failure [d 1 47 KInstrSegOverflow] [(0x2000000E, 0x20000011, [0; 191; 0; 191])]
  /\ run ".addr 0x100; NOP; .addr 0x100; NOP;" = Done Failure [d 1 19 (KApply ASegOccupied)] [(0x100, 0x101, [0; 191])]
  /\ run ".addr 0x100; .addr 0x100; NOP;" = Done Success [] [(0x100, 0x101, [0; 191])]
  /\ run ".addr 0xFFFFFFFF; .du8 1; .du8 2;" = Done Failure [d 1 27 (KApply ASegOverflow)] [(0xFFFFFFFF, 0xFFFFFFFF, [1])]
  /\ run ".addr 0x20000010; B later; NOP; .addr 0x2000000E; NOP; later:"
       = Done Success [] [(0x2000000E, 0x20000013, [0; 191; 254; 231; 0; 191])].
Proof. vm_compute. repeat split; reflexivity. Qed.

(* non-vacuity of the statement-level theorems: sizes are defined for the statement kinds the property lists, and a
   pending task has a range *)
Theorem C13_examples_sizes :
  let src := bytes_of_string in
  let nofs : str -> option (list N) := fun _ => None in
  let s := mkSeg 0x20000001 [1%N] 7 in
  let st := set_active init_state (Active s) in
  let el v := mkElement 1 1 v in
     stmt_size nofs st s (el (EInstruction (src "nop") [])) = Some 2%N
  /\ stmt_size nofs st s (el (EInstruction (src "BL") [AIdent (src "later")])) = Some 4%N
  /\ stmt_size nofs st s (el (EDirective (src "du32") [AIdent (src "later")])) = Some 4%N
  /\ stmt_size nofs st s (el (EDirective (src "dstr") [AStr (src "abc")])) = Some 3%N
  /\ stmt_size nofs st s (el (EDirective (src "dhex") [AStr (src "0a 0b")])) = Some 2%N
  /\ stmt_size nofs st s (el (EDirective (src "align") [AConst 4])) = Some 2%N
  /\ task_range (InstrTask (mkAI (src "f") 1 1 0x100 (Instr.Bl 0) (AsmStmtModel.mkAst [] 0)) false) = Some (0x100, 4)%N.
Proof. vm_compute. repeat split; reflexivity. Qed.
