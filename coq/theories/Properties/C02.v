(* C02 — Decoding an encoded instruction returns the same instruction. *)
From Coq Require Import ZArith NArith List.
From Trion Require Import Arm.Instr Arm.EncodeModel Arm.DecodeModel Arm.CodecProofs.
Import ListNotations.
Open Scope N_scope.

Theorem C02_roundtrip : forall i hws, wf_instr i -> enc i = EncOk hws ->
  dec (le_bytes hws) = DecOk (2 * N.of_nat (length hws)) i.
Proof. exact dec_enc_roundtrip. Qed.

(* trailing bytes do not matter: exactly the produced bytes are consumed *)
Theorem C02_trailing : forall i hws rest, wf_instr i -> enc i = EncOk hws ->
  dec (le_bytes hws ++ rest) = DecOk (2 * N.of_nat (length hws)) i.
Proof. intros i hws rest W E. apply dec_app. exact (dec_enc_roundtrip i hws W E). Qed.

Theorem C02_injective : forall i j hws, wf_instr i -> wf_instr j -> enc i = EncOk hws -> enc j = EncOk hws -> i = j.
Proof. exact enc_injective. Qed.

(* never undefined / unpredictable / reserved / underflow / panic *)
Theorem C02_no_error_class : forall i hws, wf_instr i -> enc i = EncOk hws ->
  (forall e, dec (le_bytes hws) <> DecErr e) /\ dec (le_bytes hws) <> DecPanic.
Proof.
  intros i hws W E. rewrite (dec_enc_roundtrip i hws W E). split; [intros e|]; discriminate.
Qed.

Theorem C02_examples :
  dec (le_bytes [0x4408]) = DecOk 2 (Add false R0 R0 (Reg R1)) /\
  dec (le_bytes [0xF7FF; 0xFFFE]) = DecOk 4 (Bl (-4)).
Proof. vm_compute. split; reflexivity. Qed.
