(* C12 (parser half) -- a parsed statement carries the line/column of its first token.  Statements only; proofs live in
   Text/ParseProofs.v.  `run_spec l items` (ParseProofs.v) relates a token stream to the items of a run:
     RS_end : run_spec [] []
     RS_ok  : e_line e = t_line tk -> e_col e = t_col tk -> run_spec rest items ->
              run_spec (inl tk :: map inl toks ++ rest) (IOk e :: items)        (the statement consumed tk :: toks, tokens only)
     RS_err : l <> [] -> run_spec l [IErr e]
   The coordinator merges this file with the tokenizer's half (token positions) and the diagnostics part. *)
From Coq Require Import ZArith NArith List.
From Trion Require Import Text.Types Text.ParseModel Text.ParseProofs.
Import ListNotations.
Open Scope N_scope.

(* every Ok element of a run sits at the first token of the consecutive chunk of tokens its statement consumed *)
Theorem C12_element_pos : forall s items after, parse_all s = Done items after -> run_spec (stream s) items.
Proof. exact parse_positions. Qed.

(* one poll: an Ok element carries the position of the token the poll started with *)
Theorem C12_element_pos_step : forall F s e s', (10 * length (stream s) + 9 <= F)%nat -> parser_next F s = (PollItem (IOk e), s') ->
  exists tk toks, stream s = inl tk :: map inl toks ++ stream s' /\ e_line e = t_line tk /\ e_col e = t_col tk.
Proof. intros F s e s' HF H. pose proof (parser_next_spec F s HF) as Hp. rewrite H in Hp. exact Hp. Qed.

Theorem C12_parse_examples :
  let tk l c v := inl (mkToken l c v) : tok_item in
  parse_all (src_of [tk 3 7 (TIdentifier [97]); tk 4 1 TLabelMark; tk 9 2 (TIdentifier [110]); tk 9 9 TTerminator] 10 1)
    = Done [IOk (mkElement 3 7 (ELabel [97])); IOk (mkElement 9 2 (EInstruction [110] []))] [PollNone; PollNone; PollNone].
Proof. vm_compute. reflexivity. Qed.
