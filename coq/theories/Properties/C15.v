(* C15 — Sparse memory map behaves as an address-to-byte dictionary.
   Statements only; proofs live in Mem/MapProofs.v, MapProofs2.v (read side, remove, free-space put),
   Mem/MapLemmas.v, MapPutNorm.v, MapPutProofs.v (put, every arm), Mem/MapRangeProofs.v (remove_range,
   count_range, iter_range), Mem/MapHistory.v (operation histories) and Mem/MapOccupied.v (occupied-address view).
   Model: Mem/MapModel.v (transliteration of src/asm/memory/map/mod.rs; `dbg` = overflow-checks/debug-assertions
   on or off), oracle: Mem/DictSpec.v (ascending association list address -> byte; `runs` = maximal occupied intervals).
   `Rep m`  = sorted, non-empty segments, |data| = last-first+1, last < 2^32, >= 1 free address between neighbours.
   `abs m`  = the dictionary a map denotes.

   Every statement of the property is proved here for the model (no `_partial` theorem is left):
   * C15_put is the one statement C15_inv + C15_refines + C15_put_count + C15_no_panic for put, in ALL arms
     (insert, replace, prepend, append, interior overwrite, merge of any number of following segments);
   * C15_remove_range, C15_count_range, C15_iter_range for every range first <= last;
   * C15_history lifts invariant, refinement, absence of panics and the return values to every finite
     sequence of put / remove / remove_range / clear starting from new().
   NOT covered by a theorem (outside the property, see props/C15.json): get()/get_mut() in Below/Above mode
   (they panic when addr lies outside the segment found — C15_examples shows it). *)
From Coq Require Import NArith List.
From Trion Require Import Mem.MapModel Mem.DictSpec Mem.MapProofs Mem.MapProofs2 Mem.MapPutProofs Mem.MapRangeProofs
  Mem.MapHistory Mem.MapOccupied.
Import ListNotations.
Open Scope N_scope.

(* the invariant holds initially and after clear; new/clear denote the empty dictionary *)
Theorem C15_inv_new : Rep map_new /\ abs map_new = d_empty.
Proof. exact (conj rep_new abs_new). Qed.

Theorem C15_clear : forall m, Rep (map_clear m) /\ abs (map_clear m) = d_clear (abs m).
Proof. exact (fun m => conj (rep_clear m) (clear_refines m)). Qed.

(* the binary search never panics / runs out of fuel on a well-formed map, in both build profiles, and
   its answer is the linear characterisation (Exact: the covering segment; Above: the first segment
   ending at or after addr; Below: the last segment starting at or before addr) *)
Theorem C15_locate : forall dbg m addr sr, Rep m ->
  exists r, locate dbg m addr sr = Ok r /\ locate_post m addr sr r.
Proof. exact locate_ok. Qed.

(* iter() reports exactly the maximal runs of the dictionary, ascending, with their bytes *)
Theorem C15_iter : forall m, Rep m -> runs (abs m) = map_iter m.
Proof. exact iter_is_runs. Qed.

(* remove(addr): no panic, invariant kept, the maximal run containing addr leaves the dictionary and is returned *)
Theorem C15_remove : forall dbg m addr, Rep m ->
  exists m' r, map_remove dbg m addr = Ok (m', r) /\ Rep m' /\ d_remove_run (abs m) addr = (abs m', r).
Proof. exact remove_ok. Qed.

(* data running past 0xFFFFFFFF is rejected and the map is unchanged (needs no invariant) *)
Theorem C15_put_overflow : forall dbg m a data, a < U32 -> SPACE < a + len data ->
  map_put dbg m a data = Ok (m, None) /\ d_put (abs m) a data = (abs m, None).
Proof. exact put_overflow. Qed.

Theorem C15_put_empty : forall dbg m a,
  map_put dbg m a [] = Ok (m, Some 0) /\ (a <= SPACE -> d_put (abs m) a [] = (abs m, Some 0)).
Proof. exact put_empty. Qed.

(* put, every case (free space, adjacent, overlapping one or many segments, at both ends of the address space):
   never panics in either build profile, keeps the invariant, writes exactly the cells of the dictionary put,
   and returns the oracle's count = number of previously unoccupied addresses that were filled *)
Theorem C15_put : forall dbg m a data, Rep m -> a < U32 -> a + len data <= SPACE ->
  exists m' n, map_put dbg m a data = Ok (m', Some n) /\ Rep m' /\ d_put (abs m) a data = (abs m', Some n).
Proof. exact put_ok. Qed.

(* special case kept for its sharper conclusion: data written where no existing segment overlaps or is adjacent
   is inserted as a segment of its own and the count is |data| *)
Theorem C15_put_free_space : forall dbg m a data, Rep m -> a < U32 -> data <> [] -> a + len data <= SPACE ->
  (forall s, In s m -> slast s + 1 < a \/ a + len data < sfirst s) ->
  exists m', map_put dbg m a data = Ok (m', Some (len data)) /\ Rep m' /\
             d_put (abs m) a data = (abs m', Some (len data)).
Proof. exact put_insert_ok. Qed.

(* the view a client of the map needs (the segment writer, C13): writing into free addresses — existing segments
   may be adjacent — reports |data| new addresses, and afterwards exactly the old addresses and the written
   interval are occupied *)
Theorem C15_put_fresh : forall dbg m a data, Rep m -> a + len data <= U32 ->
  (forall g, In g m -> slast g < a \/ a + len data <= sfirst g) ->
  exists m', map_put dbg m a data = Ok (m', Some (len data)) /\ Rep m' /\
    (forall x, occupied m' x <-> occupied m x \/ (a <= x /\ x < a + len data)).
Proof. exact put_fresh_ok. Qed.

(* remove_range: never panics (the assert! cannot fire), keeps the invariant, removes exactly the cells in the range *)
Theorem C15_remove_range : forall dbg m f l, Rep m -> f <= l ->
  exists m', map_remove_range dbg m f l = Ok m' /\ Rep m' /\ abs m' = d_remove_range (abs m) f l.
Proof. exact remove_range_ok. Qed.

(* count_range / iter_range: never panic (no overflow of the unchecked `+=`, the debug_assert holds, slices in range)
   and answer what the dictionary restricted to the range says *)
Theorem C15_count_range : forall dbg m f l, Rep m -> f <= l ->
  map_count_range dbg m f l = Ok (d_count_range (abs m) f l).
Proof. exact count_range_ok. Qed.

Theorem C15_iter_range : forall dbg m f l, Rep m -> f <= l ->
  map_iter_range dbg m f l = Ok (d_iter_range (abs m) f l).
Proof. exact iter_range_ok. Qed.

(* the lifting: after ANY finite history of put / remove / remove_range / clear applied to new() (arguments as the
   Rust types allow them: u32 addresses, first <= last) no operation has panicked, the map is well-formed, it denotes
   the dictionary obtained by the same history, and every return value along the way was the oracle's *)
Theorem C15_history : forall dbg ops, Forall op_ok ops ->
  exists m, m_run dbg ops = Ok (m, snd (d_run ops)) /\ Rep m /\ abs m = fst (d_run ops).
Proof. exact history_ok. Qed.

(* one step of a history, from any well-formed state *)
Theorem C15_step : forall dbg m o, Rep m -> op_ok o ->
  exists m' x, m_step dbg m o = Ok (m', x) /\ Rep m' /\ d_step (abs m) o = (abs m', x).
Proof. exact step_ok. Qed.

(* find in all three modes, for every address (0 and 2^32-1 included): never panics, equals the run-based answer *)
Theorem C15_lookup_find : forall dbg m addr sr, Rep m ->
  map_find dbg m addr sr = Ok (d_find (abs m) addr (mode_of sr)).
Proof. exact find_ok. Qed.

(* get(addr, Exact): never panics, returns the run's range and its bytes from addr on *)
Theorem C15_lookup_get_exact : forall dbg m addr, Rep m ->
  map_get dbg m addr Exact = Ok (d_get_exact (abs m) addr).
Proof. exact get_exact_ok. Qed.

(* count(): never panics (the unchecked `addrs +=` cannot overflow on a well-formed map, in either profile);
   number of occupied addresses (saturating at 2^32-1: only the completely full map reaches it) and of runs *)
Theorem C15_lookup_count : forall dbg m, Rep m -> map_count dbg m = Ok (d_count (abs m)).
Proof. exact count_ok. Qed.

(* non-vacuity: range queries clipped at both ends, a history with merge / split / remove / overflow and its
   return values; a put that bridges three segments (4 of its 8 addresses were free), the same at the top of the
   address space, the overflow rejection, and a remove_range that splits a segment, on model and dictionary;
   last line: get() in Above mode on an address below the segment found panics in the slice (release) /
   in the subtraction (debug) — observed on the real code too; the property only names get(Exact). *)
Theorem C15_examples :
  let m3 := [(100, 101, [1; 2]); (104, 105, [3; 4]); (108, 109, [5; 6])] in
  let m4 := [(100, 109, [1; 9; 9; 9; 9; 9; 9; 9; 9; 6])] in
  let t := 0xFFFFFFFF in
  map_put false m3 101 [9; 9; 9; 9; 9; 9; 9; 9] = Ok (m4, Some 4)
  /\ d_put (abs m3) 101 [9; 9; 9; 9; 9; 9; 9; 9] = (abs m4, Some 4)
  /\ map_put true [(t - 5, t - 5, [1]); (t - 3, t - 3, [2]); (t, t, [3])] (t - 4) [7; 7; 7; 7]
     = Ok ([(t - 5, t, [1; 7; 7; 7; 7; 3])], Some 3)
  /\ map_put true [(t, t, [3])] t [7; 7] = Ok ([(t, t, [3])], None)
  /\ map_remove_range false m4 103 105 = Ok [(100, 102, [1; 9; 9]); (106, 109, [9; 9; 9; 6])]
  /\ abs [(100, 102, [1; 9; 9]); (106, 109, [9; 9; 9; 6])] = d_remove_range (abs m4) 103 105
  /\ map_count true m3 = Ok (d_count (abs m3))
  /\ map_count_range true m3 101 108 = Ok (4, 3) /\ d_count_range (abs m3) 101 108 = (4, 3)
  /\ map_iter_range false m3 101 108 = Ok [(101, 101, [2]); (104, 105, [3; 4]); (108, 108, [5])]
  /\ m_run true [OPut 100 [1; 2]; OPut 104 [3; 4]; OPut 101 [9; 9; 9; 9]; ORemoveRange 102 103; ORemove 100; OPut t [7; 7]]
     = Ok ([(104, 105, [9; 4])], [RPut (Some 2); RPut (Some 2); RPut (Some 2); RUnit; RRemove (Some (100, 101, [1; 9])); RPut None])
  /\ d_run [OPut 100 [1; 2]; OPut 104 [3; 4]; OPut 101 [9; 9; 9; 9]; ORemoveRange 102 103; ORemove 100; OPut t [7; 7]]
     = ([(104, 9); (105, 4)], [RPut (Some 2); RPut (Some 2); RPut (Some 2); RUnit; RRemove (Some (100, 101, [1; 9])); RPut None])
  /\ map_get false m3 0 Above = Panic S_get_slice /\ map_get true m3 0 Above = Panic S_get_sub.
Proof. vm_compute. repeat split; reflexivity. Qed.
