(* C10 (parser half) -- the parser is total on every token source; at most the last item is an error; nothing after the end;
   no success for a text the tokenizer rejects.  Statements only; proofs live in Text/ParseProofs.v.
   `src` is the abstract token source of Text/ParseModel.v (any finite list of pending tokens / token errors, any queue state);
   `stream s` is everything the source will still deliver.  The coordinator merges this file with the tokenizer's half. *)
From Coq Require Import ZArith NArith List.
From Trion Require Import Text.Types Text.ParseModel Text.ParseProofs.
Import ListNotations.
Open Scope N_scope.

(* the run never exhausts the model's fuel and never reaches the operator-group panic! or an unwrap() of None/Ok *)
Theorem C10_parse_total : forall s, parse_all s <> ROutOfFuel /\ (forall items, parse_all s <> RPanic items).
Proof. exact parse_total. Qed.

(* Ok* followed by at most one Err; the three further polls after the end all return None *)
Theorem C10_parse_shape : forall s, exists es tail,
  parse_all s = Done (map IOk es ++ tail) [PollNone; PollNone; PollNone] /\ (tail = [] \/ exists e, tail = [IErr e]).
Proof. exact parse_shape. Qed.

(* if the source delivers a token error anywhere (the real tokenizer: as its last item), the last parser item is an error *)
Theorem C10_parser_respects_tokenizer : forall s items after, parse_all s = Done items after ->
  (exists e, In (inr e) (stream s)) -> exists its e', items = its ++ [IErr e'].
Proof. exact parse_respects_tokenizer. Qed.

(* non-vacuity and the repaired defect F17: `a b c;` is one error, `a: .d 1+2*3, x;` two statements *)
Theorem C10_parse_examples :
  let tk l c v := inl (mkToken l c v) : tok_item in
  parse_all (src_of [tk 1 1 (TIdentifier [97]); tk 1 3 (TIdentifier [98]); tk 1 5 (TIdentifier [99]); tk 1 6 TTerminator] 1 7)
    = Done [IErr (mkPerr 1 5 PKExpected)] [PollNone; PollNone; PollNone]
  /\ parse_all (src_of [tk 1 1 (TIdentifier [97]); tk 1 2 TLabelMark; tk 1 4 TDirectiveMark; tk 1 5 (TIdentifier [100]);
                        tk 1 7 (TNumber 1%Z); tk 1 8 TPlus; tk 1 9 (TNumber 2%Z); tk 1 10 TMultiply; tk 1 11 (TNumber 3%Z); tk 1 12 TSeparator;
                        tk 1 14 (TIdentifier [120]); tk 1 15 TTerminator] 1 16)
    = Done [IOk (mkElement 1 1 (ELabel [97]));
            IOk (mkElement 1 4 (EDirective [100] [AAdd (AConst 1%Z) (AMul (AConst 2%Z) (AConst 3%Z)); AIdent [120]]))] [PollNone; PollNone; PollNone]
  /\ parse_all (src_of [tk 1 1 (TIdentifier [97]); inr (mkTokErr 1 3 BadString)] 1 3)
    = Done [IErr (mkPerr 1 1 (PKToken (mkTokErr 1 3 BadString)))] [PollNone; PollNone; PollNone].
Proof. vm_compute. repeat split. Qed.
