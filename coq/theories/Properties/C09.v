(* C09 -- parsing respects documented precedence, associativity and grouping.  Statements only; proofs live in
   Text/ParseProofs.v.  Model: Text/ParseModel.v (Parser over the abstract token source `src`, `parse_all` = the iterator
   run to its end + 3 more polls); oracle: Text/Render.v (`render`, `render_stmt(s)`: only the parentheses the README table +
   left associativity require; `render_with_extra_parens`, `render_stmts_x`: any sub-expression wrapped redundantly).
   The theorems are on the TOKEN level and hold for EVERY tree (all 18 node kinds, any nesting -- every tree is in the image
   of the parser) and every assignment of positions to the tokens; `Render.printable` is what the tokenizer additionally
   needs for a source text of these tokens to exist (constants 0 <= v < 2^63, identifier grammar); spacing and comments are
   the tokenizer component's and the correspondence stream's. *)
From Coq Require Import ZArith NArith List.
From Trion Require Import Text.Types Text.ParseModel Text.Render Text.ParseProofs.
Import ListNotations.
Open Scope N_scope.

(* a tree written with only the required parentheses, as the argument of an instruction, parses back to exactly that tree *)
Theorem C09_roundtrip : forall t name toks l c, map t_val toks = render_stmt (EInstruction name [t]) ->
  exists line col, parse_all (src_of (map inl toks) l c)
    = Done [IOk (mkElement line col (EInstruction name [t]))] [PollNone; PollNone; PollNone].
Proof. exact roundtrip. Qed.

Theorem C09_roundtrip_directive : forall t name toks l c, map t_val toks = render_stmt (EDirective name [t]) ->
  exists line col, parse_all (src_of (map inl toks) l c)
    = Done [IOk (mkElement line col (EDirective name [t]))] [PollNone; PollNone; PollNone].
Proof. exact roundtrip_directive. Qed.

(* redundant parentheses around any sub-expressions (any choice `bits`, any multiplicity) do not change the tree *)
Theorem C09_parens : forall t bits name toks l c,
  map t_val toks = TIdentifier name :: render_with_extra_parens t bits ++ [TTerminator] ->
  exists line col, parse_all (src_of (map inl toks) l c)
    = Done [IOk (mkElement line col (EInstruction name [t]))] [PollNone; PollNone; PollNone].
Proof. exact parens_roundtrip. Qed.

(* ... in the declarative form: X ranges over ALL ways of writing t (relation Rend: required parentheses, plus rule R_paren
   anywhere), as argument of an instruction (directive = false) or a directive (directive = true) *)
Theorem C09_parens_all : forall t X name toks l c (directive : bool), Rend 0 t X ->
  map t_val toks = (if directive then [TDirectiveMark] else []) ++ TIdentifier name :: X ++ [TTerminator] ->
  exists line col, parse_all (src_of (map inl toks) l c)
    = Done [IOk (mkElement line col (if directive then EDirective name [t] else EInstruction name [t]))] [PollNone; PollNone; PollNone].
Proof. exact arg_roundtrip_rend. Qed.

(* label / directive / instruction: kind, name, number and order of arguments of every statement of a sequence are preserved
   (any number of arguments incl. none), with and without redundant parentheses *)
Theorem C09_statement : forall stmts toks l c, map t_val toks = render_stmts stmts ->
  exists els, parse_all (src_of (map inl toks) l c) = Done (map IOk els) [PollNone; PollNone; PollNone] /\ map e_val els = stmts.
Proof. exact statements_render_roundtrip. Qed.

Theorem C09_statement_parens : forall stmts bits toks l c, map t_val toks = render_stmts_x stmts bits ->
  exists els, parse_all (src_of (map inl toks) l c) = Done (map IOk els) [PollNone; PollNone; PollNone] /\ map e_val els = stmts.
Proof. exact statements_parens_roundtrip. Qed.

(* the precedence-climbing invariant: parse_binary at group g consumes exactly the rendering of t written for a context
   c > rank g (or c <= 1 for the lowest group) and returns t, when what follows is nothing, a stop token (, ; ) ] }) or an
   operator of a lower group than g *)
Theorem C09_climbing : forall c t g es toks s rest, map t_val toks = render c t -> stream s = map inl toks ++ rest ->
  (group_rank g <= c - 1)%nat -> head_lt g rest ->
  exists f s', parse_binary f g es s = (Ok t, s') /\ stream s' = rest.
Proof. exact climbing_render. Qed.

(* non-vacuity: `i a - (b - c) * -d | e;` rendered from its tree and parsed back; a redundantly parenthesised variant *)
Theorem C09_examples :
  let t := AOr (ASub (AIdent [97]) (AMul (ASub (AIdent [98]) (AIdent [99])) (ANeg (AIdent [100])))) (AIdent [101]) in
  let pos := map (fun v => inl (mkToken 1 1 v) : tok_item) in
  render_tokens t = [TIdentifier [97]; TMinus; TBeginGroup; TIdentifier [98]; TMinus; TIdentifier [99]; TEndGroup; TMultiply; TMinus;
                     TIdentifier [100]; TBitOr; TIdentifier [101]]
  /\ parse_all (src_of (pos (render_stmt (EInstruction [105] [t]))) 1 1)
     = Done [IOk (mkElement 1 1 (EInstruction [105] [t]))] [PollNone; PollNone; PollNone]
  /\ parse_all (src_of (pos (render_stmts_x [EInstruction [105] [t]] [true; false; false; true; true; false])) 1 1)
     = Done [IOk (mkElement 1 1 (EInstruction [105] [t]))] [PollNone; PollNone; PollNone]
  /\ length (render_with_extra_parens t [true; false; false; true; true; false]) = (length (render_tokens t) + 6)%nat.
Proof. vm_compute. repeat split. Qed.
