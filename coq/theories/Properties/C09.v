(* C09 -- parsing respects documented precedence, associativity and grouping.  Statements only; proofs live in
   Text/ParseProofs.v.  Model: Text/ParseModel.v (Parser over the abstract token source `src`, `parse_all` = the iterator
   run to its end + 3 more polls); oracle: Text/Render.v (`render`, `render_stmt(s)`: only the parentheses the README table +
   left associativity require; `render_with_extra_parens`, `render_stmts_x`: any sub-expression wrapped redundantly).
   The theorems are on the TOKEN level and hold for EVERY tree (all 18 node kinds, any nesting -- every tree is in the image
   of the parser) and every assignment of positions to the tokens; `Render.printable` is what the tokenizer additionally
   needs for a source text of these tokens to exist (constants 0 <= v < 2^63, identifier grammar).
   TEXT level (end of this file): Text/ShowSpec.v says how tokens are written as characters (`show ts seps`: canonical token
   texts, separator number i before token number i; `separator`: white space, line comments, non-nested block comments in any
   number and order; `follow_ok`: an identifier or number is not directly followed by an identifier byte, a `/` not by `/` or
   `*`; `wtok` / `showw`: the same with a free choice of spelling per token); C09_text_tokens / C09_text_roundtrip go from the CHARACTERS through the tokenizer model (Text/TokenModel.v) and the
   parser model back to the statements (proofs: Text/LexRun.v, Text/ShowProofs.v).
   NESTED block comments (last part of this file): Text/ShowNested.v enlarges the separator language (`nseparator`, `nseps_ok`):
   the content of a block comment may contain well-bracketed block comments to any depth d with d + 1 < 2^64 (`comment_body d`,
   `depth_ok d`: the scanner counts open comments in a usize - no real input reaches the bound); proofs in Text/ShowNestedProofs.v. *)
From Coq Require Import ZArith NArith List.
From Trion Require Import Base.Utf8 Text.Types Text.ParseModel Text.Render Text.ParseProofs Text.Pipeline Text.ShowSpec Text.ShowProofs
  Text.ShowNested Text.ShowNestedProofs.
From Trion Require Text.TokenModel.
Import ListNotations.
Open Scope N_scope.

(* a tree written with only the required parentheses, as the argument of an instruction, parses back to exactly that tree *)
Theorem C09_roundtrip : forall t name toks l c, map t_val toks = render_stmt (EInstruction name [t]) ->
  exists line col, parse_all (src_of (map inl toks) l c)
    = Done [IOk (mkElement line col (EInstruction name [t]))] [PollNone; PollNone; PollNone].
Proof. exact roundtrip. Qed.

Theorem C09_roundtrip_directive : forall t name toks l c, map t_val toks = render_stmt (EDirective name [t]) ->
  exists line col, parse_all (src_of (map inl toks) l c)
    = Done [IOk (mkElement line col (EDirective name [t]))] [PollNone; PollNone; PollNone].
Proof. exact roundtrip_directive. Qed.

(* redundant parentheses around any sub-expressions (any choice `bits`, any multiplicity) do not change the tree *)
Theorem C09_parens : forall t bits name toks l c,
  map t_val toks = TIdentifier name :: render_with_extra_parens t bits ++ [TTerminator] ->
  exists line col, parse_all (src_of (map inl toks) l c)
    = Done [IOk (mkElement line col (EInstruction name [t]))] [PollNone; PollNone; PollNone].
Proof. exact parens_roundtrip. Qed.

(* ... in the declarative form: X ranges over ALL ways of writing t (relation Rend: required parentheses, plus rule R_paren
   anywhere), as argument of an instruction (directive = false) or a directive (directive = true) *)
Theorem C09_parens_all : forall t X name toks l c (directive : bool), Rend 0 t X ->
  map t_val toks = (if directive then [TDirectiveMark] else []) ++ TIdentifier name :: X ++ [TTerminator] ->
  exists line col, parse_all (src_of (map inl toks) l c)
    = Done [IOk (mkElement line col (if directive then EDirective name [t] else EInstruction name [t]))] [PollNone; PollNone; PollNone].
Proof. exact arg_roundtrip_rend. Qed.

(* label / directive / instruction: kind, name, number and order of arguments of every statement of a sequence are preserved
   (any number of arguments incl. none), with and without redundant parentheses *)
Theorem C09_statement : forall stmts toks l c, map t_val toks = render_stmts stmts ->
  exists els, parse_all (src_of (map inl toks) l c) = Done (map IOk els) [PollNone; PollNone; PollNone] /\ map e_val els = stmts.
Proof. exact statements_render_roundtrip. Qed.

Theorem C09_statement_parens : forall stmts bits toks l c, map t_val toks = render_stmts_x stmts bits ->
  exists els, parse_all (src_of (map inl toks) l c) = Done (map IOk els) [PollNone; PollNone; PollNone] /\ map e_val els = stmts.
Proof. exact statements_parens_roundtrip. Qed.

(* the precedence-climbing invariant: parse_binary at group g consumes exactly the rendering of t written for a context
   c > rank g (or c <= 1 for the lowest group) and returns t, when what follows is nothing, a stop token (, ; ) ] }) or an
   operator of a lower group than g *)
Theorem C09_climbing : forall c t g es toks s rest, map t_val toks = render c t -> stream s = map inl toks ++ rest ->
  (group_rank g <= c - 1)%nat -> head_lt g rest ->
  exists f s', parse_binary f g es s = (Ok t, s') /\ stream s' = rest.
Proof. exact climbing_render. Qed.

(* non-vacuity: `i a - (b - c) * -d | e;` rendered from its tree and parsed back; a redundantly parenthesised variant *)
Theorem C09_examples :
  let t := AOr (ASub (AIdent [97]) (AMul (ASub (AIdent [98]) (AIdent [99])) (ANeg (AIdent [100])))) (AIdent [101]) in
  let pos := map (fun v => inl (mkToken 1 1 v) : tok_item) in
  render_tokens t = [TIdentifier [97]; TMinus; TBeginGroup; TIdentifier [98]; TMinus; TIdentifier [99]; TEndGroup; TMultiply; TMinus;
                     TIdentifier [100]; TBitOr; TIdentifier [101]]
  /\ parse_all (src_of (pos (render_stmt (EInstruction [105] [t]))) 1 1)
     = Done [IOk (mkElement 1 1 (EInstruction [105] [t]))] [PollNone; PollNone; PollNone]
  /\ parse_all (src_of (pos (render_stmts_x [EInstruction [105] [t]] [true; false; false; true; true; false])) 1 1)
     = Done [IOk (mkElement 1 1 (EInstruction [105] [t]))] [PollNone; PollNone; PollNone]
  /\ length (render_with_extra_parens t [true; false; false; true; true; false]) = (length (render_tokens t) + 6)%nat.
Proof. vm_compute. repeat split. Qed.

(* ---------------------------------------------------------------------------------------------- *)
(* TEXT level.  Token values that can be written (tok_ok: 0 <= number < 2^63, identifier grammar, strings valid UTF-8), written
   with any separators of the grammar `separator` such that nothing fuses (seps_ok), are tokenized by the tokenizer model to
   EXACTLY these token values, in order, followed by the end of the stream (positions: C12). *)
Theorem C09_text_tokens : forall ts seps, Forall tok_ok ts -> seps_ok ts seps ->
  exists toks, TokenModel.tokens_all (show ts seps) = TokenModel.Ok (map inl toks, [None; None; None]) /\ map t_val toks = ts.
Proof. exact show_tokens. Qed.

(* the tokens rendered from printable statements whose strings are UTF-8 (writable_stmt) can be written *)
Theorem C09_text_writable : forall stmts, forallb writable_stmt stmts = true -> Forall tok_ok (render_stmts stmts).
Proof. exact render_stmts_tok_ok. Qed.

(* characters -> tokens -> statements: the text of a statement sequence (label / directive / instruction, any trees, any
   separators incl. comments and line breaks) parses back to exactly these statements *)
Theorem C09_text_roundtrip : forall stmts seps, forallb writable_stmt stmts = true -> seps_ok (render_stmts stmts) seps ->
  exists els, parse_bytes (show (render_stmts stmts) seps) = Some (Done (map IOk els) [PollNone; PollNone; PollNone]) /\
              map e_val els = stmts.
Proof. exact text_roundtrip. Qed.

(* one statement *)
Theorem C09_text_roundtrip_stmt : forall s seps, writable_stmt s = true -> seps_ok (render_stmt s) seps ->
  exists line col, parse_bytes (show (render_stmt s) seps)
                   = Some (Done [IOk (mkElement line col s)] [PollNone; PollNone; PollNone]).
Proof. exact text_roundtrip1. Qed.

(* ... for ANY valid way of writing the statements as tokens (redundant parentheses anywhere: RendStmts) *)
Theorem C09_text_roundtrip_parens : forall stmts X seps, RendStmts stmts X -> Forall tok_ok X -> seps_ok X seps ->
  exists els, parse_bytes (show X seps) = Some (Done (map IOk els) [PollNone; PollNone; PollNone]) /\ map e_val els = stmts.
Proof. exact text_roundtrip_rend. Qed.

(* a single space before every token is always a legal choice of separators: every writable statement sequence HAS a text,
   and that text parses back to it *)
Theorem C09_text_spaces_ok : forall ts, seps_ok ts (map (fun _ => [32]) ts).
Proof. exact seps_ok_spaces. Qed.

Theorem C09_text_exists : forall stmts, forallb writable_stmt stmts = true ->
  exists text els, parse_bytes text = Some (Done (map IOk els) [PollNone; PollNone; PollNone]) /\ map e_val els = stmts.
Proof. exact text_exists. Qed.

(* free choice of spelling per token (ShowSpec.wtok / showw): integers in radix 2, 8, 10, 16 with either digit case and leading
   zeros, numbers written as character literals (plain or escaped), strings as any list of plain characters and escapes
   (all the literal forms of C11), everything else as above; the last separator may end in a line comment without line feed *)
Theorem C09_text_tokens_spelled : forall ws seps, Forall wtok_ok ws -> wseps_ok ws seps ->
  exists toks, TokenModel.tokens_all (showw ws seps) = TokenModel.Ok (map inl toks, [None; None; None]) /\
               map t_val toks = map wtok_val ws.
Proof. exact showw_tokens. Qed.

Theorem C09_text_roundtrip_spelled : forall stmts ws seps, RendStmts stmts (map wtok_val ws) -> Forall wtok_ok ws -> wseps_ok ws seps ->
  exists els, parse_bytes (showw ws seps) = Some (Done (map IOk els) [PollNone; PollNone; PollNone]) /\ map e_val els = stmts.
Proof. exact textw_roundtrip. Qed.

(* non-vacuity: the statement  i a-/*x*/(b<TAB>-c)*<CR><LF>-d//c<LF>|10/ "q\u{22}";<LF>  (block comment, tab, CRLF, line
   comment, a string with an escape) satisfies the premises; its text and its parse computed *)
Theorem C09_text_example_premises : writable_stmt ex_stmt = true /\ seps_ok (render_stmt ex_stmt) ex_seps.
Proof. exact ex_seps_ok. Qed.

(* .d 0x1F,'\n' , "a\t";//end  *)
Theorem C09_text_example_spelled_premises : Forall wtok_ok ex_wtoks /\ wseps_ok ex_wtoks ex_wseps /\
  map wtok_val ex_wtoks = render_stmt (EDirective [100] [AConst 31; AConst 10; AStr [97; 9]]).
Proof. exact ex_wtoks_ok. Qed.

Theorem C09_text_examples :
  showw ex_wtoks ex_wseps = [46; 100; 32; 48; 120; 49; 70; 44; 39; 92; 110; 39; 32; 44; 32; 34; 97; 92; 116; 34; 59; 47; 47; 101; 110; 100] /\
  parse_bytes (showw ex_wtoks ex_wseps)
    = Some (Done [IOk (mkElement 1 1 (EDirective [100] [AConst 31; AConst 10; AStr [97; 9]]))] [PollNone; PollNone; PollNone]) /\
  show (render_stmt ex_stmt) ex_seps =
    [105; 32; 97; 45; 47; 42; 120; 42; 47; 40; 98; 9; 45; 99; 41; 42; 13; 10; 45; 100; 47; 47; 99; 10; 124; 49; 48; 47; 32;
     34; 113; 92; 117; 123; 50; 50; 125; 34; 59; 10] /\
  parse_bytes (show (render_stmt ex_stmt) ex_seps) = Some (Done [IOk (mkElement 1 1 ex_stmt)] [PollNone; PollNone; PollNone]).
Proof. vm_compute. repeat split. Qed.

(* ---------------------------------------------------------------------------------------------- *)
(* NESTED block comments as separators (ShowNested.v).  A block comment is  slash-star content star-slash  where the content is a
   sequence of plain bytes (a byte that forms neither slash-star nor star-slash with the byte after it; the byte after the last
   one is the closer's star) and of complete block comments of the same form: `comment_body d content`, d = number of levels
   inside.  Bound: `depth_ok d` = d + 1 < 2^64 -- the comment itself and its d inner levels make the scanner's usize counter reach
   d + 1 (`depth` in src/text/token/mod.rs; it was an inferred i32 that overflowed at 2^31 nested openers until fix ac45016).
   For every statement sequence and every choice of such separators (white space, CRLF, line comments, nested block comments in
   any number and order, nothing fusing), tokenizing and parsing the shown text yields the identical statements. *)
Theorem C09_text_roundtrip_nested : forall stmts seps, forallb writable_stmt stmts = true -> nseps_ok (render_stmts stmts) seps ->
  exists els, parse_bytes (show (render_stmts stmts) seps) = Some (Done (map IOk els) [PollNone; PollNone; PollNone]) /\
              map e_val els = stmts.
Proof. exact text_roundtrip_nested. Qed.

(* every argument tree, as the argument of an instruction *)
Theorem C09_text_roundtrip_nested_tree : forall t name seps, writable_stmt (EInstruction name [t]) = true ->
  nseps_ok (render_stmt (EInstruction name [t])) seps ->
  exists line col, parse_bytes (show (render_stmt (EInstruction name [t])) seps)
                   = Some (Done [IOk (mkElement line col (EInstruction name [t]))] [PollNone; PollNone; PollNone]).
Proof. exact text_roundtrip_nested_tree. Qed.

(* the tokens themselves *)
Theorem C09_text_tokens_nested : forall ts seps, Forall tok_ok ts -> nseps_ok ts seps ->
  exists toks, TokenModel.tokens_all (show ts seps) = TokenModel.Ok (map inl toks, [None; None; None]) /\ map t_val toks = ts.
Proof. exact nshow_tokens. Qed.

(* most general form: any valid parenthesisation (RendStmts), any spelling of each token (wtok), any separators incl. nested comments *)
Theorem C09_text_roundtrip_nested_spelled : forall stmts ws seps, RendStmts stmts (map wtok_val ws) -> Forall wtok_ok ws ->
  nwseps_ok ws seps ->
  exists els, parse_bytes (showw ws seps) = Some (Done (map IOk els) [PollNone; PollNone; PollNone]) /\ map e_val els = stmts.
Proof. exact textw_roundtrip_nested. Qed.

(* the new separator language contains the old one (so the theorems above subsume C09_text_roundtrip / _spelled) *)
Theorem C09_text_nested_extends : forall ts seps, seps_ok ts seps -> nseps_ok ts seps.
Proof. exact seps_ok_nseps_ok. Qed.

Theorem C09_text_nested_extends_spelled : forall ws seps, wseps_ok ws seps -> nwseps_ok ws seps.
Proof. exact wseps_ok_nwseps_ok. Qed.

(* non-vacuity:  i a+/*1/*2/*3*/2*/1/*/ x*/*/b;  -- between `+` and `b` a comment containing a comment containing a comment
   (three levels open at `3`), followed at level 1 by a nested comment whose content begins with a slash (slash-star-slash is an
   opener and a slash, not a comment).  The premises hold, the old separator language does not contain this text, and the
   text and its parse are computed; an unbalanced variant (one closer fewer) is an unterminated-comment error. *)
Theorem C09_text_nested_example_premises : writable_stmt ex_nested_stmt = true /\
  nseps_ok (render_stmt ex_nested_stmt) ex_nested_seps /\ ~ seps_ok (render_stmt ex_nested_stmt) ex_nested_seps.
Proof. exact ex_nested_ok. Qed.

Theorem C09_text_nested_examples :
  show (render_stmt ex_nested_stmt) ex_nested_seps =
    [105; 32; 97; 43; 47; 42; 49; 47; 42; 50; 47; 42; 51; 42; 47; 50; 42; 47; 49; 47; 42; 47; 32; 120; 42; 47; 42; 47; 98; 59] /\
  parse_bytes (show (render_stmt ex_nested_stmt) ex_nested_seps)
    = Some (Done [IOk (mkElement 1 1 ex_nested_stmt)] [PollNone; PollNone; PollNone]) /\
  TokenModel.block_scan ex_nested_comment = Some 20%nat /\
  TokenModel.block_scan [47; 42; 47] = None /\
  TokenModel.block_scan [47; 42; 47; 42; 47] = None /\
  TokenModel.block_scan [47; 42; 47; 42; 42; 47; 42; 47] = Some 4%nat.
Proof. vm_compute. repeat split. Qed.

(* ---------------------------------------------------------------------------------------------- *)
(* The LAST separator (Text/ShowNestedEnd.v).  The end-separator languages of ShowSpec / ShowNested already contain "the text ends
   inside a line comment that has no line feed" (constructors ESep_eof / NESep_eof; the scanner consumes to the end of the input), so
   the theorems above cover such texts whenever the separators are chosen that way.  Explicitly, and whatever the last separator of
   the text is (white space, complete comments, nested block comments, or itself an unterminated line comment): ANY text of
   C09_text_roundtrip_nested followed by   ws ++ "//" ++ body   - white space, a line comment WITHOUT line feed, body any valid
   UTF-8 without LF - tokenizes and parses to the identical statements (final_comment ws body = ws ++ [47; 47] ++ body). *)
From Trion Require Import Text.ShowNestedEnd.

Theorem C09_text_roundtrip_final_comment : forall stmts seps ws body,
  forallb writable_stmt stmts = true -> nseps_ok (render_stmts stmts) seps ->
  white ws -> Forall (fun b => b <> 10) body -> Valid body ->
  exists els, parse_bytes (show (render_stmts stmts) seps ++ final_comment ws body)
                = Some (Done (map IOk els) [PollNone; PollNone; PollNone]) /\
              map e_val els = stmts.
Proof. exact text_roundtrip_final_comment. Qed.

(* ... with any valid parenthesisation and any spelling of each token *)
Theorem C09_text_roundtrip_final_comment_spelled : forall stmts ws seps w body,
  RendStmts stmts (map wtok_val ws) -> Forall wtok_ok ws -> nwseps_ok ws seps ->
  white w -> Forall (fun b => b <> 10) body -> Valid body ->
  exists els, parse_bytes (showw ws seps ++ final_comment w body)
                = Some (Done (map IOk els) [PollNone; PollNone; PollNone]) /\
              map e_val els = stmts.
Proof. exact textw_roundtrip_final_comment. Qed.

(* the end-separator language is closed under appending such a comment *)
Theorem C09_text_final_comment_separator : forall ws body, white ws -> Forall (fun b => b <> 10) body -> Valid body ->
  forall e, nend_separator e -> nend_separator (e ++ final_comment ws body).
Proof. exact nend_separator_final. Qed.

(* non-vacuity:  .d 1;//x //end   - the last separator `//x` is itself an unterminated line comment, ` //end` is appended; the
   premises hold, the text and its parse are computed; and  `.d 1; //`  (empty comment at the end of the input) *)
Theorem C09_text_final_comment_example_premises :
  forallb writable_stmt [ex_final_stmt] = true /\ nseps_ok (render_stmts [ex_final_stmt]) ex_final_seps /\
  white ex_final_ws /\ Forall (fun b => b <> 10) ex_final_body /\ Valid ex_final_body.
Proof. exact ex_final_ok. Qed.

Theorem C09_text_final_comment_examples :
  show (render_stmts [ex_final_stmt]) ex_final_seps ++ final_comment ex_final_ws ex_final_body
    = [46; 100; 32; 49; 59; 47; 47; 120; 32; 47; 47; 101; 110; 100] /\
  parse_bytes (show (render_stmts [ex_final_stmt]) ex_final_seps ++ final_comment ex_final_ws ex_final_body)
    = Some (Done [IOk (mkElement 1 1 ex_final_stmt)] [PollNone; PollNone; PollNone]) /\
  parse_bytes [46; 100; 32; 49; 59; 32; 47; 47] = Some (Done [IOk (mkElement 1 1 ex_final_stmt)] [PollNone; PollNone; PollNone]).
Proof. exact ex_final_run. Qed.
