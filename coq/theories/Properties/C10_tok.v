(* C10 (tokenizer half) — the tokenizer is total on arbitrary bytes.  Statements only; proofs live in Text/TokenProofs.v.
   To be merged with the parser half into C10.v by the coordinator. *)
From Coq Require Import NArith List.
From Trion Require Import Base.Utf8 Text.Types Text.TokenModel Text.TokenProofs.
Import ListNotations.
Open Scope N_scope.

(* every byte list (no bound, no UTF-8 assumption): the run is a finite item list, then None at each of the three extra polls;
   in particular it is neither a panic (failed slice / index / unwrap / assert_eq!) nor out of fuel *)
Theorem C10_tok_total : forall bs, exists items, tokens_all bs = Ok (items, [None; None; None]).
Proof. exact tok_total. Qed.

Theorem C10_tok_no_panic : forall bs, (forall s, tokens_all bs <> Panic s) /\ tokens_all bs <> OutOfFuel.
Proof. exact tok_no_panic. Qed.

(* tokens followed by at most one error; after the end the iterator stays at None *)
Theorem C10_tok_shape : forall bs items ps, tokens_all bs = Ok (items, ps) ->
  (exists ts tail, items = map inl ts ++ tail /\ (tail = [] \/ exists e, tail = [inr e])) /\ ps = [None; None; None].
Proof. exact tok_shape. Qed.

(* an input that is not UTF-8 ends with exactly one error item *)
Theorem C10_tok_invalid_utf8_once : forall bs items ps, (valid_up_to bs < length bs)%nat -> tokens_all bs = Ok (items, ps) ->
  exists ts e, items = map inl ts ++ [inr e].
Proof. exact tok_invalid_utf8_once. Qed.

(* ... and BadUnicode is reported only for such inputs: a UTF-8 text never yields it *)
Theorem C10_tok_bad_unicode_only_invalid : forall bs items ps, valid_up_to bs = length bs -> tokens_all bs = Ok (items, ps) ->
  Forall not_bad_unicode items.
Proof. exact tok_bad_unicode_only_invalid. Qed.

(* one step on a reachable state: never a panic, the state stays reachable, a token consumes at least one byte,
   an error or the end leaves the tokenizer finished (the interface the parser model is proved against) *)
Theorem C10_tok_step : forall st, tok_reach st ->
  exists r st', next_token st = Ok (r, st') /\ tok_reach st' /\
    match r with
    | Some (inl _) => (length (ts_data st') < length (ts_data st))%nat /\ ts_utf_err st' = ts_utf_err st
    | Some (inr _) => tok_done st'
    | None => tok_done st' /\ ts_utf_err st = false
    end.
Proof. exact next_token_total. Qed.

(* non-vacuity: the two repaired defects (block comment before a multi-byte last character; DEL inside a string), an invalid tail *)
Theorem C10_tok_examples :
  tokens_all [47; 42; 32; 42; 47; 195; 169] = Ok ([inr (mkTokErr 1 6 (Unexpected 233))], [None; None; None]) /\
  tokens_all [34; 97; 127; 34] = Ok ([inr (mkTokErr 1 1 BadString)], [None; None; None]) /\
  tokens_all [97; 58; 32; 131] = Ok ([inl (mkToken 1 1 (TIdentifier [97])); inl (mkToken 1 2 TLabelMark); inr (mkTokErr 1 4 BadUnicode)], [None; None; None]).
Proof. vm_compute. repeat split; reflexivity. Qed.
