(* C19 — Disassembly text of an instruction assembles back to that instruction.
   Proved at the level of parsed statements: `mnemonic i` / `display_args i addr` are the mnemonic and the
   argument trees of the printed text (DisplayArgs.v); the printed bytes themselves are DisplayModel.display.
   The tie  text -> tokens -> these trees  is proved through the tokenizer and parser models: by kernel sweep for every
   16-bit pattern without a PC-relative operand (C19_text_roundtrip16) and, for the PC-relative instructions and ALL label
   values, through the text level of C09 (C19_text_statement_pcrel, C19_text_roundtrip_pcrel); it is also exercised on the
   real tokenizer/parser/evaluator by the C19 correspondence stream, which assembles every printed text. *)
From Coq Require Import ZArith NArith List String.
From Trion Require Import Text.Types Expr.EvalModel Arm.Instr Arm.EncodeModel Arm.DisplayModel Arm.DisplayArgs Arm.AsmStmtModel Arm.AsmStmtProofs Arm.AsmEvalLink Arm.DecodeModel Arm.DecProofs Arm.TextSweep Bin.TextRoundtrip Text.Pipeline Arm.TextPcrel.
Import ListNotations.
Open Scope N_scope.

(* every printed mnemonic is in the assembler's table, with the template of the same instruction kind *)
Theorem C19_mnemonic_accepted : forall i, template (mnemonic i) = Some (kind_template i).
Proof. exact template_of_mnemonic. Qed.

(* For every instruction the encoder accepts (in particular every decoded one, C03), at every address whose
   PC-relative target lies inside the address space, the printed statement — labels bound as named
   (ev_display) — is processed by the assembler's operand converters to exactly that instruction; its bytes
   are then the canonical encoding by C01.  Any alignment of the address. *)
Theorem C19_statement_roundtrip : forall ev local i addr hws, ev_display ev ->
  wf_instr i -> enc i = EncOk hws -> addr < 4294967296 -> target_in_space i addr = true ->
  conv_val (assemble_stmt ev local addr (mnemonic i) (display_args i addr)) = Some i.
Proof. exact stmt_roundtrip. Qed.

(* the same with the model of asm::simplify::evaluate (C07/C08) as the evaluator: the only premise left about
   the environment is that the labels the text mentions are defined at the addresses they name *)
Theorem C19_statement_roundtrip_eval : forall lk local i addr hws,
  (forall t, t < 4294967296 -> lk (label t) = Found (Z.of_N t)) ->
  wf_instr i -> enc i = EncOk hws -> addr < 4294967296 -> target_in_space i addr = true ->
  conv_val (assemble_stmt (ev_of lk) local addr (mnemonic i) (display_args i addr)) = Some i.
Proof. exact stmt_roundtrip_eval. Qed.

(* down to the printed characters: for EVERY decodable 16-bit pattern whose instruction has no PC-relative operand,
   at every address, the printed text is tokenized (TokenModel), parsed (ParseModel) to one instruction statement,
   its mnemonic found and its operands converted, yielding exactly the decoded instruction (kernel sweep over all
   2^16 halfwords for the text -> statement step).  PC-relative texts mention an address-dependent label: see
   C19_text_roundtrip_pcrel below. *)
Theorem C19_text_roundtrip16 : forall lk local bs i addr,
  (forall t, t < 4294967296 -> lk (label t) = Found (Z.of_N t)) ->
  bytes_ok bs -> dec bs = DecOk 2 i -> pcrel i = false -> addr < 4294967296 ->
  asm_text lk local addr (display i addr) = Some i.
Proof. exact text_to_instr16. Qed.

(* the PC-relative instructions (ADR, B, B<cc>, BL, LDR literal), for ALL label values (which no sweep can cover): the printed
   characters `MNEMONIC [Rd, ]l_XXXXXXXX;` are tokenized (TokenModel) and parsed (ParseModel) to exactly one instruction
   statement with the mnemonic and argument trees of DisplayArgs.  (The text is an instance of ShowSpec.show; characters ->
   tokens is ShowProofs.show_tokens, tokens -> statement is C09.) *)
Theorem C19_text_statement_pcrel : forall i addr, pcrel i = true ->
  stmt_of_text (display i addr) = Some (mnemonic i, display_args i addr).
Proof. exact text_roundtrip_pcrel. Qed.

(* ... and from the printed characters back to the instruction: for every encodable PC-relative instruction (BL is 32-bit, so
   the premise is the encoder's acceptance rather than a 16-bit decode), at every address with the target inside the address
   space, labels bound as named *)
Theorem C19_text_roundtrip_pcrel : forall lk local i addr hws,
  (forall t, t < 4294967296 -> lk (label t) = Found (Z.of_N t)) ->
  wf_instr i -> enc i = EncOk hws -> pcrel i = true -> addr < 4294967296 -> target_in_space i addr = true ->
  asm_text lk local addr (display i addr) = Some i.
Proof. exact text_to_instr_pcrel. Qed.

(* the remaining kinds, the 32-bit instructions without a PC-relative operand (MRS, MSR, DMB, DSB, ISB, UDF.W; text -> statement
   by kernel sweeps over all register / system register pairs and all 2^16 UDF.W payloads): with C19_text_roundtrip16 and
   C19_text_roundtrip_pcrel every instruction kind is covered from the printed characters *)
Theorem C19_text_roundtrip_wide : forall lk local i addr hws,
  (forall t, t < 4294967296 -> lk (label t) = Found (Z.of_N t)) ->
  wf_instr i -> enc i = EncOk hws -> wide_plain i = true -> addr < 4294967296 ->
  asm_text lk local addr (display i addr) = Some i.
Proof. exact text_to_instr_wide. Qed.

(* the printed label is the architectural target *)
Theorem C19_label_is_target : forall i addr t, pc_target i addr = Some t ->
  exists pre, display i addr = pre ++ label t ++ bytes_of_string ";"%string.
Proof. exact display_label. Qed.

Theorem C19_target_arithmetic : forall i addr t, addr < 4294967296 -> target_in_space i addr = true -> pc_target i addr = Some t ->
  match i with
  | Adr _ off => Z.of_N t = (Z.of_N (N.land addr 0xFFFFFFFC) + 4 + Z.of_N off)%Z
  | B _ off | Bl off => Z.of_N t = (Z.of_N addr + 4 + off)%Z
  | Ldr _ PC (Imm off) => Z.of_N t = (Z.of_N (N.land addr 0xFFFFFFFC) + 4 + off)%Z
  | _ => True
  end.
Proof. exact pc_target_arch. Qed.

Theorem C19_examples :
  display (Mov true R0 (Imm 1)) 0 = bytes_of_string "MOVS R0, 1;"%string /\
  display Sev 0 = bytes_of_string "SEV;"%string /\
  display (Add false R0 R0 (Reg SP)) 0 = bytes_of_string "ADD R0, R0, SP;"%string /\
  display (B Equal (-246)) 0xFFFFFFFC = bytes_of_string "BEQ l_FFFFFF0A;"%string /\
  display (Ldm R1 0x85) 0 = bytes_of_string "LDM R1, {R0, R2, R7};"%string /\
  stmt_of_text (display (B Equal (-246)) 0xFFFFFFFC) = Some (bytes_of_string "BEQ"%string, [AIdent (bytes_of_string "l_FFFFFF0A"%string)]) /\
  stmt_of_text (display (Ldr R3 PC (Imm 8)) 0x20000002) = Some (bytes_of_string "LDR"%string, [AIdent (bytes_of_string "R3"%string); AIdent (bytes_of_string "l_2000000C"%string)]).
Proof. vm_compute. repeat split. Qed.
