(* C12 (tokenizer half) — reported token positions point at the token.  Statements only; proofs live in Text/TokenProofs.v.
   To be merged with the parser / assembler half into C12.v by the coordinator. *)
From Coq Require Import NArith List.
From Trion Require Import Base.Utf8 Text.Types Text.TokenModel Text.PosSpec Text.TokenLemmas Text.TokenProofs.
Import ListNotations.
Open Scope N_scope.

(* state invariant: if (line, col) = pos_of pre for the text `pre` consumed so far, then a step that yields a token consumed
   `skipped ++ text` (separators, then the token), the token carries pos_of (pre ++ skipped) - the position of its first byte -
   and the new (line, col) is pos_of of everything consumed.  Covers the ASCII fast path, update_pos and both comment skippers. *)
Theorem C12_tok_pos_invariant : forall st pre t st', Valid (ts_data st) -> pos_st st = pos_of pre -> next_token st = Ok (Some (inl t), st') ->
  exists skipped text, ts_data st = skipped ++ text ++ ts_data st' /\ text <> [] /\
    (t_line t, t_col t) = pos_of (pre ++ skipped) /\ pos_st st' = pos_of (pre ++ skipped ++ text) /\ Valid (ts_data st').
Proof. exact tok_pos_invariant. Qed.

(* every token of Tokenizer::new(bs) is at pos_of (the input before the token's first byte) *)
Theorem C12_tok_token_pos : forall bs l, tokens_offsets bs = Ok l ->
  Forall (fun x => match fst x with inl t => (t_line t, t_col t) = pos_of (firstn (snd x) bs) | inr _ => True end) l.
Proof. exact tok_token_pos. Qed.

(* update_pos and pos_of agree on every text: pos_of is compositional *)
Theorem C12_tok_pos_compositional : forall pre d, upd (pos_of pre) d = pos_of (pre ++ d).
Proof. exact upd_pos_of. Qed.

(* non-vacuity: "é /*\n€*/ x" - x is the 4th character of line 2 (bytes: c3 a9 20 2f 2a 0a e2 82 ac 2a 2f 20 78) *)
Theorem C12_tok_examples :
  tokens_offsets [195; 169; 32; 47; 42; 10; 226; 130; 172; 42; 47; 32; 120; 32; 121] =
    Ok [(inr (mkTokErr 1 1 (Unexpected 233)), 0%nat)] /\
  tokens_offsets [34; 195; 169; 34; 32; 47; 42; 10; 226; 130; 172; 42; 47; 32; 120] =
    Ok [(inl (mkToken 1 1 (TString [195; 169])), 0%nat); (inl (mkToken 2 5 (TIdentifier [120])), 14%nat)] /\
  pos_of [34; 195; 169; 34; 32; 47; 42; 10; 226; 130; 172; 42; 47; 32] = (2, 5).
Proof. vm_compute. repeat split; reflexivity. Qed.
