(* C16 - UF2 writer output is well-formed and reproduces the data.
   Statements only; proofs live in Uf2/WriteProofs.v.  Model: Uf2/WriteModel.v (src/uf2/write.rs after the
   repair 7baf144); oracle: Uf2/ReaderSpec.v (an independent UF2 reader).

   Common hypotheses:  dest_ok d      - the destination is at most isize::MAX bytes long (a Rust guarantee);
                       call_ok w      - the address is a u32;
                       cost ops <= u32::MAX - the calls carry fewer than 2^32 bytes + calls in total.  This keeps the
                       block counter below u32::MAX: `write` (unlike `write_all`) does not test the counter, so after
                       2^32 - 1 blocks (a 2 TiB output) `self.count += 1` would overflow.  Not executable; reported. *)
From Coq Require Import NArith List Bool.
From Trion Require Import Uf2.WriteTypes Uf2.WriteModel Uf2.ReaderSpec Uf2.WriteProofs.
Import ListNotations.
Open Scope N_scope.

(* No call and no drop panics - in both arithmetic modes (overflow checks / debug assertions on or off): every slice
   range, every plain + - *, every % and the debug_assert of write.rs is in range.  An invalid configuration is
   refused by new/new_vec, a valid one accepted; every call returns Ok or an error value. *)
Theorem C16_no_panic : forall debug c d ops,
  dest_ok d -> Forall call_ok ops -> cost ops <= u32_max ->
  match session debug c d ops with
  | SRejected _ => ~ cfg_valid c
  | SDone rs fin => cfg_valid c /\ Forall not_panic rs /\ length rs = length ops /\ exists st, fin = Some st
  end.
Proof. exact session_no_panic. Qed.

(* new/new_vec accept exactly payload size 1..476 with an alignment >= 1 dividing it (= ReaderSpec.config_ok) *)
Theorem C16_reject_config : forall c d,
  (cfg_valid c <-> config_ok c = true) /\ (~ cfg_valid c -> exists e, new c d = inl e).
Proof. intros c d. split; [symmetry; apply config_ok_iff | apply new_rejects]. Qed.

(* a refused call changes nothing: no block appended, earlier blocks, position and counter as before *)
Theorem C16_reject_keeps : forall debug st o e st', step debug st o = (RErr e, st') -> st' = st.
Proof. exact step_reject_keeps. Qed.

(* the repaired defect: a single-block write longer than the payload size is refused, not truncated *)
Theorem C16_reject_too_long : forall debug st o,
  inv st -> call_ok o -> s_count st < u32_max -> len (w_data o) <= isize_max ->
  w_all o = false -> c_bs (s_cfg st) < len (w_data o) -> step debug st o = (RErr EOverflow, st).
Proof. exact write_too_long. Qed.

Theorem C16_reject_misaligned : forall debug st o,
  inv st -> call_ok o -> s_count st < u32_max -> len (w_data o) <= isize_max ->
  w_all o = false -> len (w_data o) mod c_align (s_cfg st) <> 0 -> exists e, step debug st o = (RErr e, st).
Proof. exact write_misaligned. Qed.

(* write_all: data whose padded end lies beyond 2^32 is refused *)
Theorem C16_reject_address_space : forall debug st o,
  inv st -> call_ok o -> s_count st < u32_max -> len (w_data o) <= isize_max ->
  w_all o = true -> w_data o <> [] -> u32_max + 1 < w_addr o + pad_to (c_align (s_cfg st)) (len (w_data o)) ->
  step debug st o = (RErr EAddress, st).
Proof. exact write_all_outside_address_space. Qed.

(* a fixed buffer with less than one block of room refuses a write *)
Theorem C16_reject_capacity : forall debug st o,
  inv st -> call_ok o -> s_count st < u32_max -> len (w_data o) <= isize_max ->
  w_all o = false -> w_data o <> [] -> s_kind st = KSlice -> d_len st - d_pos st < 512 ->
  exists e, step debug st o = (RErr e, st).
Proof. exact write_no_room. Qed.

(* the model is the straight-line function step_pure wherever the theorems apply (all panicking arms unreachable) *)
Theorem C16_step_is_pure : forall debug st o,
  inv st -> call_ok o -> s_count st < u32_max -> len (w_data o) <= isize_max -> step debug st o = step_pure st o.
Proof. exact step_spec. Qed.

(* Every block encode stores (it stores `blk c bg k a data bl nf`, see C16_step_is_pure / WriteProofs.write_pure,
   wa_pure), once drop has patched the total T into it, is read by the independent reader as: three magic numbers
   present, flags = not-main-flash bit + family bit iff a family id is configured, target address a, payload size bl,
   block number k, total T, family id (or 0), and a data area = data followed by zeros. *)
Theorem C16_block_fields : forall c bg k a data bl nf T,
  a <= u32_max -> bl <= u32_max -> k <= u32_max -> T <= u32_max -> info_of c <= u32_max -> len data <= 476 ->
  parse_block (patch_total T (blk c bg k a data bl nf)) =
  Some {| rb_flags := flags_of c nf; rb_target := a; rb_psize := bl; rb_no := k; rb_total := T;
          rb_info := info_of c; rb_data := data ++ repeat 0 (N.to_nat (476 - len data)) |}.
Proof. exact parse_blk. Qed.

(* After drop the blocks form a whole number of 512-byte blocks (the reader's split succeeds and returns exactly the
   stored blocks), as many as the block counter says, fewer than 2^32. *)
Theorem C16_blocks_partial : forall debug c d ops,
  dest_ok d -> Forall call_ok ops -> cost ops <= u32_max ->
  forall rs st, session debug c d ops = SDone rs (Some st) ->
  split_blocks (length (concat (s_blocks st))) (concat (s_blocks st)) = Some (s_blocks st)
  /\ len (concat (s_blocks st)) = 512 * s_count st
  /\ s_count st <= u32_max.
Proof. exact session_whole_blocks. Qed.

(* NOT PROVED (full statements; checked on every run by evaluating ReaderSpec on the implementation's bytes):

   C16_blocks : forall debug c d ops, dest_ok d -> Forall call_ok ops -> cost ops <= u32_max -> info_of c <= u32_max ->
     forall rs st, session debug c d ops = SDone rs (Some st) ->
     blocks_wellformed c (concat (s_blocks st)) = true.
   Missing: the induction over the run that carries "s_blocks st = the list of `blk c bg k ...` with k = 0, 1, ..."
   (C16_block_fields + C16_step_is_pure + C16_blocks_partial are its three ingredients; the glue is not written).

   C16_reconstruct : (same hypotheses) ->
     reconstructs c (accepted ops rs) (concat (s_blocks st)) = true
     where accepted ops rs = the calls whose result is ROk.
   Missing: the same induction plus the per-call lemma "the blocks of one write_all read back as
   zip_from addr (data ++ zeros)" (from WriteProofs.chunks_count: chunks are full except the last, concat = data). *)

(* non-vacuity *)
Definition ex_cfg := {| c_fam := Some 0xE48BFF56; c_bs := 4; c_align := 2 |}.
Definition ex_w0 := {| w_all := true; w_addr := 0x10000000; w_nf := false; w_data := [1;2;3;4;5] |}.
Definition ex_w1 := {| w_all := false; w_addr := 0x20; w_nf := true; w_data := [9;8;7;6;5;4] |}.
Definition ex_w2 := {| w_all := false; w_addr := 0x20; w_nf := true; w_data := [9;8] |}.
Definition out_of (r : session_result) : list N := match r with SDone _ (Some st) => concat (s_blocks st) | _ => [] end.
Definition res_of (r : session_result) : list res := match r with SDone rs _ => rs | _ => [] end.

Theorem C16_examples :
  res_of (session true ex_cfg (DVector 0) [ex_w0; ex_w1; ex_w2]) = [ROk 2; RErr EOverflow; ROk 0]
  /\ blocks_wellformed ex_cfg (out_of (session true ex_cfg (DVector 0) [ex_w0; ex_w1; ex_w2])) = true
  /\ reconstructs ex_cfg [ex_w0; ex_w2] (out_of (session true ex_cfg (DVector 0) [ex_w0; ex_w1; ex_w2])) = true
  /\ reconstructs ex_cfg [ex_w0; ex_w1; ex_w2] (out_of (session true ex_cfg (DVector 0) [ex_w0; ex_w1; ex_w2])) = false.
Proof. vm_compute. repeat split. Qed.
