(* C16 - UF2 writer output is well-formed and reproduces the data.
   Statements only; proofs live in Uf2/WriteProofs.v (one call, no panic, refusals, one block) and
   Uf2/WriteRunProofs.v (whole call sequences: block numbering, read-back, refused calls).  Model: Uf2/WriteModel.v (src/uf2/write.rs after the
   repair 7baf144); oracle: Uf2/ReaderSpec.v (an independent UF2 reader).

   Common hypotheses:  dest_ok d      - the destination is at most isize::MAX bytes long (a Rust guarantee);
                       call_ok w      - the address is a u32;
                       cost ops <= u32::MAX - the calls carry fewer than 2^32 bytes + calls in total.  This keeps the
                       block counter below u32::MAX: `write` (unlike `write_all`) does not test the counter, so after
                       2^32 - 1 blocks (a 2 TiB output) `self.count += 1` would overflow.  Not executable; reported.
                       info_of c <= u32_max - the family id is a u32 (read-back theorems only).
   Vocabulary of the whole-sequence theorems (Uf2/WriteRunProofs.v): accepted ops rs = the calls whose result is Ok,
   is_rok r = r is an Ok result, sum_blocks c ws = sum of ReaderSpec.blocks_of_call c over ws,
   item_addr = the address of a read-back item. *)
From Coq Require Import NArith List Bool.
From Trion Require Import Uf2.WriteTypes Uf2.WriteModel Uf2.ReaderSpec Uf2.WriteProofs Uf2.WriteRunProofs.
Import ListNotations.
Open Scope N_scope.

(* No call and no drop panics - in both arithmetic modes (overflow checks / debug assertions on or off): every slice
   range, every plain + - *, every % and the debug_assert of write.rs is in range.  An invalid configuration is
   refused by new/new_vec, a valid one accepted; every call returns Ok or an error value. *)
Theorem C16_no_panic : forall debug c d ops,
  dest_ok d -> Forall call_ok ops -> cost ops <= u32_max ->
  match session debug c d ops with
  | SRejected _ => ~ cfg_valid c
  | SDone rs fin => cfg_valid c /\ Forall not_panic rs /\ length rs = length ops /\ exists st, fin = Some st
  end.
Proof. exact session_no_panic. Qed.

(* new/new_vec accept exactly payload size 1..476 with an alignment >= 1 dividing it (= ReaderSpec.config_ok) *)
Theorem C16_reject_config : forall c d,
  (cfg_valid c <-> config_ok c = true) /\ (~ cfg_valid c -> exists e, new c d = inl e).
Proof. intros c d. split; [symmetry; apply config_ok_iff | apply new_rejects]. Qed.

(* a refused call changes nothing: no block appended, earlier blocks, position and counter as before *)
Theorem C16_reject_keeps : forall debug st o e st', step debug st o = (RErr e, st') -> st' = st.
Proof. exact step_reject_keeps. Qed.

(* the repaired defect: a single-block write longer than the payload size is refused, not truncated *)
Theorem C16_reject_too_long : forall debug st o,
  inv st -> call_ok o -> s_count st < u32_max -> len (w_data o) <= isize_max ->
  w_all o = false -> c_bs (s_cfg st) < len (w_data o) -> step debug st o = (RErr EOverflow, st).
Proof. exact write_too_long. Qed.

Theorem C16_reject_misaligned : forall debug st o,
  inv st -> call_ok o -> s_count st < u32_max -> len (w_data o) <= isize_max ->
  w_all o = false -> len (w_data o) mod c_align (s_cfg st) <> 0 -> exists e, step debug st o = (RErr e, st).
Proof. exact write_misaligned. Qed.

(* write_all: data whose padded end lies beyond 2^32 is refused *)
Theorem C16_reject_address_space : forall debug st o,
  inv st -> call_ok o -> s_count st < u32_max -> len (w_data o) <= isize_max ->
  w_all o = true -> w_data o <> [] -> u32_max + 1 < w_addr o + pad_to (c_align (s_cfg st)) (len (w_data o)) ->
  step debug st o = (RErr EAddress, st).
Proof. exact write_all_outside_address_space. Qed.

(* a fixed buffer with less than one block of room refuses a write *)
Theorem C16_reject_capacity : forall debug st o,
  inv st -> call_ok o -> s_count st < u32_max -> len (w_data o) <= isize_max ->
  w_all o = false -> w_data o <> [] -> s_kind st = KSlice -> d_len st - d_pos st < 512 ->
  exists e, step debug st o = (RErr e, st).
Proof. exact write_no_room. Qed.

(* the model is the straight-line function step_pure wherever the theorems apply (all panicking arms unreachable) *)
Theorem C16_step_is_pure : forall debug st o,
  inv st -> call_ok o -> s_count st < u32_max -> len (w_data o) <= isize_max -> step debug st o = step_pure st o.
Proof. exact step_spec. Qed.

(* Every block encode stores (it stores `blk c bg k a data bl nf`, see C16_step_is_pure / WriteProofs.write_pure,
   wa_pure), once drop has patched the total T into it, is read by the independent reader as: three magic numbers
   present, flags = not-main-flash bit + family bit iff a family id is configured, target address a, payload size bl,
   block number k, total T, family id (or 0), and a data area = data followed by zeros. *)
Theorem C16_block_fields : forall c bg k a data bl nf T,
  a <= u32_max -> bl <= u32_max -> k <= u32_max -> T <= u32_max -> info_of c <= u32_max -> len data <= 476 ->
  parse_block (patch_total T (blk c bg k a data bl nf)) =
  Some {| rb_flags := flags_of c nf; rb_target := a; rb_psize := bl; rb_no := k; rb_total := T;
          rb_info := info_of c; rb_data := data ++ repeat 0 (N.to_nat (476 - len data)) |}.
Proof. exact parse_blk. Qed.

(* Whole call sequences.  For an accepted configuration and ANY sequence of write / write_all calls, after drop the
   independent reader accepts the output: it is a whole number of 512-byte blocks, each with the three magic numbers;
   block k carries block number k and total = the number of blocks, the family-id flag and the family id iff one is
   configured (no other flag than family-id / not-main-flash), a payload size between 1 and the configured size
   (<= 476) that is a multiple of the alignment.  (blocks_wellformed = ReaderSpec's clause 1; info_of c <= u32_max:
   the family id is a u32.) *)
Theorem C16_blocks : forall debug c d ops,
  dest_ok d -> Forall call_ok ops -> cost ops <= u32_max -> info_of c <= u32_max ->
  forall rs st, session debug c d ops = SDone rs (Some st) ->
  blocks_wellformed c (concat (s_blocks st)) = true.
Proof. exact session_blocks_wellformed. Qed.

(* Reading the blocks back (the reader copies `payload size` bytes of each block to its target address) yields, in file
   order, exactly what the accepted calls (`accepted ops rs` = the calls whose result is Ok) ask for: for each call the
   data at its address, followed only by zeros up to the next multiple of the alignment (write_all) or up to the
   payload size (write), with the call's not-main-flash flag; nothing from a refused call. *)
Theorem C16_reconstruct : forall debug c d ops,
  dest_ok d -> Forall call_ok ops -> cost ops <= u32_max -> info_of c <= u32_max ->
  forall rs st, session debug c d ops = SDone rs (Some st) ->
  reconstructs c (accepted ops rs) (concat (s_blocks st)) = true.
Proof. exact session_reconstructs. Qed.

(* ... and the items of one call have pairwise different (consecutive) addresses: no address is emitted twice *)
Theorem C16_reconstruct_once : forall c w, NoDup (map item_addr (expected_call c w)).
Proof. exact expected_call_nodup. Qed.

(* Refused calls, whole-sequence form.  Deleting the refused calls from the sequence gives the same results for the
   other calls and the same final writer state (every block byte, position, counter): a refused call has no effect. *)
Theorem C16_reject : forall debug c d ops rs st,
  session debug c d ops = SDone rs (Some st) ->
  session debug c d (accepted ops rs) = SDone (filter is_rok rs) (Some st).
Proof. exact session_skip_rejected. Qed.

(* From any reachable state a call sequence only appends to the stored blocks (earlier blocks stay as they are), and
   appends exactly the blocks its accepted calls ask for (ReaderSpec.blocks_of_call): a refused call appends none. *)
Theorem C16_reject_appends : forall debug st ops rs st',
  inv st -> Forall call_ok ops -> s_count st + cost ops <= u32_max ->
  run debug st ops = (rs, Some st') ->
  exists new, s_blocks st' = s_blocks st ++ new
              /\ N.of_nat (length new) = sum_blocks (s_cfg st) (accepted ops rs).
Proof. exact run_appends. Qed.

(* The output is counter x 512 bytes, the counter = number of stored blocks = sum of the accepted calls' block numbers
   (1 per non-empty write, ceil(padded length / payload size) per write_all), fewer than 2^32. *)
Theorem C16_block_count : forall debug c d ops,
  dest_ok d -> Forall call_ok ops -> cost ops <= u32_max ->
  forall rs st, session debug c d ops = SDone rs (Some st) ->
  len (concat (s_blocks st)) = 512 * s_count st
  /\ s_count st = sum_blocks c (accepted ops rs)
  /\ N.of_nat (length (s_blocks st)) = s_count st
  /\ s_count st <= u32_max.
Proof. exact session_counts. Qed.

(* Nothing of C16 is left unproved for the model.  What the theorems do not cover (see props/C16.json): runs with
   2^32 or more bytes + calls (cost ops > u32::MAX: `write` does not test the block counter), and the tie between the
   model and write.rs, which is the correspondence stream (it also evaluates blocks_wellformed / reconstructs on the
   implementation's bytes on every run). *)

(* non-vacuity *)
Definition ex_cfg := {| c_fam := Some 0xE48BFF56; c_bs := 4; c_align := 2 |}.
Definition ex_w0 := {| w_all := true; w_addr := 0x10000000; w_nf := false; w_data := [1;2;3;4;5] |}.
Definition ex_w1 := {| w_all := false; w_addr := 0x20; w_nf := true; w_data := [9;8;7;6;5;4] |}.
Definition ex_w2 := {| w_all := false; w_addr := 0x20; w_nf := true; w_data := [9;8] |}.
Definition out_of (r : session_result) : list N := match r with SDone _ (Some st) => concat (s_blocks st) | _ => [] end.
Definition res_of (r : session_result) : list res := match r with SDone rs _ => rs | _ => [] end.

Theorem C16_examples :
  res_of (session true ex_cfg (DVector 0) [ex_w0; ex_w1; ex_w2]) = [ROk 2; RErr EOverflow; ROk 0]
  /\ blocks_wellformed ex_cfg (out_of (session true ex_cfg (DVector 0) [ex_w0; ex_w1; ex_w2])) = true
  /\ reconstructs ex_cfg [ex_w0; ex_w2] (out_of (session true ex_cfg (DVector 0) [ex_w0; ex_w1; ex_w2])) = true
  /\ reconstructs ex_cfg [ex_w0; ex_w1; ex_w2] (out_of (session true ex_cfg (DVector 0) [ex_w0; ex_w1; ex_w2])) = false
  /\ accepted [ex_w0; ex_w1; ex_w2] (res_of (session true ex_cfg (DVector 0) [ex_w0; ex_w1; ex_w2])) = [ex_w0; ex_w2]
  /\ sum_blocks ex_cfg [ex_w0; ex_w2] = 3.
Proof. vm_compute. repeat split. Qed.
