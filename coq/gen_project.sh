#!/bin/sh
# regenerate _CoqProject from the files present (Extract*.v are compiled separately by ocaml/build.sh)
cd "$(dirname "$0")"
{ echo "-Q theories Trion"; echo "-arg -w -arg -notation-overridden,-deprecated-hint-without-locality"; find theories -name '*.v' | grep -v '/Extract/' | LC_ALL=C sort; } > _CoqProject.new
if ! cmp -s _CoqProject.new _CoqProject 2>/dev/null; then mv _CoqProject.new _CoqProject; coq_makefile -f _CoqProject -o Makefile >/dev/null; else rm _CoqProject.new; fi
[ -f Makefile ] || coq_makefile -f _CoqProject -o Makefile >/dev/null
