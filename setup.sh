#!/bin/sh
# Offline build of everything the checks need: the Coq development (full .vo), the extracted model
# binaries, the Rust harness (built against /repo's working tree).  Idempotent.
set -e
cd "$(dirname "$0")"
export CARGO_NET_OFFLINE=true
mkdir -p .build evidence
./coq/gen_project.sh
# -k: a proof file that is being worked on must not prevent the other properties from building; every check
# builds (and so verifies) its own Properties/<ID>.vo again
timeout 7200 make -C coq -j16 -k || echo "setup: some Coq files did not compile (each check reports its own)"
for f in coq/theories/Extract/Extract*.v; do
  id=$(basename "$f" .v); id=${id#Extract}
  ./ocaml/build.sh "$id" &
done
wait
(cd harness && cargo build --offline --release --bins && cargo build --offline --profile relchk --bins)
echo setup done
