#!/bin/sh
# Offline build of everything the checks need: the Coq development (full .vo), the extracted model
# binaries, the Rust harness (built against /repo's working tree).  Idempotent.
set -e
cd "$(dirname "$0")"
export CARGO_NET_OFFLINE=true
mkdir -p .build evidence
./coq/gen_project.sh
timeout 7200 make -C coq -j16
for f in coq/theories/Extract/Extract*.v; do
  id=$(basename "$f" .v); id=${id#Extract}
  ./ocaml/build.sh "$id" &
done
wait
(cd harness && cargo build --offline --release --bins && cargo build --offline --profile relchk --bins)
echo setup done
