#!/bin/bash
# usage: tools/harmless_run.sh <dir with patch.diff meta.json> <name> <check ids...>
# A behaviour-preserving change of trion must raise NO alarm: apply it in a scratch worktree, confirm the 33 tests pass,
# run the named checks against the worktree (VERIF_REPO) and report any that does not print OK.
set -u
SRC="$1"; NAME="$2"; shift 2
WT=/tmp/wt_harmless_$$
export CARGO_NET_OFFLINE=true VERIF_ALT_TAG=_h
git -C /repo worktree add -q --detach "$WT" HEAD || exit 2
trap 'git -C /repo worktree remove --force "$WT" >/dev/null 2>&1' EXIT
(cd "$WT" && git apply "$SRC/patch.diff") || { echo "patch does not apply"; exit 2; }
(cd "$WT" && cargo test --offline --lib >/tmp/harm_suite_$$.log 2>&1); SUITE=$?
NPASS=$(grep -o "[0-9]* passed" /tmp/harm_suite_$$.log | head -1); rm -f /tmp/harm_suite_$$.log
rm -rf "$WT/target"
RES=""
for id in "$@"; do
  out=$(cd /verif && VERIF_REPO="$WT" ./check "$id" --tier quick 2>&1 | grep -E "^(VIOLATION|OK)" | head -2)
  if echo "$out" | grep -q "^OK"; then RES="$RES $id:ok"; else RES="$RES $id:ALARM"; echo "  [$id] $out"; fi
done
mkdir -p /verif/seeded/harmless/$NAME; cp "$SRC/patch.diff" /verif/seeded/harmless/$NAME/
python3 - "$SRC/meta.json" "/verif/seeded/harmless/$NAME/meta.json" "$RES" "$NPASS" <<'PY'
import json,sys
m=json.load(open(sys.argv[1])); m["suite"]=sys.argv[4]; m["checks_run"]=sys.argv[3].split()
json.dump(m,open(sys.argv[2],"w"),indent=1)
PY
echo "HARMLESS $NAME (suite $NPASS):$RES"
