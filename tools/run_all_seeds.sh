#!/bin/bash
# Regression of the self-test: every seeded change under /verif/seeded must still be reported by the check of the
# property it breaks (run against a scratch worktree, never /repo).  Output: one RESULT line per seed.
cd /verif
for d in seeded/*/; do
  n=$(basename $d); [ "$n" = "harmless" ] && continue
  id=$(python3 -c "import json;print(json.load(open('$d/meta.json'))['property'])")
  rm -rf /tmp/seed_rerun_$$; mkdir -p /tmp/seed_rerun_$$; cp $d/patch.diff $d/demo.rs $d/meta.json /tmp/seed_rerun_$$/
  tools/seed_confirm.sh /tmp/seed_rerun_$$ $n $id 2>&1 | grep -E "RESULT|REJECT|apply"
done
rm -rf /tmp/seed_rerun_$$
