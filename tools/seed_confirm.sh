#!/bin/bash
# usage: tools/seed_confirm.sh <dir with patch.diff demo.rs meta.json> <seed-name> <check ids...>
# 1. in a scratch worktree of /repo: clean tree -> demo passes; patched -> suite (33 tests) passes and demo fails
# 2. run the named checks against the patched worktree (VERIF_REPO override; /repo is not touched); report which raise VIOLATION
# 3. on success copy the seed to /verif/seeded/<seed-name>/ and append what was run to meta.json
set -u
SRC="$1"; NAME="$2"; shift 2
WT=/tmp/wt_confirm_$$
export CARGO_NET_OFFLINE=true
git -C /repo worktree add -q --detach "$WT" HEAD || exit 2
trap 'git -C /repo worktree remove --force "$WT" >/dev/null 2>&1' EXIT
mkdir -p "$WT/tests"; cp "$SRC/demo.rs" "$WT/tests/seed_demo.rs"
(cd "$WT" && cargo test --offline --test seed_demo >/tmp/seed_clean_$$.log 2>&1); CLEAN=$?
(cd "$WT" && git apply "$SRC/patch.diff") || { echo "patch does not apply"; exit 2; }
(cd "$WT" && cargo test --offline --lib >/tmp/seed_suite_$$.log 2>&1); SUITE=$?
NPASS=$(grep -o "[0-9]* passed" /tmp/seed_suite_$$.log | head -1)
(cd "$WT" && cargo test --offline --test seed_demo >/tmp/seed_patched_$$.log 2>&1); PATCHED=$?
echo "demo on clean tree: exit $CLEAN (want 0); suite with patch: exit $SUITE ($NPASS); demo with patch: exit $PATCHED (want != 0)"
rm -f /tmp/seed_*_$$.log
if [ $CLEAN -ne 0 ] || [ $SUITE -ne 0 ] || [ $PATCHED -eq 0 ]; then echo "SEED REJECTED"; exit 1; fi
# the checks run against the patched scratch worktree (VERIF_REPO), /repo itself is never touched
rm -rf "$WT/tests"
RES=""
for id in "$@"; do
  out=$(cd /verif && VERIF_REPO="$WT" ./check "$id" --tier quick 2>&1 | grep -E "^(VIOLATION|OK|KNOWN)" | head -3)
  echo "  [$id] $out"
  if echo "$out" | grep -q "^VIOLATION"; then
    if echo "$out" | grep -q "no-failing-input-found"; then RES="$RES $id:caught-nofail"; else RES="$RES $id:caught"; fi
  else RES="$RES $id:missed"; fi
done
mkdir -p /verif/seeded/$NAME; cp "$SRC/patch.diff" "$SRC/demo.rs" /verif/seeded/$NAME/
python3 - "$SRC/meta.json" "/verif/seeded/$NAME/meta.json" "$RES" "$NPASS" <<'PY'
import json,sys
m=json.load(open(sys.argv[1]))
m["confirmed"]="scratch worktree of /repo HEAD: demo passes on the clean tree; with patch.diff applied `cargo test --offline --lib` passes (%s) and the demo fails" % sys.argv[4]
m["checks_run"]=sys.argv[3].split()
json.dump(m,open(sys.argv[2],"w"),indent=1)
PY
echo "RESULT $NAME:$RES"
