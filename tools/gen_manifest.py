#!/usr/bin/env python3
"""Regenerates MANIFEST.json from props/<ID>.json (keys level_text, level_note) and properties.jsonl.
Properties without a props file (or with "claimed": false) are listed under not_applicable with their reason."""
import json, os
R = os.path.dirname(os.path.dirname(os.path.abspath(__file__)))
allp = [json.loads(l)["id"] for l in open(os.path.join(R, "properties.jsonl"))]
TECH = "machine-checked proof in Coq 8.16.1 about a Gallina model + differential correspondence check of the extracted model against the Rust code"
m = {"version": 1, "setup_cmd": "./setup.sh",
     "hooks": {"guard": "--cfg kosmosprime_trion_verif",
               "enable": "no hooks are needed: every observation point is reachable through trion's public API or its two executables; the harness crate depends on /repo by path",
               "baseline_off_cmd": "cd /repo && cargo test --workspace --no-fail-fast --offline", "source_commits": [], "add_only": True},
     "engines": [{"name": "coq-proof+correspondence", "path": "check", "serves_properties": [],
                  "kind_free_text": "Coq 8.16.1 theorems about hand-written Gallina models; models/specs extracted to OCaml (ExtrOcamlBasic only) and run against the Rust implementation on generated cases (correspondence); the spec is also evaluated directly on the implementation's results"}],
     "checks": [], "not_applicable": [],
     "notes": "See DESIGN.md. A property appears under checks only once its theorems are proved (Properties/<ID>.v) and its correspondence stream runs; the others are listed under not_applicable with the reason."}
reasons = {}
rp = os.path.join(R, "props", "not_claimed.json")
if os.path.exists(rp): reasons = json.load(open(rp))
claimed = set(json.load(open(os.path.join(R, "props", "claimed.json"))))   # the coordinator's explicit list
for pid in allp:
    f = os.path.join(R, "props", pid + ".json")
    cfg = json.load(open(f)) if os.path.exists(f) else None
    if cfg and cfg.get("claimed", True) and pid in claimed:
        m["engines"][0]["serves_properties"].append(pid)
        m["checks"].append({"property_id": pid, "quick_cmd": f"./check {pid} --tier quick", "thorough_cmd": f"./check {pid} --tier thorough",
                            "evidence_file": f"evidence/{pid}.json", "replay_cmd_template": f"./check {pid} --replay {{path}}",
                            "engine": "coq-proof+correspondence",
                            "level_claimed": {"category": "proof", "text": cfg["level_text"], "design_ref": "DESIGN.md section 3, " + pid},
                            "level_note": cfg["level_note"], "technique": cfg.get("technique", TECH)})
    else:
        m["not_applicable"].append({"property_id": pid, "reason": reasons.get(pid, "not built yet (model, theorems and correspondence stream under construction; DESIGN.md section 7 gives the order)")})
json.dump(m, open(os.path.join(R, "MANIFEST.json"), "w"), indent=1)
print("checks:", [c["property_id"] for c in m["checks"]])
