#![allow(dead_code)]
//! Random expression trees over the whole operator language of the assembler (`+ - * / % & | ^ << >>`, unary `-` and `!`,
//! parentheses, nesting up to a chosen depth) for the C05 / C06 generators (included by `#[path]` from bin/ctx.rs and
//! bin/pipe.rs, like projrun.rs, so that lib.rs stays untouched).
//!
//! A generator-side interval evaluation (checked 64-bit arithmetic, truncating division: the semantics of
//! coq/theories/Expr/Denote.v `den64`) keeps the generated programs assembling: a node is only built when no value in
//! the operand intervals can overflow, divide by zero or shift out of range.  It is NOT an oracle: the verdicts come from
//! the Coq specs evaluated by the drivers; a wrong interval here only costs a valid program.
use verif_harness::Rng;

#[derive(Clone, Debug, PartialEq)]
pub enum Ex
{
	Num(i64),                 // non-negative literal
	Name(String),             // a symbol
	Raw(String),              // any other leaf text (register name, string literal): ill-typed programs
	Bin(usize, Box<Ex>, Box<Ex>),
	Neg(Box<Ex>),
	Not(Box<Ex>),
}

pub const OPS: [&str; 10] = ["+", "-", "*", "/", "%", "&", "|", "^", "<<", ">>"];
pub const ADD: usize = 0; pub const SUB: usize = 1; pub const MUL: usize = 2; pub const DIV: usize = 3; pub const MOD: usize = 4;
pub const AND: usize = 5; pub const OR: usize = 6; pub const XOR: usize = 7; pub const SHL: usize = 8; pub const SHR: usize = 9;

/// binding strength as in src/text/operator.rs: `* / %` > `+ -` > `<< >>` > `&` > `^` > `|`
fn prec(op: usize) -> u8 { match op { 2 | 3 | 4 => 6, 0 | 1 => 5, 8 | 9 => 4, 5 => 3, 7 => 2, _ => 1 } }

pub type Iv = (i128, i128);
const MIN: i128 = i64::MIN as i128;
const MAX: i128 = i64::MAX as i128;
fn fits(iv: Iv) -> Option<Iv> { if iv.0 >= MIN && iv.1 <= MAX && iv.0 <= iv.1 { Some(iv) } else { None } }
fn clip(iv: Iv) -> Iv { (iv.0.max(MIN), iv.1.min(MAX)) }
/// smallest power of two above m (m >= 0)
fn pow2_above(m: i128) -> i128 { let mut p = 1i128; while p <= m { p <<= 1; } p }
fn corners(a: Iv, b: Iv, f: impl Fn(i128, i128) -> i128) -> Iv
{
	let c = [f(a.0, b.0), f(a.0, b.1), f(a.1, b.0), f(a.1, b.1)];
	(*c.iter().min().unwrap(), *c.iter().max().unwrap())
}

/// interval of `a op b`, None when some pair of operand values is an error (overflow, division by zero, shift amount)
pub fn combine(op: usize, a: Iv, b: Iv) -> Option<Iv>
{
	let point = a.0 == a.1 && b.0 == b.1;
	let (x, y) = (a.0 as i64, b.0 as i64);
	match op
	{
		ADD => fits((a.0 + b.0, a.1 + b.1)),
		SUB => fits((a.0 - b.1, a.1 - b.0)),
		MUL => fits(corners(a, b, |p, q| p * q)),
		DIV | MOD =>
		{
			if b.0 <= 0 && b.1 >= 0 { return None; }
			if a.0 == MIN && b.0 <= -1 && b.1 >= -1 { return None; }
			if op == DIV { return fits(corners(a, b, |p, q| p / q)); }
			if point { return Some(((x % y) as i128, (x % y) as i128)); }
			let m = b.0.abs().max(b.1.abs()) - 1;
			Some((if a.0 < 0 { -m } else { 0 }, if a.1 > 0 { m } else { 0 }))
		},
		AND | OR | XOR =>
		{
			if point { let r = match op { AND => x & y, OR => x | y, _ => x ^ y } as i128; return Some((r, r)); }
			if op == AND && b.0 >= 0 { return Some((0, b.1)); }
			if op == AND && a.0 >= 0 { return Some((0, a.1)); }
			if a.0 >= 0 && b.0 >= 0 { return Some((0, pow2_above(a.1.max(b.1)) - 1)); }
			let p = pow2_above(a.0.abs().max(a.1.abs()).max(b.0.abs()).max(b.1.abs()));
			Some(clip((-p, p - 1)))
		},
		SHL =>
		{
			if b.0 < 0 || b.1 > 63 { return None; }
			if point { let r = x.wrapping_shl(y as u32) as i128; return Some((r, r)); }
			if a.0 >= 0 && a.1.leading_zeros() as i128 >= 65 + b.1 { return Some((a.0 << b.0, a.1 << b.1)); }
			Some((MIN, MAX))
		},
		SHR =>
		{
			if b.0 < 0 || b.1 > 63 { return None; }
			Some(corners(a, b, |p, q| p >> q))
		},
		_ => None,
	}
}
pub fn neg_iv(a: Iv) -> Option<Iv> { if a.0 == MIN { None } else { Some((-a.1, -a.0)) } }
pub fn not_iv(a: Iv) -> Iv { (-a.1 - 1, -a.0 - 1) }

/// interval of an expression; `env` gives the interval of a name (exact values are one-point intervals)
pub fn eval(e: &Ex, env: &dyn Fn(&str) -> Option<Iv>) -> Option<Iv>
{
	match e
	{
		Ex::Num(v) => Some((*v as i128, *v as i128)),
		Ex::Name(n) | Ex::Raw(n) => env(n),
		Ex::Bin(op, l, r) => combine(*op, eval(l, env)?, eval(r, env)?),
		Ex::Neg(v) => neg_iv(eval(v, env)?),
		Ex::Not(v) => Some(not_iv(eval(v, env)?)),
	}
}

pub fn mentions(e: &Ex, names: &[String]) -> bool
{
	match e
	{
		Ex::Num(_) => false,
		Ex::Name(n) | Ex::Raw(n) => names.iter().any(|x| x == n),
		Ex::Bin(_, l, r) => mentions(l, names) || mentions(r, names),
		Ex::Neg(v) | Ex::Not(v) => mentions(v, names),
	}
}

pub fn depth(e: &Ex) -> u32
{
	match e { Ex::Bin(_, l, r) => 1 + depth(l).max(depth(r)), Ex::Neg(v) | Ex::Not(v) => 1 + depth(v), _ => 0 }
}

pub fn konst(rng: &mut Rng) -> i64
{
	(match rng.below(12)
	{
		0..=3 => rng.below(17),
		4 => 1 << rng.below(13),
		5 => (1 << (1 + rng.below(16))) - 1,
		6 => rng.below(0x1_0000),
		7 => rng.below(0x1_0000_0000),
		8 | 9 => *rng.pick(&[0xFFu64, 0xFFFF, 0xFFFF_FFFF, 0x1FF, 3, 2, 4, 8, 0x1000, 0x2000, 0x4000, 1000, 7, 5]),
		10 => rng.below(1 << 40),
		_ => rng.below(1000),
	}) as i64
}

/// leaves: `names` (drawn with probability 3/5 when there are any) with their intervals, else a constant (bits of `kmask` only)
pub struct Leaves<'a> { pub names: &'a [(Ex, Iv)], pub kmask: i64 }

fn leaf(rng: &mut Rng, lv: &Leaves) -> (Ex, Iv)
{
	if !lv.names.is_empty() && rng.chance(3, 5) { return rng.pick(lv.names).clone(); }
	let k = konst(rng) & lv.kmask;
	(Ex::Num(k), (k as i128, k as i128))
}

/// operator families that the symbolic simplifier merges constants within: + - (and unary minus), *, /, &, |, ^
fn family_op(rng: &mut Rng, fam: usize) -> usize
{
	match fam { ADD | SUB => *rng.pick(&[ADD, SUB, 10]), x => x }
}

/// a random tree of depth <= `depth` whose every node is error-free on the leaf intervals; ops 10 = unary minus, 11 = not.
/// `fam`: operator of the parent (a child prefers the same family half of the time: `(s + 3) - 5`, `2 * (s * 4)`, `8 / (s / 2)`, `-(s + 1) + 2`)
pub fn gen(rng: &mut Rng, depth: u32, lv: &Leaves, fam: Option<usize>) -> (Ex, Iv)
{
	if depth == 0 || rng.chance(1, 6) { return leaf(rng, lv); }
	for _ in 0..6
	{
		let op = match fam { Some(f) if f < 10 && rng.chance(1, 2) => family_op(rng, f), _ => *rng.pick(&[ADD, ADD, SUB, SUB, MUL, DIV, DIV, MOD, AND, OR, XOR, XOR, SHL, SHR, 10, 10, 11]) };
		if op >= 10
		{
			let (e, iv) = gen(rng, depth - 1, lv, Some(if op == 10 { ADD } else { 11 }));
			if op == 10 { if let Some(r) = neg_iv(iv) { return (Ex::Neg(Box::new(e)), r); } }
			else { return (Ex::Not(Box::new(e)), not_iv(iv)); }
			continue;
		}
		let d_other = rng.below(depth as u64) as u32;
		let (dl, dr) = if rng.chance(1, 2) { (depth - 1, d_other) } else { (d_other, depth - 1) };
		let (l, li) = gen(rng, dl, lv, Some(op));
		let (r, ri) = if (op == SHL || op == SHR) && rng.chance(3, 4) { let k = rng.below(20) as i64; (Ex::Num(k), (k as i128, k as i128)) }
			else if (op == DIV || op == MOD) && rng.chance(1, 3) { let k = 1 + rng.below(16) as i64; let k = if rng.chance(1, 4) { -k } else { k }; (if k < 0 { Ex::Neg(Box::new(Ex::Num(-k))) } else { Ex::Num(k) }, (k as i128, k as i128)) }
			else { gen(rng, dr, lv, Some(op)) };
		if let Some(iv) = combine(op, li, ri) { return (Ex::Bin(op, Box::new(l), Box::new(r)), iv); }
	}
	leaf(rng, lv)
}

/// an expression of depth <= `depth` that mentions at least one of `must`
pub fn gen_with(rng: &mut Rng, depth: u32, lv: &Leaves, must: &[String]) -> (Ex, Iv)
{
	for _ in 0..12
	{
		let (e, iv) = gen(rng, depth, lv, None);
		if must.is_empty() || mentions(&e, must) { return (e, iv); }
	}
	// `name op constant` / `constant op name`
	let cands: Vec<&(Ex, Iv)> = lv.names.iter().filter(|(e, _)| mentions(e, must)).collect();
	let (n, ni) = (*rng.pick(&cands)).clone();
	for _ in 0..8
	{
		let k = konst(rng) & lv.kmask;
		let op = *rng.pick(&[ADD, SUB, XOR, OR, AND, MUL]);
		let (l, li, r, ri) = if rng.chance(1, 2) { (n.clone(), ni, Ex::Num(k), (k as i128, k as i128)) } else { (Ex::Num(k), (k as i128, k as i128), n.clone(), ni) };
		if let Some(iv) = combine(op, li, ri) { return (Ex::Bin(op, Box::new(l), Box::new(r)), iv); }
	}
	(n, ni)
}

/// `(e & mask) + plus`: a value in [plus, plus + mask] whatever e is
pub fn close_mask(e: Ex, mask: i64, plus: i64) -> Ex
{
	let m = Ex::Bin(AND, Box::new(e), Box::new(Ex::Num(mask)));
	if plus == 0 { m } else { Ex::Bin(ADD, Box::new(m), Box::new(Ex::Num(plus))) }
}

/// `e + d` / `d + e` / `e - d` with the value `want`, for an expression with the exact value `have`
pub fn close_exact(e: Ex, have: i64, want: i64, rng: &mut Rng) -> Option<Ex>
{
	let d = want as i128 - have as i128;
	if d < MIN + 1 || d > MAX { return None; }
	let k = Ex::Num(d.unsigned_abs() as i64);
	Some(if d == 0 { e } else if d > 0 { if rng.chance(1, 2) { Ex::Bin(ADD, Box::new(e), Box::new(k)) } else { Ex::Bin(ADD, Box::new(k), Box::new(e)) } }
		else if rng.chance(2, 3) { Ex::Bin(SUB, Box::new(e), Box::new(k)) } else { Ex::Bin(ADD, Box::new(Ex::Neg(Box::new(k))), Box::new(e)) })
}

fn num_text(v: i64, rng: &mut Rng) -> String
{
	match rng.below(6) { 0 => format!("0x{:X}", v), 1 => format!("0x{:x}", v), 2 if v < 4096 => format!("0b{:b}", v), 3 if v < 4096 => format!("0o{:o}", v), _ => format!("{}", v) }
}

/// the text of an expression; `minimal`: only the parentheses that precedence and left associativity require
pub fn show(e: &Ex, rng: &mut Rng, minimal: bool) -> String
{
	match e
	{
		Ex::Num(v) => num_text(*v, rng),
		Ex::Name(n) | Ex::Raw(n) => n.clone(),
		Ex::Neg(v) | Ex::Not(v) =>
		{
			let s = show(v, rng, minimal);
			let sign = if matches!(e, Ex::Neg(_)) { "-" } else { "!" };
			match **v { Ex::Num(_) | Ex::Name(_) | Ex::Raw(_) => format!("{}{}", sign, s), _ => format!("{}({})", sign, s) }
		},
		Ex::Bin(op, l, r) =>
		{
			let ls = show(l, rng, minimal);
			let rs = show(r, rng, minimal);
			let lp = match **l { Ex::Bin(lo, _, _) => !minimal || prec(lo) < prec(*op), _ => false };
			let rp = match **r { Ex::Bin(ro, _, _) => !minimal || prec(ro) <= prec(*op), Ex::Neg(_) | Ex::Not(_) => true, _ => false };
			format!("{} {} {}", if lp { format!("({})", ls) } else { ls }, OPS[*op], if rp { format!("({})", rs) } else { rs })
		},
	}
}

// ------------------------------------------------------------------ statements with one expression operand
/// every statement kind and operand position that takes an expression and is resolved later when a name is not yet known:
/// data values, immediates, memory operand offsets, BKPT/SVC/UDF operands, branch / ADR / LDR-literal targets.
pub struct Templ { pub text: &'static str, pub size: u64, pub mask: i64, pub plus: i64, pub kind: u8 }   // kind 0: value in [plus, plus+mask] (bits of mask); 1 B, 2 B<cond>, 3 BL, 4 ADR / LDR literal
const fn tp(text: &'static str, size: u64, mask: i64, plus: i64, kind: u8) -> Templ { Templ{text, size, mask, plus, kind} }
pub static TEMPL: &[Templ] = &[
	tp(".du8 {}", 1, 0xFF, 0, 0), tp(".du16 {}", 2, 0xFFFF, 0, 0), tp(".du32 {}", 4, 0xFFFF_FFFF, 0, 0), tp(".du32 {}", 4, 0xFFFF_FFFF, 0, 0), tp(".du16 {}", 2, 0xFFFF, 0, 0),
	tp("MOVS R1, {}", 2, 0xFF, 0, 0), tp("CMP R2, {}", 2, 0xFF, 0, 0), tp("ADDS R3, R3, {}", 2, 0xFF, 0, 0), tp("ADDS R3, R4, {}", 2, 7, 0, 0),
	tp("SUBS R5, R5, {}", 2, 0xFF, 0, 0), tp("SUBS R1, R0, {}", 2, 7, 0, 0), tp("LSLS R0, R1, {}", 2, 15, 1, 0), tp("LSRS R2, R3, {}", 2, 15, 1, 0), tp("ASRS R4, R5, {}", 2, 15, 1, 0),
	tp("ADD SP, SP, {}", 2, 0x1FC, 0, 0), tp("SUB SP, SP, {}", 2, 0x1FC, 0, 0), tp("ADD R1, SP, {}", 2, 0x3FC, 0, 0),
	tp("LDR R0, [R1 + ({})]", 2, 0x7C, 0, 0), tp("STR R0, [R1 + ({})]", 2, 0x7C, 0, 0), tp("LDRB R2, [R3 + ({})]", 2, 31, 0, 0), tp("STRB R2, [R3 + ({})]", 2, 31, 0, 0),
	tp("LDRH R4, [R5 + ({})]", 2, 0x3E, 0, 0), tp("STRH R4, [R5 + ({})]", 2, 0x3E, 0, 0), tp("LDR R6, [SP + ({})]", 2, 0x3FC, 0, 0), tp("STR R7, [SP + ({})]", 2, 0x3FC, 0, 0),
	tp("LDR R0, [({}) + R1]", 2, 0x7C, 0, 0), tp("STRB R0, [({}) + R7]", 2, 31, 0, 0),
	tp("BKPT {}", 2, 0xFF, 0, 0), tp("SVC {}", 2, 0xFF, 0, 0), tp("UDF.N {}", 2, 0xFF, 0, 0), tp("UDF.W {}", 4, 0xFFFF, 0, 0),
	tp("B {}", 2, 0, 0, 1), tp("BNE {}", 2, 0, 0, 2), tp("BGE {}", 2, 0, 0, 2), tp("BL {}", 4, 0, 0, 3), tp("ADR R0, {}", 2, 0, 0, 4), tp("LDR R1, {}", 2, 0, 0, 4),
];

