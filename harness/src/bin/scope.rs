//! C14: constant visibility follows file scope.
//!   F <hex name> <hex bytes> ; ... ; ROOT <hex name> [BASE|MUT <what>|CORPUS]
//!       => status=<panic|success|failure|close-error> diags=<class@hexfile:line:col,...|-> regions=<addr:hex,...|->
//! Projects are written to a private directory below $VERIF_TMP and assembled by the real pipeline (harness/src/projrun.rs).
//! Every file is a list of one-line statements of the little language the oracle (coq Asm/ScopeSpec.v) understands:
//!   .addr 0x1000;   .const A, 5;   A:   .global A;   .import A;   .export A;   .include "f1.asm";   .du32 A;
//! Generator: include trees of depth <= 3 and fan-out <= 3; names from a pool of 6 plus register names; statements are
//! placed with a bias towards coherent programs (so that accepted projects and single listed errors are both frequent)
//! plus every one-statement mutation (delete, duplicate, swap, rename, change kind) of projects that assemble.
#[path = "../projrun.rs"]
mod projrun;
use projrun::*;
use verif_harness::*;

const POOL: [&str; 6] = ["A", "B", "C", "D", "E", "F"];
const REGS: [&str; 14] = ["R3", "sp", "LR", "Msp", "CONTROL", "primask", "IAPSR", "eapsr", "IEPSR", "xPSR", "r12", "PC", "apsr", "Psp"];

#[derive(Clone, Debug, PartialEq)]
enum St { Addr(u32), Const(String, i64), Label(String), Global(String), Import(String), Export(String), Include(String), Use(String) }

impl St
{
	fn text(&self) -> String
	{
		match self
		{
			St::Addr(a) => format!(".addr 0x{:X};", a),
			St::Const(n, v) => format!(".const {}, {};", n, v),
			St::Label(n) => format!("{}:", n),
			St::Global(n) => format!(".global {};", n),
			St::Import(n) => format!(".import {};", n),
			St::Export(n) => format!(".export {};", n),
			St::Include(f) => format!(".include \"{}\";", f),
			St::Use(n) => format!(".du32 {};", n),
		}
	}
	fn name(&self) -> Option<&String>
	{
		match self { St::Const(n, _) | St::Label(n) | St::Global(n) | St::Import(n) | St::Export(n) | St::Use(n) => Some(n), _ => None }
	}
	fn with_name(&self, n: &str) -> St
	{
		let n = n.to_string();
		match self { St::Const(_, v) => St::Const(n, *v), St::Label(_) => St::Label(n), St::Global(_) => St::Global(n), St::Import(_) => St::Import(n), St::Export(_) => St::Export(n), St::Use(_) => St::Use(n), o => o.clone() }
	}
	fn kinds(n: &str, v: i64) -> Vec<St>
	{
		let n = n.to_string();
		vec![St::Const(n.clone(), v), St::Label(n.clone()), St::Global(n.clone()), St::Import(n.clone()), St::Export(n.clone()), St::Use(n)]
	}
}

#[derive(Clone)]
struct Proj { files: Vec<(String, Vec<St>)> }    // files[0] is the root

impl Proj
{
	fn project(&self) -> Project
	{
		Project
		{
			files: self.files.iter().map(|(n, st)| (n.clone(), st.iter().map(|s| s.text() + "\n").collect::<String>().into_bytes())).collect(),
			root: self.files[0].0.clone(),
		}
	}
}

struct G { rng: Rng, files: Vec<(String, Vec<St>)>, noise: u64 }

fn pick_name(g: &mut G, prefer: &[String], avoid: &[String]) -> String
{
	if g.rng.chance(1, 40) { return g.rng.pick(&REGS).to_string(); }
	if !prefer.is_empty() && !g.rng.chance(g.noise, 100) { return g.rng.pick(prefer).clone(); }
	let cand: Vec<&str> = POOL.iter().filter(|n| !avoid.iter().any(|a| a == *n)).cloned().collect();
	if !cand.is_empty() && !g.rng.chance(g.noise, 100) { return g.rng.pick(&cand).to_string(); }
	g.rng.pick(&POOL).to_string()
}

/// generates one file (and recursively the files it includes); returns (file name, names it hands up)
fn gen_file(g: &mut G, depth: u32, parent_avail: &[String]) -> (String, Vec<String>)
{
	let fname = format!("f{}.asm", g.files.len());
	g.files.push((fname.clone(), Vec::new()));
	let slot = g.files.len() - 1;
	let mut st: Vec<St> = Vec::new();
	let mut avail: Vec<String> = Vec::new();       // names with a value so far
	let mut own: Vec<String> = Vec::new();         // names defined in this file (anywhere: filled in advance for forward references)
	let mut ups: Vec<String> = Vec::new();
	let n_inc = if depth >= 3 { 0 } else { match g.rng.below(8) { 0 | 1 => 0, 2 | 3 | 4 => 1, 5 | 6 => 2, _ => 3 } };
	let n_act = 2 + g.rng.below(7) as usize;
	// plan: which action slots are includes
	let mut plan: Vec<u8> = (0..n_act).map(|_| g.rng.below(10) as u8).collect();
	for _ in 0..n_inc { let at = g.rng.below(plan.len() as u64 + 1) as usize; plan.insert(at, 100); }
	// definitions planned in advance so that uses / globals can refer forward
	let n_defs = plan.iter().filter(|&&a| a <= 2).count();
	for _ in 0..n_defs { let n = pick_name(g, &[], &[own.clone(), parent_avail.to_vec()].concat()); own.push(n); }
	let mut next_def = 0;
	for a in plan
	{
		match a
		{
			100 =>
			{
				// reuse a leaf file now and then (same file, second occurrence), otherwise a new file
				let leaves: Vec<String> = g.files.iter().filter(|(n, s)| *n != fname && !s.is_empty() && !s.iter().any(|x| matches!(x, St::Include(_)))).map(|(n, _)| n.clone()).collect();
				if !leaves.is_empty() && g.rng.chance(1, 6)
				{
					let f = g.rng.pick(&leaves).clone();
					let body = g.files.iter().find(|(n, _)| *n == f).unwrap().1.clone();
					for s in &body { if let St::Export(n) | St::Global(n) = s { avail.push(n.clone()); } }
					st.push(St::Include(f));
				}
				else
				{
					let (f, up) = gen_file(g, depth + 1, &avail.clone());
					avail.extend(up);
					st.push(St::Include(f));
				}
			},
			0 | 1 | 2 =>
			{
				let n = own[next_def].clone(); next_def += 1;
				if g.rng.chance(1, 2) { st.push(St::Const(n.clone(), g.rng.range(0, 200))); } else { st.push(St::Label(n.clone())); }
				avail.push(n);
			},
			3 =>
			{
				let n = pick_name(g, parent_avail, &[]);
				st.push(St::Import(n.clone())); avail.push(n);
			},
			4 =>
			{
				let mine: Vec<String> = avail.iter().filter(|n| !parent_avail.contains(n)).cloned().collect();
				let n = pick_name(g, &mine, &[]);
				st.push(St::Export(n.clone())); ups.push(n);
			},
			5 =>
			{
				let mine: Vec<String> = [own.clone(), avail.clone()].concat().into_iter().filter(|n| !parent_avail.contains(n) && !ups.contains(n)).collect();
				let n = pick_name(g, &mine, &[]);
				st.push(St::Global(n.clone())); ups.push(n);
			},
			_ =>
			{
				let vis: Vec<String> = [own.clone(), avail.clone()].concat();
				let n = pick_name(g, &vis, &[]);
				st.push(St::Use(n));
			},
		}
	}
	g.files[slot].1 = st;
	(fname, ups)
}

fn gen_project(rng: &mut Rng, noise: u64) -> Proj
{
	let mut g = G{rng: Rng(rng.next()), files: Vec::new(), noise};
	gen_file(&mut g, 0, &[]);
	let base = *g.rng.pick(&[0x1000u32, 0x0, 0x20000000, 0xFFFFFF00]);
	g.files[0].1.insert(0, St::Addr(base));
	Proj{files: g.files}
}

/// every one-statement mutation
fn mutations(p: &Proj) -> Vec<(String, Proj)>
{
	let mut out = Vec::new();
	for fi in 0..p.files.len()
	{
		let n = p.files[fi].1.len();
		for si in 0..n
		{
			let s = p.files[fi].1[si].clone();
			if matches!(s, St::Addr(_)) { continue; }
			let mut q = p.clone(); q.files[fi].1.remove(si); out.push((format!("del:{}:{}", fi, si), q));
			let mut q = p.clone(); q.files[fi].1.insert(si, s.clone()); out.push((format!("dup:{}:{}", fi, si), q));
			if si + 1 < n { let mut q = p.clone(); q.files[fi].1.swap(si, si + 1); out.push((format!("swap:{}:{}", fi, si), q)); }
			// move to the end / to the front (after .addr in the root)
			let front = if fi == 0 { 1 } else { 0 };
			if si > front { let mut q = p.clone(); let x = q.files[fi].1.remove(si); q.files[fi].1.insert(front, x); out.push((format!("front:{}:{}", fi, si), q)); }
			if si + 1 < n { let mut q = p.clone(); let x = q.files[fi].1.remove(si); q.files[fi].1.push(x); out.push((format!("back:{}:{}", fi, si), q)); }
			if let Some(name) = s.name()
			{
				for other in POOL.iter().chain(REGS[..2].iter())
				{
					if other != name { let mut q = p.clone(); q.files[fi].1[si] = s.with_name(other); out.push((format!("name:{}:{}:{}", fi, si, other), q)); }
				}
				for k in St::kinds(name, 77) { if std::mem::discriminant(&k) != std::mem::discriminant(&s) { let mut q = p.clone(); q.files[fi].1[si] = k; out.push((format!("kind:{}:{}", fi, si), q)); } }
			}
			if let St::Include(f) = &s
			{
				for (other, _) in &p.files { if other != f { let mut q = p.clone(); q.files[fi].1[si] = St::Include(other.clone()); out.push((format!("inc:{}:{}:{}", fi, si, other), q)); } }
			}
		}
		// insert each kind of statement for each pool name at a random-free position: front and back
		for name in POOL.iter().take(3)
		{
			for k in St::kinds(name, 78)
			{
				let front = if fi == 0 { 1 } else { 0 };
				let mut q = p.clone(); q.files[fi].1.insert(front, k.clone()); out.push((format!("insf:{}", fi), q));
				let mut q = p.clone(); q.files[fi].1.push(k); out.push((format!("insb:{}", fi), q));
			}
		}
	}
	out
}

/// hand-written witnesses of the documented behaviour and of the listed errors
fn corpus() -> Vec<Proj>
{
	use St::*;
	let s = |x: &str| x.to_string();
	let f = |k: usize| format!("f{}.asm", k);
	let p = |files: Vec<Vec<St>>| Proj{files: files.into_iter().enumerate().map(|(k, st)| (format!("f{}.asm", k), st)).collect()};
	vec![
		p(vec![vec![Addr(0x100), Include(f(1)), Use(s("X"))], vec![Label(s("X")), Export(s("X"))]]),
		p(vec![vec![Addr(0x100), Use(s("X")), Include(f(1))], vec![Use(s("X")), Label(s("X")), Export(s("X"))]]),
		p(vec![vec![Addr(0x100), Include(f(1)), Use(s("X"))], vec![Label(s("X")), Use(s("X"))]]),
		p(vec![vec![Addr(0x100), Include(f(1)), Include(f(2))], vec![Const(s("X"), 7)], vec![Use(s("X"))]]),
		p(vec![vec![Addr(0x100), Const(s("X"), 7), Include(f(1))], vec![Use(s("X"))]]),
		p(vec![vec![Addr(0x100), Const(s("X"), 7), Include(f(1))], vec![Import(s("X")), Use(s("X"))]]),
		p(vec![vec![Addr(0x100), Include(f(1)), Const(s("X"), 7)], vec![Import(s("X")), Use(s("X"))]]),
		p(vec![vec![Addr(0x100), Global(s("X")), Include(f(1)), Const(s("X"), 7)], vec![Import(s("X")), Use(s("X"))]]),
		p(vec![vec![Addr(0x100), Include(f(1)), Use(s("X"))], vec![Global(s("X")), Use(s("X")), Label(s("X"))]]),
		p(vec![vec![Addr(0x100), Const(s("X"), 1), Include(f(1)), Use(s("X"))], vec![Global(s("X")), Label(s("X"))]]),
		p(vec![vec![Addr(0x100), Include(f(1)), Const(s("X"), 1), Use(s("X"))], vec![Const(s("X"), 5), Export(s("X"))]]),
		p(vec![vec![Addr(0x100), Include(f(1)), Include(f(2))], vec![Const(s("X"), 5), Export(s("X"))], vec![Const(s("X"), 6), Export(s("X"))]]),
		p(vec![vec![Addr(0x100), Include(f(1)), Include(f(1))], vec![Label(s("X")), Use(s("X"))]]),
		p(vec![vec![Addr(0x100), Include(f(1)), Include(f(1))], vec![Label(s("X")), Use(s("X")), Export(s("X"))]]),
		p(vec![vec![Addr(0x100), Global(s("X")), Include(f(1)), Label(s("X"))], vec![Use(s("X"))]]),
		p(vec![vec![Addr(0x100), Include(f(1)), Use(s("X"))], vec![Export(s("X")), Const(s("X"), 5)]]),
		p(vec![vec![Addr(0x100), Const(s("X"), 9), Include(f(1))], vec![Import(s("X")), Include(f(2))], vec![Import(s("X")), Use(s("X"))]]),
		p(vec![vec![Addr(0x100), Global(s("X")), Include(f(1)), Const(s("X"), 9)], vec![Import(s("X")), Include(f(2))], vec![Import(s("X")), Use(s("X"))]]),
		p(vec![vec![Addr(0x100), Include(f(1)), Use(s("X"))], vec![Include(f(2)), Export(s("X"))], vec![Const(s("X"), 3), Export(s("X"))]]),
		p(vec![vec![Addr(0x100), Include(f(1)), Use(s("X"))], vec![Include(f(2)), Use(s("X"))], vec![Const(s("X"), 3), Export(s("X"))]]),
		p(vec![vec![Addr(0x100), Global(s("X")), Include(f(1)), Use(s("X"))], vec![Global(s("X")), Label(s("X"))]]),
		p(vec![vec![Addr(0x100), Const(s("R0"), 5)]]),
		p(vec![vec![Addr(0x100), Global(s("R0"))]]),
		p(vec![vec![Addr(0x100), Import(s("sp"))]]),
		p(vec![vec![Addr(0x100), Export(s("PC"))]]),
		p(vec![vec![Addr(0x100), Label(s("lr"))]]),
		p(vec![vec![Addr(0x100), Const(s("X"), 1), Const(s("X"), 1)]]),
		p(vec![vec![Addr(0x100), Label(s("X")), Label(s("X"))]]),
		p(vec![vec![Addr(0x100), Const(s("X"), 1), Export(s("X")), Export(s("X"))]]),
		p(vec![vec![Addr(0x100), Const(s("X"), 1), Global(s("X")), Global(s("X"))]]),
		p(vec![vec![Addr(0x100), Global(s("X"))]]),
		p(vec![vec![Addr(0x100), Export(s("X"))]]),
		p(vec![vec![Addr(0x100), Import(s("X"))]]),
		p(vec![vec![Addr(0x100), Const(s("X"), 1), Include(f(1))], vec![Import(s("X")), Export(s("X"))]]),
		p(vec![vec![Addr(0x100), Const(s("X"), 1), Include(f(1))], vec![Import(s("X")), Const(s("X"), 2), Use(s("X"))]]),
		p(vec![vec![Addr(0x100), Const(s("X"), 1), Include(f(1)), Use(s("X"))], vec![Const(s("X"), 2), Use(s("X"))]]),
		p(vec![vec![Addr(0x100), Include(f(1)), Global(s("X")), Use(s("X"))], vec![Const(s("X"), 2), Export(s("X"))]]),
		p(vec![vec![Addr(0x100), Global(s("X")), Include(f(1)), Use(s("X"))], vec![Const(s("X"), 2), Export(s("X"))]]),
		p(vec![vec![Addr(0x100), Global(s("X")), Include(f(1)), Include(f(2))], vec![Import(s("X")), Use(s("X"))], vec![Const(s("X"), 4), Export(s("X"))]]),
		p(vec![vec![Addr(0x100), Include(f(1)), Include(f(2))], vec![Global(s("X")), Use(s("X"))], vec![Const(s("X"), 4), Export(s("X"))]]),
		// fixed defect 976f0cc: a name imported while still unvalued was silently redefined in the importing file
		p(vec![vec![Addr(0x100), Global(s("X")), Include(f(1)), Const(s("X"), 7), Use(s("X"))], vec![Import(s("X")), Const(s("X"), 77), Use(s("X"))]]),
		p(vec![vec![Addr(0x100), Global(s("X")), Include(f(1)), Const(s("X"), 7), Use(s("X"))], vec![Import(s("X")), Include(f(2)), Use(s("X"))], vec![Const(s("X"), 55), Export(s("X"))]]),
		p(vec![vec![Addr(0x100), Global(s("X")), Include(f(1)), Const(s("X"), 7), Use(s("X"))], vec![Import(s("X")), Use(s("X"))]]),
	]
}

fn run_case(case: &str) -> String
{
	match Project::parse_case(case) { Some((p, _)) => fmt_result(&p.run()), None => "status=bad-case diags=- regions=-".to_string() }
}

fn main()
{
	quiet_panics();
	let mut out = Out::new();
	let (thorough, seed, shard, nshards) = match mode()
	{
		Mode::Replay => { for c in replay_cases() { let r = run_case(&c); out.line(&c, &r); } return; },
		Mode::Gen{thorough, seed, shard, nshards} => (thorough, seed, shard, nshards),
	};
	let mut sh = Shard{k: 0, shard, n: nshards};
	let mut rng = Rng::new(seed);
	let mut emit = |p: &Proj, tag: &str, out: &mut Out| -> Option<bool>
	{
		if sh.mine() { let proj = p.project(); let r = proj.run(); let ok = r.success(); out.line(&format!("{} {}", proj.fmt_case(), tag), &fmt_result(&r)); Some(ok) } else { None }
	};
	for p in corpus()
	{
		emit(&p, "CORPUS", &mut out);
		for (what, q) in mutations(&p) { emit(&q, &format!("MUT {}", what), &mut out); }
	}
	let n_random = if thorough { 120_000 } else { 1_400 };
	let n_bases = if thorough { 400 } else { 8 };
	for k in 0..n_random
	{
		let noise = [0u64, 5, 15, 40][k % 4];
		let p = gen_project(&mut rng, noise);
		emit(&p, "RANDOM", &mut out);
	}
	// every one-statement mutation of projects that assemble (decided by every shard alike: a clean run of the base)
	let mut found = 0;
	let mut tries = 0;
	while found < n_bases && tries < 100 * n_bases
	{
		tries += 1;
		let p = gen_project(&mut rng, 0);
		if p.files.len() < 2 || p.files.iter().map(|(_, s)| s.len()).sum::<usize>() > 24 { continue; }
		if !p.project().run().success() { continue; }
		found += 1;
		emit(&p, "BASE", &mut out);
		for (what, q) in mutations(&p) { emit(&q, &format!("MUT {}", what), &mut out); }
	}
}
