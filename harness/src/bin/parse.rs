//! C09 / C10 (parser half) / C12 (parser half): text/parse/mod.rs + text/operator.rs over the real tokenizer.
//!
//! Case forms (the part right of the head is recomputed from the bytes, also in replay mode):
//!   P <hexbytes>                      tokens=[ <tok> ... ] eof=<l>:<c> => <items>
//!   R <hexbytes> <bits|-> <stmts>     tokens=[ <tok> ... ] eof=<l>:<c> => <items>
//! <tok>   = <line>:<col>:<token value>  |  <line>:<col>:ERR:<kind>  |  PANIC (the tokenizer panicked)
//! <stmts> = expected statements, each `@ L <name>` | `@ D <name> <args>` | `@ X <name> <args>` (argtext)
//! <bits>  = the redundant-parenthesis choice handed to Render.render_stmts_x (string of 0/1)
//! <items> = `ok <l>:<c> <element>` | `err <l>:<c> expected` | `err <l>:<c> token <l>:<c>:<kind>` joined by ` ; `,
//!           then ` ; end <poll> <poll> <poll>` (poll = none | item)   or   ` ; PANIC`
//! usage: parse gen <tier> <seed> <shard> <nshards> <c09|c10|c12>   |   parse replay
use std::cell::RefCell;
use std::panic::AssertUnwindSafe;
use trion::asm::arcob::Arcob;
use trion::text::parse::{Argument, ParseErrorKind, Parser};
use trion::text::token::{Number, Tokenizer};
use verif_harness::argtext::*;
use verif_harness::*;

// ------------------------------------------------------------------------------------------------
// running the implementation

fn run_tokenizer(bytes: &[u8]) -> String
{
	let toks: RefCell<Vec<String>> = RefCell::new(Vec::new());
	let eof: RefCell<(u32, u32)> = RefCell::new((0, 0));
	let drift = RefCell::new(false);
	let r = catch(AssertUnwindSafe(||
	{
		let mut tk = Tokenizer::new(bytes);
		let mut at_err: Option<(u32, u32)> = None;
		let cap = bytes.len() + 4;
		loop
		{
			match tk.next()
			{
				None => break,
				Some(Ok(t)) => toks.borrow_mut().push(format!("{}:{}:{}", t.line, t.col, fmt_token_value(&t.value))),
				Some(Err(e)) =>
				{
					toks.borrow_mut().push(format!("{}:{}:ERR:{}", e.line, e.col, fmt_tok_err_kind(&e.value)));
					if at_err.is_none() { at_err = Some((tk.get_line(), tk.get_column())); }
				},
			}
			if toks.borrow().len() > cap { toks.borrow_mut().push("RUNAWAY".into()); break; }
		}
		*eof.borrow_mut() = (tk.get_line(), tk.get_column());
		// modelling assumption A1 of the abstract token source: the position does not move after an error
		if let Some(p) = at_err { if p != *eof.borrow() { *drift.borrow_mut() = true; } }
	}));
	if r.is_err() { toks.borrow_mut().push("PANIC".into()); }
	if *drift.borrow() { toks.borrow_mut().push("DRIFT".into()); }
	let t = toks.borrow();
	let e = eof.borrow();
	format!("tokens=[ {}{}] eof={}:{}", t.join(" "), if t.is_empty() { "" } else { " " }, e.0, e.1)
}

fn run_parser(bytes: &[u8]) -> String
{
	let items: RefCell<Vec<String>> = RefCell::new(Vec::new());
	let r = catch(AssertUnwindSafe(||
	{
		let mut p = Parser::new(bytes);
		let cap = bytes.len() + 4;
		loop
		{
			match p.next()
			{
				None => break,
				Some(Ok(e)) => items.borrow_mut().push(format!("ok {}:{} {}", e.line, e.col, fmt_element_value(&e.value))),
				Some(Err(e)) => items.borrow_mut().push(match &e.value
				{
					ParseErrorKind::Expected{..} => format!("err {}:{} expected", e.line, e.col),
					ParseErrorKind::Token(te) => format!("err {}:{} token {}:{}:{}", e.line, e.col, te.line, te.col, fmt_tok_err_kind(&te.value)),
				}),
			}
			if items.borrow().len() > cap { items.borrow_mut().push("RUNAWAY".into()); break; }
		}
		let mut polls = Vec::new();
		for _ in 0..3 { polls.push(match p.next() { None => "none", Some(..) => "item" }); }
		items.borrow_mut().push(format!("end {}", polls.join(" ")));
	}));
	if r.is_err() { items.borrow_mut().push("PANIC".into()); }
	let v = items.borrow();
	v.join(" ; ")
}

/// head = the case text up to (not including) " tokens=["
fn run_case(case: &str) -> (String, String)
{
	let head = match case.find(" tokens=[") { Some(i) => &case[..i], None => case };
	let t: Vec<&str> = head.split_whitespace().collect();
	if t.len() < 2 || (t[0] != "P" && t[0] != "R") { return (head.to_string(), "bad-case".into()); }
	let bytes = parse_hex_bytes(t[1]);
	(format!("{} {}", head, run_tokenizer(&bytes)), run_parser(&bytes))
}

// ------------------------------------------------------------------------------------------------
// generator side: trees, the Rust renderer (must agree with Coq Render.v), spacing styles

type Arg = Argument<'static>;

fn bx(a: Arg) -> Box<Arg> { Box::new(a) }
fn ident(s: &str) -> Arg { Argument::Identifier(Arcob::Arced(s.to_string().into())) }
fn konst(v: i64) -> Arg { Argument::Constant(Number::Integer(v)) }
fn strng(s: &str) -> Arg { Argument::String(Arcob::Arced(s.to_string().into())) }

/// operator numbering: 0..9 binary (Add Sub Mul Div Mod And Or Xor Shl Shr), 10 Negate, 11 Not
fn mk_bin(op: usize, l: Arg, r: Arg) -> Arg
{
	let (lhs, rhs) = (bx(l), bx(r));
	match op
	{
		0 => Argument::Add{lhs, rhs}, 1 => Argument::Subtract{lhs, rhs}, 2 => Argument::Multiply{lhs, rhs},
		3 => Argument::Divide{lhs, rhs}, 4 => Argument::Modulo{lhs, rhs}, 5 => Argument::BitAnd{lhs, rhs},
		6 => Argument::BitOr{lhs, rhs}, 7 => Argument::BitXor{lhs, rhs}, 8 => Argument::LeftShift{lhs, rhs},
		_ => Argument::RightShift{lhs, rhs},
	}
}
fn mk_un(op: usize, a: Arg) -> Arg { if op == 10 { Argument::Negate(bx(a)) } else { Argument::Not(bx(a)) } }

fn bin_parts(a: &Arg) -> Option<(&'static str, u32, &Arg, &Arg)>
{
	Some(match a
	{
		Argument::BitOr{lhs, rhs} => ("|", 1, lhs, rhs),
		Argument::BitXor{lhs, rhs} => ("^", 2, lhs, rhs),
		Argument::BitAnd{lhs, rhs} => ("&", 3, lhs, rhs),
		Argument::LeftShift{lhs, rhs} => ("<<", 4, lhs, rhs),
		Argument::RightShift{lhs, rhs} => (">>", 4, lhs, rhs),
		Argument::Add{lhs, rhs} => ("+", 5, lhs, rhs),
		Argument::Subtract{lhs, rhs} => ("-", 5, lhs, rhs),
		Argument::Multiply{lhs, rhs} => ("*", 6, lhs, rhs),
		Argument::Divide{lhs, rhs} => ("/", 6, lhs, rhs),
		Argument::Modulo{lhs, rhs} => ("%", 6, lhs, rhs),
		_ => return None,
	})
}

/// precedence of the README table: | 1, ^ 2, & 3, << >> 4, + - 5, * / % 6, everything else 7
fn prec(a: &Arg) -> u32 { bin_parts(a).map_or(7, |p| p.1) }

struct Bits<'a> { bits: &'a [bool], pos: usize }
impl<'a> Bits<'a>
{
	/// unary-coded count: number of `true` before the next `false` (or the end)
	fn wraps(&mut self) -> usize
	{
		let mut n = 0;
		while self.pos < self.bits.len() { let b = self.bits[self.pos]; self.pos += 1; if b { n += 1 } else { break } }
		n
	}
}

/// source fragments of one literal, chosen by the generator (the value is what the tokenizer must produce)
fn number_text(v: i64, rng: &mut Rng) -> String
{
	match rng.below(6)
	{
		0 => format!("0x{:x}", v), 1 => format!("0x{:X}", v), 2 if v < 1 << 16 => format!("0b{:b}", v), 3 => format!("0o{:o}", v),
		4 if (0x20..0x7f).contains(&v) && v != 0x27 && v != 0x5c => format!("'{}'", v as u8 as char),
		_ => format!("{}", v),
	}
}

/// a string literal for `s` in one of its spellings: a character that may stand for itself does so three times out of four,
/// else it is a `\u{..}` escape of 1-6 hex digits in either letter case (tab also as `\t`)
fn string_text(s: &str, rng: &mut Rng) -> String
{
	let mut o = String::from("\"");
	for c in s.chars()
	{
		let raw_ok = c == '\t' || ((c as u32) >= 0x20 && c as u32 != 0x7f && c != '"' && c != '\\');
		if raw_ok && rng.chance(1, 4)
		{
			if c == '\t' && rng.chance(1, 2) { o.push_str("\\t"); continue; }
			let digits = format!("{:x}", c as u32).len();
			let w = digits + rng.below((7 - digits) as u64) as usize;
			if rng.chance(1, 2) { o.push_str(&format!("\\u{{{:0w$x}}}", c as u32, w = w)); } else { o.push_str(&format!("\\u{{{:0w$X}}}", c as u32, w = w)); }
			continue;
		}
		if c == '\t' { o.push(c); continue; }
		match c { '"' => o.push_str("\\\""), '\\' => o.push_str("\\\\"), '\n' => o.push_str("\\n"), '\t' => o.push_str("\\t"),
			'\r' => o.push_str("\\r"), '\0' => o.push_str("\\0"), c if (c as u32) < 0x20 || c as u32 == 0x7f => o.push_str(&format!("\\u{{{:x}}}", c as u32)), c => o.push(c) }
	}
	o.push('"'); o
}

/// render `a` in a context that requires precedence >= ctx; consumes `bits` in pre-order exactly like Render.render_x
fn render(a: &Arg, ctx: u32, bits: &mut Bits, rng: &mut Rng, out: &mut Vec<String>)
{
	let n = bits.wraps();
	let need = n == 0 && prec(a) < ctx;
	for _ in 0..n { out.push("(".into()); }
	if need { out.push("(".into()); }
	match a
	{
		Argument::Constant(Number::Integer(v)) => out.push(number_text(*v, rng)),
		Argument::Identifier(s) => out.push(s.as_ref().to_string()),
		Argument::String(s) => out.push(string_text(s.as_ref(), rng)),
		Argument::Negate(x) => { out.push("-".into()); render(x, 7, bits, rng, out); },
		Argument::Not(x) => { out.push("!".into()); render(x, 7, bits, rng, out); },
		Argument::Address(x) => { out.push("[".into()); render(x, 0, bits, rng, out); out.push("]".into()); },
		Argument::Sequence(l) => { out.push("{".into()); render_list(l, bits, rng, out); out.push("}".into()); },
		Argument::Function{name, args} => { out.push(name.as_ref().to_string()); out.push("(".into()); render_list(args, bits, rng, out); out.push(")".into()); },
		_ =>
		{
			let (sym, p, l, r) = bin_parts(a).unwrap();
			render(l, p, bits, rng, out);
			out.push(sym.into());
			render(r, p + 1, bits, rng, out);
		},
	}
	if need { out.push(")".into()); }
	for _ in 0..n { out.push(")".into()); }
}

fn render_list(l: &[Arg], bits: &mut Bits, rng: &mut Rng, out: &mut Vec<String>)
{
	for (i, a) in l.iter().enumerate()
	{
		if i > 0 { out.push(",".into()); }
		render(a, 0, bits, rng, out);
	}
}

enum Stmt { Label(String), Dir(String, Vec<Arg>), Ins(String, Vec<Arg>) }

fn render_stmt(s: &Stmt, bits: &mut Bits, rng: &mut Rng, out: &mut Vec<String>)
{
	match s
	{
		Stmt::Label(n) => { out.push(n.clone()); out.push(":".into()); },
		Stmt::Dir(n, a) => { out.push(".".into()); out.push(n.clone()); render_list(a, bits, rng, out); out.push(";".into()); },
		Stmt::Ins(n, a) => { out.push(n.clone()); render_list(a, bits, rng, out); out.push(";".into()); },
	}
}

fn fmt_stmt(s: &Stmt) -> String
{
	let (k, n, a) = match s { Stmt::Label(n) => ("L", n, None), Stmt::Dir(n, a) => ("D", n, Some(a)), Stmt::Ins(n, a) => ("X", n, Some(a)) };
	match a { Some(a) if !a.is_empty() => format!("@ {} {} {}", k, hex_bytes(n.as_bytes()), fmt_args(a)), _ => format!("@ {} {}", k, hex_bytes(n.as_bytes())) }
}

fn is_ident_byte(b: u8) -> bool { matches!(b, b'$' | b'.' | b'0'..=b'9' | b'@' | b'A'..=b'Z' | b'_' | b'a'..=b'z') }

/// would `prev` and `next` fuse (or change meaning) when written without anything in between?
fn fuses(prev: &str, next: &str) -> bool
{
	let (p, n) = (prev.as_bytes(), next.as_bytes());
	if p.is_empty() || n.is_empty() { return false; }
	let (a, b) = (p[p.len() - 1], n[0]);
	(is_ident_byte(a) && is_ident_byte(b) && p[0] != b'"' && p[0] != b'\'') || (a == b'/' && (b == b'/' || b == b'*')) || (a == b'<' && b == b'<') || (a == b'>' && b == b'>')
}

const COMMENT_WORDS: [&str; 8] = ["x", "a b", "; , : .", "\"", "'", "é", "日本", "0x / y"];

/// one separator of the given style (0 none, 1 spaces, 2 tabs/CRLF, 3 line comment, 4 nested block comment, 5 mixed)
fn separator(style: u64, rng: &mut Rng) -> String
{
	match style
	{
		0 => String::new(),
		1 => " ".repeat(1 + rng.below(3) as usize),
		2 => { let mut s = String::new(); for _ in 0..1 + rng.below(3) { s.push_str(*rng.pick(&["\t", "\r\n", "\n", " "])); } s },
		3 => format!("//{}\n{}", pk(rng, &COMMENT_WORDS), if rng.chance(1, 2) { "\t" } else { "" }),
		4 =>
		{
			let w = pk(rng, &COMMENT_WORDS);
			match rng.below(8)
			{
				0 => format!("/*{}*/", w),
				1 => format!("/* {} /* {} */ \n */", w, pk(rng, &COMMENT_WORDS)),
				2 => format!("/*/* /**/ {}*/\r\n*/", w),
				3 => format!("/* {} /*/ {} */ c */", w, pk(rng, &COMMENT_WORDS)),      // `/*/`: an opener followed by a slash, not a closer
				4 => format!("/*/*/ x*/*/"),
				5 => format!("/* a *//* {} */", w),
				6 if rng.chance(1, 6) => { let d = *rng.pick(&[255usize, 256, 257, 300]); format!("{} {} {}", "/*".repeat(d), w, "*/".repeat(d)) },   // deeper than a byte can count
				_ => format!("/***/"),
			}
		},
		_ => { let k = rng.below(5); separator(k, rng) },
	}
}

fn join(pieces: &[String], style: u64, rng: &mut Rng) -> Vec<u8>
{
	let mut s = String::new();
	if style != 0 && rng.chance(1, 2) { s.push_str(&separator(style, rng)); }
	for (i, p) in pieces.iter().enumerate()
	{
		if i > 0
		{
			let mut sep = separator(style, rng);
			// a separator that is empty or a comment does not keep two fusing tokens apart / would be swallowed
			if fuses(&pieces[i - 1], p) && sep.is_empty() { sep = " ".into(); }
			if pieces[i - 1].ends_with('/') && sep.starts_with('/') { sep.insert(0, ' '); }
			s.push_str(&sep);
		}
		s.push_str(p);
	}
	if style != 0 && rng.chance(1, 2) { s.push_str(&separator(style, rng)); }
	// F15 (tokenizer, block comment before a final multi-byte character) is not this component's: end in ASCII
	s.into_bytes()
}

const IDENTS: [&str; 10] = ["a", "b", "r0", "x_1", "foo.bar", "_t$", "L@1", "PC", "q", "zz9"];
const NAMES: [&str; 8] = ["mov", "ldr", "f", "du32", "g.h", "_", "ADD", "x$"];
const STRINGS: [&str; 12] = ["", "s", "a,b;", "\n\"", "/*x*/", "é", "a\\b", "col1\tcol2", "\t", "\u{10FFFF}", "x\u{100000}\u{FFFF}€", "\u{7f}\u{1}\r\0"];

fn pk(rng: &mut Rng, xs: &[&'static str]) -> &'static str { xs[rng.below(xs.len() as u64) as usize] }

fn leaf(rng: &mut Rng) -> Arg
{
	match rng.below(10)
	{
		0..=3 => ident(pk(rng, &IDENTS)),
		4..=7 => konst(match rng.below(5) { 0 => 0, 1 => rng.below(10) as i64, 2 => rng.below(256) as i64, 3 => i64::MAX, _ => (rng.next() >> 1) as i64 >> rng.below(63) }),
		_ => strng(pk(rng, &STRINGS)),
	}
}

fn random_tree(depth: u32, rng: &mut Rng) -> Arg
{
	if depth == 0 || rng.chance(1, 6) { return leaf(rng); }
	match rng.below(20)
	{
		0..=9 => { let op = rng.below(10) as usize; let l = random_tree(depth - 1, rng); let r = random_tree(depth - 1, rng); mk_bin(op, l, r) },
		10..=12 => { let op = 10 + rng.below(2) as usize; mk_un(op, random_tree(depth - 1, rng)) },
		13..=14 => Argument::Address(bx(random_tree(depth - 1, rng))),
		15..=16 => Argument::Sequence((0..rng.below(4)).map(|_| random_tree(depth - 1, rng)).collect()),
		17..=18 => Argument::Function{name: Arcob::Arced(pk(rng, &NAMES).to_string().into()), args: (0..rng.below(4)).map(|_| random_tree(depth - 1, rng)).collect()},
		_ => leaf(rng),
	}
}

/// chain of three operators: op1 (child on side s1) op2 (child on side s2) op3; other operands are leaves
fn chain(op1: usize, s1: usize, op2: usize, s2: usize, op3: usize) -> Arg
{
	let mk = |op: usize, side: usize, child: Arg, other: &str| -> Arg
	{
		if op >= 10 { mk_un(op, child) } else if side == 0 { mk_bin(op, child, ident(other)) } else { mk_bin(op, ident(other), child) }
	};
	let inner = mk(op3, 0, ident("x"), "y");
	let mid = mk(op2, s2, inner, "m");
	mk(op1, s1, mid, "p")
}

struct Gen { sh: Shard, out: Out }
impl Gen
{
	fn emit(&mut self, head: String)
	{
		if self.sh.mine() { let (c, r) = run_case(&head); self.out.line(&c, &r); }
	}
	fn emit_stmts(&mut self, stmts: &[Stmt], bits: &[bool], style: u64, rng: &mut Rng)
	{
		// the random choices are drawn for every case (also those of other shards) so that all shards see the same stream
		let mut pieces = Vec::new();
		let mut b = Bits{bits, pos: 0};
		for s in stmts { render_stmt(s, &mut b, rng, &mut pieces); }
		let bytes = join(&pieces, style, rng);
		let bt: String = if bits.is_empty() { "-".into() } else { bits.iter().map(|&x| if x { '1' } else { '0' }).collect() };
		let st: Vec<String> = stmts.iter().map(fmt_stmt).collect();
		self.emit(format!("R {} {} {}", hex_bytes(&bytes), bt, st.join(" ")));
	}
}

fn random_stmt(rng: &mut Rng, depth: u32) -> Stmt
{
	let nargs = rng.below(5);
	match rng.below(5)
	{
		0 => Stmt::Label(pk(rng, &IDENTS).to_string()),
		1 | 2 => Stmt::Dir(pk(rng, &NAMES).to_string(), (0..nargs).map(|_| random_tree(depth, rng)).collect()),
		_ => Stmt::Ins(pk(rng, &NAMES).to_string(), (0..nargs).map(|_| random_tree(depth, rng)).collect()),
	}
}

/// stream (i): expression trees and statements with their expected parse
fn stream_trees(g: &mut Gen, thorough: bool, rng: &mut Rng)
{
	// all 18 node kinds alone, as the only argument of an instruction and of a directive
	let mut kinds: Vec<Arg> = vec![konst(5), ident("a"), strng("s"), mk_un(10, ident("a")), mk_un(11, ident("a")),
		Argument::Address(bx(ident("a"))), Argument::Sequence(vec![]), Argument::Sequence(vec![ident("a"), konst(1)]),
		Argument::Function{name: Arcob::Arced("f".to_string().into()), args: vec![]},
		Argument::Function{name: Arcob::Arced("f".to_string().into()), args: vec![ident("a"), konst(1)]},
		mk_un(10, konst(5)), mk_un(10, mk_un(10, konst(5))), mk_un(11, mk_un(10, mk_un(11, ident("a"))))];
	for op in 0..10 { kinds.push(mk_bin(op, ident("a"), konst(1))); }
	for style in 0..6
	{
		for k in &kinds
		{
			g.emit_stmts(&[Stmt::Ins("mov".into(), vec![k.clone()])], &[], style, rng);
			g.emit_stmts(&[Stmt::Dir("du32".into(), vec![k.clone()])], &[], style, rng);
		}
	}
	// every (parent, side, child, side, grandchild) chain, each with the 6 spacing styles
	for op1 in 0..12 { for s1 in 0..(if op1 >= 10 { 1 } else { 2 }) { for op2 in 0..12 { for s2 in 0..(if op2 >= 10 { 1 } else { 2 })
	{
		for op3 in 0..12
		{
			let t = chain(op1, s1, op2, s2, op3);
			for style in 0..6 { g.emit_stmts(&[Stmt::Ins("i".into(), vec![t.clone()])], &[], style, rng); }
		}
	}}}}
	// operator chains inside address / sequence / function brackets and as non-first arguments
	for op1 in 0..12 { for op2 in 0..12 { for s in 0..2
	{
		let t = chain(op1, s, op2, 1 - s, 0);
		let style = rng.below(6);
		g.emit_stmts(&[Stmt::Ins("i".into(), vec![Argument::Address(bx(t.clone())), Argument::Sequence(vec![t.clone(), t.clone()]),
			Argument::Function{name: Arcob::Arced("fn1".to_string().into()), args: vec![ident("z"), t.clone()]}])], &[], style, rng);
	}}}
	// random trees to depth 8, plain and with redundant parentheses
	let n = if thorough { 400_000 } else { 6_000 };
	for k in 0..n
	{
		let depth = 1 + (k % 8) as u32;
		let t = random_tree(depth, rng);
		let style = rng.below(6);
		g.emit_stmts(&[Stmt::Ins(pk(rng, &NAMES).to_string(), vec![t.clone()])], &[], style, rng);
		let nb = rng.below(24) as usize;
		let dens = 1 + rng.below(3);
		let bits: Vec<bool> = (0..nb).map(|_| rng.chance(dens, 4)).collect();
		let style = rng.below(6);
		g.emit_stmts(&[Stmt::Dir(pk(rng, &NAMES).to_string(), vec![t])], &bits, style, rng);
	}
	// redundant parentheses on every chain (one style each)
	for op1 in 0..12 { for s1 in 0..(if op1 >= 10 { 1 } else { 2 }) { for op2 in 0..12 { for s2 in 0..(if op2 >= 10 { 1 } else { 2 })
	{
		let t = chain(op1, s1, op2, s2, (op1 + op2) % 12);
		for mask in 1..8u32
		{
			// bits for the first three nodes in pre-order that matter: root, then alternating
			let bits: Vec<bool> = (0..6).map(|i| mask >> (i % 3) & 1 == 1 && i < 5).collect();
			let style = rng.below(6);
			g.emit_stmts(&[Stmt::Ins("i".into(), vec![t.clone()])], &bits, style, rng);
		}
	}}}}
	// statement sequences: label / directive / instruction, 0..4 arguments
	let n = if thorough { 200_000 } else { 4_000 };
	for k in 0..n
	{
		let cnt = 1 + rng.below(5);
		let stmts: Vec<Stmt> = (0..cnt).map(|_| random_stmt(rng, (k % 4) as u32)).collect();
		let style = rng.below(6);
		let bits: Vec<bool> = if k % 3 == 0 { (0..rng.below(12)).map(|_| rng.chance(1, 3)).collect() } else { vec![] };
		g.emit_stmts(&stmts, &bits, style, rng);
	}
	// long texts through one Parser object (anything that accumulates per statement, call or parenthesis would show):
	// 1200 statements with function calls and redundant parentheses; one statement with 1100 calls
	for style in [1u64, 4]
	{
		let call = |k: usize| Argument::Function{name: Arcob::Arced(format!("f{}", k % 5).into()), args: vec![konst(k as i64), ident("r0")]};
		let stmts: Vec<Stmt> = (0..1200).map(|k| Stmt::Ins("tab".into(), vec![call(k), mk_bin(2, mk_bin(0, konst(1), konst(2)), konst(3))])).collect();
		let bits: Vec<bool> = (0..2400).map(|i| i % 3 == 0).collect();
		g.emit_stmts(&stmts, &bits, style, rng);
		let many: Vec<Arg> = (0..1100).map(|k| call(k)).chain(std::iter::once(mk_bin(2, mk_bin(0, konst(1), konst(2)), konst(3)))).collect();
		g.emit_stmts(&[Stmt::Ins("tab".into(), many)], &[true, false, true], style, rng);
	}
	for nargs in 0..5 { for kind in 0..3 { for style in 0..6
	{
		let args: Vec<Arg> = (0..nargs).map(|i| if i % 2 == 0 { ident(IDENTS[i]) } else { konst(i as i64) }).collect();
		let s = match kind { 0 => Stmt::Label("main".into()), 1 => Stmt::Dir("start".into(), args), _ => Stmt::Ins("hcf".into(), args) };
		g.emit_stmts(&[Stmt::Label("l0".into()), s, Stmt::Ins("nop".into(), vec![])], &[], style, rng);
	}}}
}

const ALPHABET: [&str; 20] = ["a", "1", "\"s\"", ".", ":", ";", ",", "+", "-", "*", "<<", "(", ")", "[", "]", "{", "}", "!", "'", "\u{1}"];

fn join_min(frags: &[&str]) -> Vec<u8>
{
	let mut s = String::new();
	for (i, f) in frags.iter().enumerate()
	{
		if i > 0 && (fuses(frags[i - 1], f) || (frags[i - 1] == "a" && *f == ".") || frags[i - 1] == "'" ) { s.push(' '); }
		s.push_str(f);
	}
	s.into_bytes()
}

/// stream (ii): every string of <= maxlen alphabet symbols, then token-level mutations of valid programs
fn stream_total(g: &mut Gen, thorough: bool, maxlen: usize, rng: &mut Rng)
{
	// corpus: F17 (a peeked token survived clear(): two Err items) and relatives
	for txt in ["a b c;", "a b c d e;", "a b", "a 1 2;", ".d a b;", "a (b c) d;", "a b '", "a '", "a", ".", ". 1", "a:", "a: b", "a+", "f(", "f(a", "f(a,", "[", "{a", "(a", "a (1", "a 1 '",
		"a 1+", "a 1+'", "a (", "a ()", "a [ ]", "a {,}", "a 1,;", "a ,;", "a -;", "a !", "a 1 2", ";", ":", "a;b", "a:;", "a::", ".a:;", "a.b c;", "x 1 << 2 >> 3;", "x 1 <<;", "x -'"]
	{
		g.emit(format!("P {}", hex_bytes(txt.as_bytes())));
	}
	// audit corpus: (a) invalid UTF-8 under the parser (every generated text is valid UTF-8): the BadUnicode error arrives
	// through peek / next at each parser state, eof positions with a pending error; (b) a closer accepted in the place of ';'
	for txt in [&b"\xff"[..], b"a\xff", b"a \xff", b"a 1 \xff", b"a 1 + \xff", b"a ( \xff", b"a [ \xff", b"a { \xff", b". \xff", b".d \xff", b".d 1 \xff", b"a: \xff",
		b"a 1, \xff", b"a f( \xff", b"a f(1 \xff", b"a f \xff", b"a - \xff", b"a 1;\xff", b"a 1; \n\xff", b"a //c\xff", b"a /*c\xff", b"a \"s\xff", b"a 'c\xff", b"a 0x\xff", b"a b\xff",
		b"a b )", b".d a )", b".d a ]", b"a 1 }x;", b"a b ) c;", b"a f(1 ] ;", b"a [1);", b"a {1];", b"a (1};", b"a\n '", b"a 1\n,\n'", b"a (\n'", b"a f\n(1);", b"a f/*c*/(1);", b"a 1(2);", b"a \"s\"(1);"]
	{
		g.emit(format!("P {}", hex_bytes(txt)));
	}
	// a byte order mark (the tokenizer rejects it: so must the parser), alone and in front of valid text
	for txt in [&b"\xef\xbb\xbf"[..], b"\xef\xbb\xbfnop;", b"\xef\xbb\xbf a 1;", b"a 1;\xef\xbb\xbf", b"a \xef\xbb\xbf 1;", b"\xef\xbb", b"\xfe\xff a;", b"\xff\xfe a;"] { g.emit(format!("P {}", hex_bytes(txt))); }
	// every byte value behind / in front of a valid text ending in LF, CRLF, nothing (what the tokenizer rejects, the parser
	// must not accept); comments nested 255 / 256 / 257 / 1025 deep between two tokens
	for b in 0..=255u8 { for pre in [&b"a 1;\n"[..], b"a 1;\r\n", b"a 1;", b"push {r0, lr};\r\n"] { let mut v = pre.to_vec(); v.push(b); g.emit(format!("P {}", hex_bytes(&v))); let mut w = vec![b]; w.extend_from_slice(pre); g.emit(format!("P {}", hex_bytes(&w))); } }
	for d in [255usize, 256, 257, 1025]
	{
		let mut v: Vec<u8> = b"ldr r0, ".to_vec();
		for _ in 0..d { v.extend_from_slice(b"/*"); }
		v.extend_from_slice(b" x ");
		for _ in 0..d { v.extend_from_slice(b"*/"); }
		v.extend_from_slice(b" [r1];");
		g.emit(format!("P {}", hex_bytes(&v)));
	}
	// one Parser object over a long text: state that accumulates per statement / per call / per parenthesis would show
	{
		let mut long = String::new();
		for k in 0..1100 { long.push_str(&format!("tab f{}(), g(r0, {}), (1 + 2) * 3;\n", k % 7, k)); }
		g.emit(format!("P {}", hex_bytes(long.as_bytes())));
		let mut calls = String::from("tab ");
		for k in 0..1100 { calls.push_str(&format!("f({}), ", k)); }
		calls.push_str("(1 + 2) * 3;");
		g.emit(format!("P {}", hex_bytes(calls.as_bytes())));
		let mut data = String::new();
		for k in 0..3000 { data.push_str(&format!(".du32 at(base, {}) + (1 + 2) * 3;\n", k)); }
		g.emit(format!("P {}", hex_bytes(data.as_bytes())));
		let mut br = String::new();
		for k in 0..1500 { br.push_str(&format!("x [{}], {{{}}}, [(1)];\n", k, k)); }
		g.emit(format!("P {}", hex_bytes(br.as_bytes())));
	}
	let mut idx = vec![0usize; 0];
	for len in 0..=maxlen
	{
		idx.clear(); idx.resize(len, 0);
		loop
		{
			let frags: Vec<&str> = idx.iter().map(|&i| ALPHABET[i]).collect();
			g.emit(format!("P {}", hex_bytes(&join_min(&frags))));
			let mut k = len;
			loop
			{
				if k == 0 { break; }
				k -= 1;
				idx[k] += 1;
				if idx[k] < ALPHABET.len() { k = usize::MAX; break; }
				idx[k] = 0;
			}
			if k != usize::MAX { break; }
		}
	}
	// token-level mutations of valid programs (strings and comments stay intact, the text ends in ASCII)
	let extra: [&str; 14] = ["/", "%", "&", "|", "^", ">>", "0x10", "'c'", "\"t,;\"", "f(", "99999999999999999999", "0x", "\"", "/*"];
	let n = if thorough { 600_000 } else { 12_000 };
	for k in 0..n
	{
		let cnt = 1 + rng.below(4);
		let mut pieces = Vec::new();
		let mut b = Bits{bits: &[], pos: 0};
		for _ in 0..cnt { let s = random_stmt(rng, (k % 5) as u32); render_stmt(&s, &mut b, rng, &mut pieces); }
		let nm = 1 + rng.below(3);
		for _ in 0..nm
		{
			let frag = if rng.chance(3, 4) { pk(rng, &ALPHABET).to_string() } else { pk(rng, &extra).to_string() };
			if pieces.is_empty() { pieces.push(frag); continue; }
			let at = rng.below(pieces.len() as u64) as usize;
			match rng.below(5)
			{
				0 => { pieces.remove(at); },
				1 => pieces.insert(at, frag),
				2 => pieces[at] = frag,
				3 => { let j = rng.below(pieces.len() as u64) as usize; pieces.swap(at, j); },
				_ => pieces.truncate(at),
			}
		}
		// an unterminated string or comment swallows the rest: harmless; raw control bytes are not inserted
		let style = rng.below(6);
		let bytes = join(&pieces, style, rng);
		g.emit(format!("P {}", hex_bytes(&bytes)));
	}
	// deep nesting (bounded: one Rust frame set per level in the real parser)
	for depth in [10usize, 50, 200]
	{
		for (o, c) in [("(", ")"), ("[", "]"), ("{", "}"), ("f(", ")"), ("-", ""), ("!", "")]
		{
			let txt = format!("x {}a{};", o.repeat(depth), c.repeat(depth));
			g.emit(format!("P {}", hex_bytes(txt.as_bytes())));
			let txt = format!("x {}a{};", o.repeat(depth), c.repeat(depth / 2));
			g.emit(format!("P {}", hex_bytes(txt.as_bytes())));
		}
	}
}

fn main()
{
	quiet_panics();
	let mut out = Out::new();
	let (thorough, seed, shard, nshards) = match mode()
	{
		Mode::Replay => { for c in replay_cases() { let (c, r) = run_case(&c); out.line(&c, &r); } return; },
		Mode::Gen{thorough, seed, shard, nshards} => (thorough, seed, shard, nshards),
	};
	let stream = std::env::args().nth(6).unwrap_or("c09".into());
	let mut rng = Rng::new(seed);
	let mut g = Gen{sh: Shard{k: 0, shard, n: nshards}, out};
	match stream.as_str()
	{
		// C09: the tree stream plus a short exhaustive part of the totality stream
		"c09" => { stream_trees(&mut g, thorough, &mut rng); stream_total(&mut g, false, if thorough { 4 } else { 3 }, &mut rng); },
		// C10 (parser half): exhaustive short texts + mutations, plus the (all-valid) tree stream for the Ok side
		"c10" => { stream_total(&mut g, thorough, if thorough { 5 } else { 4 }, &mut rng); },
		// C12 (parser half): statements behind every kind of separator
		_ => { stream_trees(&mut g, thorough, &mut rng); },
	}
}
