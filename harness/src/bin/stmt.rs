//! C04: an instruction statement assembles to the encoding of what was written.
//!   A <addr hex> <variant seed hex> <target hex or -> <instr>
//!       => src=<hex of the generated source> | asm=<status> bytes=<hex> diags=<...>
//! The statement text is rendered from (instr, target, variant seed) by harness/src/stmtgen.rs
//! (letter case, register aliases, immediate forms incl. constants defined before/after, operand order)
//! and assembled by the real Context at `.addr <addr>`.
#[path = "../projrun.rs"]
mod projrun;
use trion::arm6m::asm::{ImmReg, Instruction};
use trion::arm6m::reg::Register;
use verif_harness::asmrun::*;
use verif_harness::codec::*;
use verif_harness::stmtgen::*;
use verif_harness::*;

fn is_pcrel(i: &Instruction) -> bool
{
	matches!(i, Instruction::Adr{..} | Instruction::B{..} | Instruction::Bl{..} | Instruction::Ldr{addr: Register::PC, off: ImmReg::Immediate(_), ..})
}

fn run_case(case: &str) -> String
{
	let t: Vec<&str> = case.split_whitespace().collect();
	let addr = u32::from_str_radix(t[1], 16).unwrap();
	let vseed = u64::from_str_radix(t[2], 16).unwrap();
	let target = if t[3] == "-" { 0 } else { parse_hex_i64(t[3]) };
	let (i, used) = parse_instr(&t[4..]);
	// optional trailing "! <bias hex>": every immediate is written as value + bias
	let bias = if t.len() > 4 + used + 1 && t[4 + used] == "!" { parse_hex_i64(t[4 + used + 1]) } else { 0 };
	// optional trailing "# <n>": wrong operand count (see stmtgen::render_full)
	let arity = if t.len() > 4 + used + 1 && t[4 + used] == "#" { parse_hex_i64(t[4 + used + 1]) as i8 } else { 0 };
	let mut rng = Rng::new(vseed);
	let mut uniq = 0u32;
	let (r, nbiased) = render_full(&i, target, &mut rng, true, &mut uniq, bias, arity);
	// optional trailing "% <hex identifier>": the identifier operand (CPS flag, barrier option, special register name) is
	// replaced by another identifier; `ovr=same` when it is the documented name in another letter case, `ovr=diff` otherwise
	let mut r = r;
	let mut ovr = "";
	if t.len() > 4 + used + 1 && t[4 + used] == "%"
	{
		let new = String::from_utf8_lossy(&parse_hex_bytes(t[4 + used + 1])).into_owned();
		let body = r.stmt.trim_end_matches(';').to_string();
		let sp = body.find(' ').unwrap_or(body.len());
		let (mn, ops) = body.split_at(sp);
		let mut parts: Vec<String> = ops.split(',').map(|x| x.trim().to_string()).collect();
		let k = match i { Instruction::Mrs{..} => parts.len() - 1, _ => 0 };
		ovr = if parts[k].eq_ignore_ascii_case(&new) { "same" } else { "diff" };
		parts[k] = new;
		r.stmt = format!("{} {};", mn, parts.join(", "));
	}
	let src = format!("{}.addr 0x{:X};\n{}\n{}", r.pre, addr, r.stmt, r.post);
	// optional trailing "@": the statement stands in an INCLUDED file; every constant name in it is written `(NAME + ENT9)` with
	// ENT9 (= 0) imported from the includer, which gives it its value only after the include; the includer holds private
	// constants of the same names with other values.  The statement still means what it meant.
	let names: Vec<String> = { let mut v = vec![]; for l in r.pre.lines().chain(r.post.lines()) { if let Some(x) = l.strip_prefix(".const ") { if let Some(c) = x.find(',') { v.push(x[..c].trim().to_string()); } } } v };
	let res = if t.last() == Some(&"@") && !names.is_empty()
	{
		let mut stmt = r.stmt.clone();
		for n in &names { stmt = stmt.replace(n.as_str(), &format!("({} + ENT9)", n)); }
		let decoys: String = names.iter().enumerate().map(|(k, n)| format!(".const {}, {};\n", n, 0x40 + 4 * k)).collect();
		let main = format!("{}.global ENT9;\n.include \"sub.asm\";\n.const ENT9, 0;\n", decoys);
		let sub = format!(".import ENT9;\n{}.addr 0x{:X};\n{}\n{}", r.pre, addr, stmt, r.post);
		projrun::Project{files: vec![("c04.asm".into(), main.into_bytes()), ("sub.asm".into(), sub.into_bytes())], root: "c04.asm".into()}.run()
	}
	else { run_pipeline(src.as_bytes(), "c04.asm") };
	let bytes = match res.regions.iter().find(|(a, _)| *a == addr) { Some((_, d)) => hex_bytes(d), None => "-".into() };
	format!("src={} | asm={} bytes={} diags={} biased={}{}", hex_bytes(src.as_bytes()), res.fmt_status(), bytes, res.fmt_diags(), nbiased, if ovr.is_empty() { String::new() } else { format!(" ovr={}", ovr) })
}

fn near(rng: &mut Rng, centers: &[i64]) -> i64 { *rng.pick(centers) + rng.range(-3, 3) }

fn random_instr(rng: &mut Rng) -> Instruction
{
	use Instruction::*;
	let rg = |rng: &mut Rng| reg(if rng.chance(2, 3) { rng.below(8) as u8 } else { rng.below(16) as u8 });
	let imm_small = |rng: &mut Rng| near(rng, &[0, 7, 8, 31, 32, 62, 124, 255, 256, 508, 1020, 1024, -1, 2147483647, -2147483648]).clamp(i32::MIN as i64, i32::MAX as i64) as i32;
	let ir = |rng: &mut Rng| if rng.chance(1, 2) { ImmReg::Immediate(imm_small(rng)) } else { ImmReg::Register(rg(rng)) };
	match rng.below(40)
	{
		0 => Adc{dst: rg(rng), rhs: rg(rng)},
		1 | 2 => Add{flags: rng.chance(1, 2), dst: rg(rng), lhs: if rng.chance(1, 4) { reg(13) } else { rg(rng) }, rhs: ir(rng)},
		3 | 4 => Sub{flags: rng.chance(1, 2), dst: rg(rng), lhs: if rng.chance(1, 4) { reg(13) } else { rg(rng) }, rhs: ir(rng)},
		5 => Asr{dst: rg(rng), value: rg(rng), shift: ir(rng)},
		6 => Lsl{dst: rg(rng), value: rg(rng), shift: ir(rng)},
		7 => Lsr{dst: rg(rng), value: rg(rng), shift: ir(rng)},
		8 => Cmp{lhs: rg(rng), rhs: ir(rng)},
		9 => Mov{flags: rng.chance(1, 2), dst: rg(rng), src: ir(rng)},
		10 | 11 => Ldr{dst: rg(rng), addr: if rng.chance(1, 4) { reg(13) } else { rg(rng) }, off: ir(rng)},
		12 => Ldrb{dst: rg(rng), addr: rg(rng), off: ir(rng)},
		13 => Ldrh{dst: rg(rng), addr: rg(rng), off: ir(rng)},
		14 | 15 => Str{src: rg(rng), addr: if rng.chance(1, 4) { reg(13) } else { rg(rng) }, off: ir(rng)},
		16 => Strb{src: rg(rng), addr: rg(rng), off: ir(rng)},
		17 => Strh{src: rg(rng), addr: rg(rng), off: ir(rng)},
		18 => Ldrsb{dst: rg(rng), addr: rg(rng), off: rg(rng)},
		19 => Ldrsh{dst: rg(rng), addr: rg(rng), off: rg(rng)},
		20 => Mrs{dst: rg(rng), src: sys(*rng.pick(&SYSREGS))},
		21 => Msr{dst: sys(*rng.pick(&SYSREGS)), src: rg(rng)},
		22 => Blx{off: rg(rng)},
		23 => Bx{off: rg(rng)},
		24 => Ldm{addr: rg(rng), registers: trion::arm6m::regset::RegisterSet::of(if rng.chance(3, 4) { rng.below(256) as u16 } else { rng.next() as u16 })},
		25 => Stm{addr: rg(rng), registers: trion::arm6m::regset::RegisterSet::of(if rng.chance(3, 4) { rng.below(256) as u16 } else { rng.next() as u16 })},
		26 => Pop{registers: trion::arm6m::regset::RegisterSet::of(if rng.chance(3, 4) { (rng.below(256) as u16) | ((rng.below(2) as u16) << 15) } else { rng.next() as u16 })},
		27 => Push{registers: trion::arm6m::regset::RegisterSet::of(if rng.chance(3, 4) { (rng.below(256) as u16) | ((rng.below(2) as u16) << 14) } else { rng.next() as u16 })},
		28 => Cmn{lhs: rg(rng), rhs: rg(rng)},
		29 => Tst{lhs: rg(rng), rhs: rg(rng)},
		30 => Rsb{dst: rg(rng), lhs: rg(rng)},
		31 => Mul{dst: rg(rng), rhs: rg(rng)},
		32 => Bic{dst: rg(rng), rhs: rg(rng)},
		33 => Rev16{dst: rg(rng), value: rg(rng)},
		34 => Uxtb{dst: rg(rng), value: rg(rng)},
		35 => Udfw{info: rng.next() as u16},
		36 => Cps{enable: rng.chance(1, 2)},
		37 => *rng.pick(&[Dmb, Dsb, Isb, Nop, Sev, Wfe, Wfi, Yield]),
		38 => Svc{info: rng.next() as u8},
		_ => Bkpt{info: rng.next() as u8},
	}
}

fn main()
{
	quiet_panics();
	let mut out = Out::new();
	let (thorough, seed, shard, nshards) = match mode()
	{
		Mode::Replay => { for c in replay_cases() { let r = run_case(&c); out.line(&c, &r); } return; },
		Mode::Gen{thorough, seed, shard, nshards} => (thorough, seed, shard, nshards),
	};
	let mut sh = Shard{k: 0, shard, n: nshards};
	let mut rng = Rng::new(seed);
	let addrs: [u32; 21] = [0, 2, 0x10000000, 0x10000001, 0x10000002, 0x10000003, 0x20000000, 0x20000001, 0x20000002, 0x20000003,
		0x7FFFFFF0, 0x7FFFFFF8, 0x7FFFFFFE, 0x80000000, 0x80000010, 0x80FFFFF0, 0xFFFFFFF0, 0xFFFFFFF4, 0xFFFFFFF8, 0xFFFFFFFA, 0xFFFFFFFC];
	let mut emit_x = |addr: u32, target: Option<i64>, i: &Instruction, rng: &mut Rng, out: &mut Out, bias: i64, arity: i64, extra: &str|
	{
		let vseed = rng.next();
		if sh.mine()
		{
			let mut c = format!("A {:x} {:x} {} {}", addr, vseed, match target { Some(t) => hex_i64(t), None => "-".into() }, fmt_instr(i));
			if bias != 0 { c.push_str(&format!(" ! {}", hex_i64(bias))); }
			if arity != 0 { c.push_str(&format!(" # {}", hex_i64(arity))); }
			c.push_str(extra);
			let r = run_case(&c); out.line(&c, &r);
		}
	};
	macro_rules! emit { ($a:expr, $t:expr, $i:expr, $r:expr, $o:expr) => { emit_x($a, $t, $i, $r, $o, 0, 0, "") } }
	macro_rules! emit_b { ($a:expr, $t:expr, $i:expr, $r:expr, $o:expr, $b:expr) => { emit_x($a, $t, $i, $r, $o, $b, 0, "") } }
	// (0) operand-rule boundaries: every instruction form that has an immediate field, with the registers at the edges of
	// each register class and the immediates at, just inside and just outside every field's range and scaling
	{
		use Instruction::*;
		let regs: [u8; 6] = [0, 7, 8, 13, 14, 15];
		let imms: [i32; 46] = [-4, -1, 0, 1, 2, 3, 4, 5, 7, 8, 9, 28, 30, 31, 32, 33, 60, 62, 63, 64, 66, 120, 124, 125, 126, 127, 128, 132, 252, 254, 255, 256,
			257, 260, 504, 508, 509, 510, 512, 516, 1016, 1019, 1020, 1021, 1024, 4096];
		let mut forms: Vec<Instruction> = Vec::new();
		for &a in &regs { for &b in &regs { for &v in &imms
		{
			let (a, b, iv) = (reg(a), reg(b), ImmReg::Immediate(v));
			for flags in [false, true] { forms.push(Add{flags, dst: a, lhs: b, rhs: iv}); forms.push(Sub{flags, dst: a, lhs: b, rhs: iv}); }
			forms.push(Asr{dst: a, value: b, shift: iv}); forms.push(Lsl{dst: a, value: b, shift: iv}); forms.push(Lsr{dst: a, value: b, shift: iv});
			forms.push(Ldr{dst: a, addr: b, off: iv}); forms.push(Ldrb{dst: a, addr: b, off: iv}); forms.push(Ldrh{dst: a, addr: b, off: iv});
			forms.push(Str{src: a, addr: b, off: iv}); forms.push(Strb{src: a, addr: b, off: iv}); forms.push(Strh{src: a, addr: b, off: iv});
		}}}
		for &a in &regs { for &v in &imms
		{
			forms.push(Cmp{lhs: reg(a), rhs: ImmReg::Immediate(v)});
			for flags in [false, true] { forms.push(Mov{flags, dst: reg(a), src: ImmReg::Immediate(v)}); }
		}}
		let quick_stride = if thorough { 1 } else { 3 };
		for (k, f) in forms.iter().enumerate()
		{
			if is_pcrel(f) { continue; }
			if (k + seed as usize) % quick_stride != 0 { continue; }
			let addr = *rng.pick(&addrs);
			emit!(addr, None, f, &mut rng, &mut out);
		}
	}
	// (0b) wrong operand counts: every instruction kind with one operand too many (three ways) or one too few
	{
		let n = if thorough { 40_000 } else { 6_000 };
		let mut k = 0;
		// the kinds that have no 16-bit encoding of their own first, then random decodable halfwords
		let wide = [Instruction::Bl{off: 0}, Instruction::Dmb, Instruction::Dsb, Instruction::Isb, Instruction::Udfw{info: 1},
			Instruction::Mrs{dst: reg(0), src: sys(SYSREGS[0])}, Instruction::Msr{dst: sys(SYSREGS[0]), src: reg(0)},
			Instruction::Nop, Instruction::Sev, Instruction::Wfe, Instruction::Wfi, Instruction::Yield];
		for i in wide.iter() { for ar in [1i64, 2, 3, -1]
		{
			if ar == -1 && matches!(i, Instruction::Nop | Instruction::Sev | Instruction::Wfe | Instruction::Wfi | Instruction::Yield) { continue; }
			let addr = *rng.pick(&addrs);
			emit_x(addr, Some(addr as i64 + 4), i, &mut rng, &mut out, 0, ar, "");
		}}
		while k < n
		{
			let h = rng.below(0x10000) as u16;
			if let Ok((2, i)) = Instruction::decode(&h.to_le_bytes())
			{
				let ar = *rng.pick(&[1i64, 2, 3, -1]);
				if ar == -1 && matches!(i, Instruction::Nop | Instruction::Sev | Instruction::Wfe | Instruction::Wfi | Instruction::Yield) { continue; }
				let addr = *rng.pick(&addrs);
				let target = match i
				{
					Instruction::B{off, ..} => Some(addr as i64 + 4 + off as i64),
					Instruction::Adr{off, ..} => Some((addr & !3) as i64 + 4 + off as i64),
					Instruction::Ldr{addr: Register::PC, off: ImmReg::Immediate(off), ..} => Some((addr & !3) as i64 + 4 + off as i64),
					_ => None,
				};
				emit_x(addr, target, &i, &mut rng, &mut out, 0, ar, "");
				k += 1;
			}
		}
	}
	// (1) every encodable 16-bit instruction (all decodable halfwords), PC-relative ones with their target
	let reps = if thorough { 4 } else { 1 };
	for _ in 0..reps { for h in 0..=0xFFFFu32
	{
		if let Ok((2, i)) = Instruction::decode(&(h as u16).to_le_bytes())
		{
			let addr = *rng.pick(&addrs);
			let target = match i
			{
				Instruction::B{off, ..} => Some(addr as i64 + 4 + off as i64),
				Instruction::Adr{off, ..} => Some((addr & !3) as i64 + 4 + off as i64),
				Instruction::Ldr{addr: Register::PC, off: ImmReg::Immediate(off), ..} => Some((addr & !3) as i64 + 4 + off as i64),
				_ => None,
			};
			emit!(addr, target, &i, &mut rng, &mut out);
			if h % 5 == (seed % 5) as u32 { emit_x(addr, target, &i, &mut rng, &mut out, 0, 0, " @"); }
		}
	}}
	// (0c) near-miss identifiers where the syntax wants one particular name: CPS flag, barrier option, special register
	{
		use Instruction::*;
		let mut kinds: Vec<(Instruction, String)> = vec![(Cps{enable: true}, "i".into()), (Cps{enable: false}, "i".into()), (Dmb, "SY".into()), (Dsb, "SY".into()), (Isb, "SY".into())];
		let sysnames: Vec<String> = SYSREGS.iter().map(|&n| format!("{:?}", sys(n))).collect();
		for &n in SYSREGS.iter() { kinds.push((Mrs{dst: reg(1), src: sys(n)}, format!("{:?}", sys(n)))); kinds.push((Msr{dst: sys(n), src: reg(2)}, format!("{:?}", sys(n)))); }
		for (i, name) in kinds.iter()
		{
			let mut cands: Vec<String> = vec![name.to_lowercase(), name.to_uppercase()];
			for suf in ["S", "_", "T", "0", "Y", "s"] { cands.push(format!("{}{}", name, suf)); }
			if name.len() > 1 { cands.push(name[..name.len() - 1].to_string()); cands.push(name[1..].to_string()); }
			cands.push(format!("{}{}", &name[..1], name)); cands.push(format!("X{}", name)); cands.push("R0".into()); cands.push("q".into());
			for c in cands
			{
				// another valid name of the same kind is not a near miss
				let valid_other = !c.eq_ignore_ascii_case(name) && (sysnames.iter().any(|v| v.eq_ignore_ascii_case(&c)) && matches!(i, Mrs{..} | Msr{..}));
				if valid_other { continue; }
				let addr = *rng.pick(&addrs);
				emit_x(addr, None, i, &mut rng, &mut out, 0, 0, &format!(" % {}", hex_bytes(c.as_bytes())));
			}
		}
	}
	// (2) PC-relative boundaries: every range edge, misalignment, and targets outside the u32 space
	for &addr in &addrs
	{
		for c in 0..15u8 { for off in [-2050i64, -2048, -2047, -2046, -258, -256, -255, -254, -4, -2, -1, 0, 1, 2, 252, 254, 255, 256, 2044, 2046, 2047, 2048]
		{
			emit!(addr, Some(addr as i64 + 4 + off), &Instruction::B{cond: cond(c), off: 0}, &mut rng, &mut out);
		}}
		for off in [-16777218i64, -16777216, -16777215, -16777214, -2, 0, 1, 2, 16777212, 16777214, 16777215, 16777216, 16777218]
		{
			emit!(addr, Some(addr as i64 + 4 + off), &Instruction::Bl{off: 0}, &mut rng, &mut out);
		}
		// every single offset bit (the BL encoding scatters S, J1, J2, imm10, imm11), both signs, and mid-range offsets
		for k in 1..24 { for sgn in [1i64, -1] { for d in [0i64, 2] {
			emit!(addr, Some(addr as i64 + 4 + sgn * ((1i64 << k) + d)), &Instruction::Bl{off: 0}, &mut rng, &mut out);
		}}}
		for _ in 0..6 { let off = 2 * rng.range(-(1 << 23), (1 << 23) - 1); emit!(addr, Some(addr as i64 + 4 + off), &Instruction::Bl{off: 0}, &mut rng, &mut out); }
		for k in 1..11 { for sgn in [1i64, -1] { emit!(addr, Some(addr as i64 + 4 + sgn * (1i64 << k)), &Instruction::B{cond: cond(14), off: 0}, &mut rng, &mut out); } }
		for off in [-4i64, -1, 0, 1, 2, 3, 4, 1016, 1019, 1020, 1021, 1024, 65536, 65540]
		{
			for d in [0u8, 7, 8] {
				emit!(addr, Some((addr & !3) as i64 + 4 + off), &Instruction::Adr{dst: reg(d), off: 0}, &mut rng, &mut out);
				emit!(addr, Some((addr & !3) as i64 + 4 + off), &Instruction::Ldr{dst: reg(d), addr: reg(15), off: ImmReg::Immediate(0)}, &mut rng, &mut out);
			}
		}
	}
	// (2b) values the operand types cannot hold: every immediate / target written as v + k * 2^32 (or near the i64
	// extremes): must be diagnosed, never reduced modulo 2^32
	{
		let biases: [i64; 6] = [1 << 32, -(1 << 32), 1 << 33, 1 << 40, 1 << 62, -(1 << 62)];
		let n = if thorough { 60_000 } else { 6_000 };
		let mut k = 0;
		while k < n
		{
			let h = rng.below(0x10000) as u16;
			if let Ok((2, i)) = Instruction::decode(&h.to_le_bytes())
			{
				let addr = *rng.pick(&addrs);
				let target = match i
				{
					Instruction::B{off, ..} => Some(addr as i64 + 4 + off as i64),
					Instruction::Adr{off, ..} => Some((addr & !3) as i64 + 4 + off as i64),
					Instruction::Ldr{addr: Register::PC, off: ImmReg::Immediate(off), ..} => Some((addr & !3) as i64 + 4 + off as i64),
					_ => None,
				};
				let bias = *rng.pick(&biases);
				emit_b!(addr, target, &i, &mut rng, &mut out, bias);
				k += 1;
			}
		}
	}
	// (2c) audit-C: small fields just outside their range (the biases of (2b) leave the operand type before the field
	// check is reached): SVC / BKPT / UDF.N with v + 0x100 and v - 0x100, UDF.W with v +- 0x10000, RSBS with a non-zero
	// immediate (the only accepted one is 0)
	{
		use Instruction::*;
		for info in [0u8, 1, 0x7F, 0x80, 0xFE, 0xFF]
		{
			for bias in [0x100i64, -0x100, 0x200, 0xFF00]
			{
				for i in [Svc{info}, Bkpt{info}, Udf{info}]
				{
					let addr = *rng.pick(&addrs);
					emit_b!(addr, None, &i, &mut rng, &mut out, bias);
				}
			}
		}
		for info in [0u16, 1, 0x7FFF, 0x8000, 0xFFFF]
		{
			for bias in [0x10000i64, -0x10000, 0x7FFF0000] { let addr = *rng.pick(&addrs); emit_b!(addr, None, &Udfw{info}, &mut rng, &mut out, bias); }
		}
		for bias in [1i64, -1, 2, 0xFF, 0x100, 0x7FFFFFFF, -0x80000000]
		{
			for (d, l) in [(0u8, 0u8), (7, 1), (1, 7), (8, 0), (0, 13)] { let addr = *rng.pick(&addrs); emit_b!(addr, None, &Rsb{dst: reg(d), lhs: reg(l)}, &mut rng, &mut out, bias); }
		}
	}
	// (3) 32-bit and random (mostly encodable, many just outside) instructions
	let nrand = if thorough { 600_000 } else { 40_000 };
	for _ in 0..nrand { let i = random_instr(&mut rng); if is_pcrel(&i) { continue; } let addr = *rng.pick(&addrs); emit!(addr, None, &i, &mut rng, &mut out); }
}
