//! C01/C02/C03: Instruction::encode / decode.
//!   E <instr>            => <encode text> | rt=<decode text of the emitted bytes>
//!   O <cap> <instr>      => <encode text into a buffer of cap bytes>
//!   D <hexbytes>         => <decode text> | re=<encode text of the decoded instruction>
//! usage: codec gen <tier> <seed> <shard> <nshards> <enc|dec>   |   codec replay
use trion::arm6m::asm::{ImmReg, Instruction};
use trion::arm6m::regset::RegisterSet;
use verif_harness::codec::*;
use verif_harness::*;

fn run_case(case: &str) -> String
{
	let t: Vec<&str> = case.split_whitespace().collect();
	match t[0]
	{
		"E" =>
		{
			let (i, _) = parse_instr(&t[1..]);
			let (txt, bytes) = fmt_encode(&i, 4);
			if txt.starts_with("ok") { format!("{} | rt={}", txt, fmt_decode(&bytes)) } else { txt }
		},
		"O" =>
		{
			let cap: usize = t[1].parse().unwrap();
			let (i, _) = parse_instr(&t[2..]);
			fmt_encode(&i, cap).0
		},
		"D" =>
		{
			let bytes = parse_hex_bytes(t[1]);
			let d = fmt_decode(&bytes);
			if d.starts_with("ok")
			{
				let dt: Vec<&str> = d.split_whitespace().collect();
				let (i, _) = parse_instr(&dt[2..]);
				format!("{} | re={}", d, fmt_encode(&i, 4).0)
			}
			else { d }
		},
		_ => "bad-case".into(),
	}
}

fn imm_grid() -> Vec<i32>
{
	let mut g: Vec<i64> = Vec::new();
	for k in 0..32 { for d in -2..=2 { g.push((1i64 << k) + d); g.push(-(1i64 << k) + d); } }
	for v in -70..=70 { g.push(v); }
	// truncation aliases: a small in-range value plus a high bit (a check made after a narrowing cast would accept them)
	for k in 16..32 { for b in [1i64, 2, 4, 6, 8, 30, 31, 62, 124, 255] { g.push((1i64 << k) + b); g.push(-(1i64 << k) + b); } }
	for c in [7i64, 31, 32, 62, 124, 254, 255, 256, 508, 1020, 2046, 2048, 4094, 4096, 0x3E, 0x7C, 0xFF, 0x1FC, 0x3FC, 16777214, 16777216]
	{
		for d in -4..=4 { g.push(c + d); g.push(-c + d); }
	}
	g.push(i32::MIN as i64); g.push(i32::MAX as i64);
	let mut v: Vec<i32> = g.into_iter().filter(|x| *x >= i32::MIN as i64 && *x <= i32::MAX as i64).map(|x| x as i32).collect();
	v.sort(); v.dedup(); v
}

fn main()
{
	quiet_panics();
	let mut out = Out::new();
	let (thorough, seed, shard, nshards) = match mode()
	{
		Mode::Replay => { for c in replay_cases() { let r = run_case(&c); out.line(&c, &r); } return; },
		Mode::Gen{thorough, seed, shard, nshards} => (thorough, seed, shard, nshards),
	};
	let stream = std::env::args().nth(6).unwrap_or("enc".into());
	let mut sh = Shard{k: 0, shard, n: nshards};
	let mut rng = Rng::new(seed);
	let mut emit = |c: String, out: &mut Out| { if sh.mine() { let r = run_case(&c); out.line(&c, &r); } };
	if stream == "enc"
	{
		use Instruction::*;
		let grid: Vec<i32> = if thorough { let mut g = imm_grid(); for v in -1100..=1100 { g.push(v); } g.sort(); g.dedup(); g } else { imm_grid() };
		let regs: Vec<_> = (0..16u8).map(reg).collect();
		let mut e = |i: Instruction, out: &mut Out| emit(format!("E {}", fmt_instr(&i)), out);
		// corpus: witnesses of the repaired defects F1, F2, F3, F22, F23
		for i in [Adc{dst: reg(8), rhs: reg(0)}, Adc{dst: reg(0), rhs: reg(9)},
			Cmp{lhs: reg(15), rhs: ImmReg::Register(reg(0))}, Cmp{lhs: reg(0), rhs: ImmReg::Register(reg(15))},
			Add{flags: false, dst: reg(0), lhs: reg(0), rhs: ImmReg::Register(reg(1))},
			Add{flags: false, dst: reg(15), lhs: reg(15), rhs: ImmReg::Register(reg(0))},
			Cps{enable: true}, Cps{enable: false},
			Add{flags: true, dst: reg(0), lhs: reg(0), rhs: ImmReg::Register(reg(8))}] { e(i, &mut out); }
		for &a in &regs { for &b in &regs
		{
			for i in [Adc{dst: a, rhs: b}, And{dst: a, rhs: b}, Bic{dst: a, rhs: b}, Cmn{lhs: a, rhs: b}, Eor{dst: a, rhs: b},
				Mul{dst: a, rhs: b}, Mvn{dst: a, value: b}, Orr{dst: a, rhs: b}, Rev{dst: a, value: b}, Rev16{dst: a, value: b},
				Revsh{dst: a, value: b}, Ror{dst: a, rhs: b}, Rsb{dst: a, lhs: b}, Sbc{dst: a, rhs: b}, Sxtb{dst: a, value: b},
				Sxth{dst: a, value: b}, Tst{lhs: a, rhs: b}, Uxtb{dst: a, value: b}, Uxth{dst: a, value: b},
				Cmp{lhs: a, rhs: ImmReg::Register(b)}, Mov{flags: true, dst: a, src: ImmReg::Register(b)}, Mov{flags: false, dst: a, src: ImmReg::Register(b)}]
			{ e(i, &mut out); }
			for &c in &regs
			{
				let rc = ImmReg::Register(c);
				for i in [Ldrsb{dst: a, addr: b, off: c}, Ldrsh{dst: a, addr: b, off: c},
					Asr{dst: a, value: b, shift: rc}, Lsl{dst: a, value: b, shift: rc}, Lsr{dst: a, value: b, shift: rc},
					Ldr{dst: a, addr: b, off: rc}, Ldrb{dst: a, addr: b, off: rc}, Ldrh{dst: a, addr: b, off: rc},
					Str{src: a, addr: b, off: rc}, Strb{src: a, addr: b, off: rc}, Strh{src: a, addr: b, off: rc},
					Add{flags: true, dst: a, lhs: b, rhs: rc}, Add{flags: false, dst: a, lhs: b, rhs: rc},
					Sub{flags: true, dst: a, lhs: b, rhs: rc}, Sub{flags: false, dst: a, lhs: b, rhs: rc}]
				{ e(i, &mut out); }
			}
			for &v in &grid
			{
				let iv = ImmReg::Immediate(v);
				for i in [Add{flags: true, dst: a, lhs: b, rhs: iv}, Add{flags: false, dst: a, lhs: b, rhs: iv},
					Sub{flags: true, dst: a, lhs: b, rhs: iv}, Sub{flags: false, dst: a, lhs: b, rhs: iv},
					Ldr{dst: a, addr: b, off: iv}, Ldrb{dst: a, addr: b, off: iv}, Ldrh{dst: a, addr: b, off: iv},
					Str{src: a, addr: b, off: iv}, Strb{src: a, addr: b, off: iv}, Strh{src: a, addr: b, off: iv},
					Asr{dst: a, value: b, shift: iv}, Lsl{dst: a, value: b, shift: iv}, Lsr{dst: a, value: b, shift: iv}]
				{ e(i, &mut out); }
			}
		}}
		for &a in &regs
		{
			e(Blx{off: a}, &mut out); e(Bx{off: a}, &mut out);
			for &s in &SYSREGS { e(Mrs{dst: a, src: sys(s)}, &mut out); e(Msr{dst: sys(s), src: a}, &mut out); }
			for &v in &grid
			{
				let iv = ImmReg::Immediate(v);
				e(Cmp{lhs: a, rhs: iv}, &mut out); e(Mov{flags: true, dst: a, src: iv}, &mut out); e(Mov{flags: false, dst: a, src: iv}, &mut out);
			}
			// ADR offsets and LDM/STM lists: all 2^16 values for two registers, a grid for the rest
			let full = a == reg(0) || a == reg(8) || thorough;
			for v in 0..=0xFFFFu32
			{
				let v = v as u16;
				if full || v < 0x420 || v.count_ones() <= 2 || v >= 0xFFF0
				{
					e(Adr{dst: a, off: v}, &mut out); e(Ldm{addr: a, registers: RegisterSet::of(v)}, &mut out); e(Stm{addr: a, registers: RegisterSet::of(v)}, &mut out);
				}
			}
		}
		for i in [Dmb, Dsb, Isb, Nop, Sev, Wfe, Wfi, Yield, Cps{enable: true}, Cps{enable: false}] { e(i, &mut out); }
		for v in 0..=255u8 { e(Bkpt{info: v}, &mut out); e(Svc{info: v}, &mut out); e(Udf{info: v}, &mut out); }
		for v in 0..=0xFFFFu32 { let v = v as u16; e(Pop{registers: RegisterSet::of(v)}, &mut out); e(Push{registers: RegisterSet::of(v)}, &mut out); e(Udfw{info: v}, &mut out); }
		for c in 0..15u8
		{
			for &v in &grid { e(B{cond: cond(c), off: v}, &mut out); }
			for v in -2100..=2100 { e(B{cond: cond(c), off: v}, &mut out); }
		}
		for &v in &grid { e(Bl{off: v}, &mut out); }
		let nbl = if thorough { 3_000_000 } else { 60_000 };
		for _ in 0..nbl { e(Bl{off: rng.range(-16777300, 16777300) as i32}, &mut out); }
		if thorough { let mut v = -16777216i32; while v < 16777216 { e(Bl{off: v}, &mut out); v += 2 * 7; } }
		// buffer capacities 0..4 and larger than any instruction (5, 6, 8, 64) for one 16-bit, one 32-bit and one
		// unrepresentable instruction of every shape
		for cap in [0usize, 1, 2, 3, 4, 5, 6, 8, 64]
		{
			for i in [Nop, Dmb, Bl{off: 4}, Bl{off: 3}, Adc{dst: reg(0), rhs: reg(1)}, Adc{dst: reg(8), rhs: reg(1)}, Udfw{info: 0x1234},
				Mrs{dst: reg(0), src: sys(0)}, Msr{dst: sys(20), src: reg(13)}, Push{registers: RegisterSet::of(0)}, Push{registers: RegisterSet::of(1)}]
			{ emit(format!("O {} {}", cap, fmt_instr(&i)), &mut out); }
		}
	}
	else
	{
		// ---- decoder stream ----
		let mut d = |b: &[u8], out: &mut Out| emit(format!("D {}", hex_bytes(b)), out);
		d(&[], &mut out);
		for b in 0..=255u8 { d(&[b], &mut out); }
		for h in 0..=0xFFFFu32 { let hb = (h as u16).to_le_bytes(); d(&hb, &mut out); if h >= 0xE800 || h % 257 == 0 { d(&[hb[0], hb[1], 0xAB], &mut out); } }
		// structured second halfwords
		let mut seconds: Vec<u16> = Vec::new();
		let bases = [0x0000u16, 0xFFFF, 0x8000, 0x8800, 0x88FF, 0x8F4F, 0x8F5F, 0x8F6F, 0x8F40, 0x8F00, 0x80FF, 0x8014, 0x8F14, 0xA000, 0xAFFF, 0xA800,
			0xD000, 0xD7FF, 0xF800, 0xFFFE, 0xF000, 0xE800, 0xC000, 0x9000, 0xB000, 0x4000, 0x7FFF];
		for &b0 in &bases
		{
			seconds.push(b0);
			for bit in 0..16 { seconds.push(b0 ^ (1 << bit)); }
			for nib in 0..4 { for v in 0..16u16 { seconds.push((b0 & !(0xF << (4 * nib))) | (v << (4 * nib))); } }
		}
		for s in [0u8, 1, 2, 3, 4, 5, 6, 7, 8, 9, 10, 16, 17, 20, 21, 255] { for r in 0..16u16 { seconds.push(0x8000 | (r << 8) | s as u16); seconds.push(0x8800 | s as u16 | ((r & 1) << 13)); } }
		for _ in 0..64 { seconds.push(rng.next() as u16); }
		seconds.sort(); seconds.dedup();
		if thorough
		{
			// the complete 32-bit domain: 6144 x 65536 pairs
			for h0 in 0xE800..=0xFFFFu32 { for h1 in 0..=0xFFFFu32
			{
				let a = (h0 as u16).to_le_bytes(); let b = (h1 as u16).to_le_bytes();
				d(&[a[0], a[1], b[0], b[1]], &mut out);
			}}
		}
		else
		{
			for h0 in 0xE800..=0xFFFFu32 { for &h1 in &seconds
			{
				let a = (h0 as u16).to_le_bytes(); let b = h1.to_le_bytes();
				d(&[a[0], a[1], b[0], b[1]], &mut out);
			}}
			// every second halfword for a few first halfwords of each 32-bit family, with trailing bytes
			for h0 in [0xF380u16, 0xF38D, 0xF39F, 0xF3BF, 0xF3B0, 0xF3EF, 0xF3E0, 0xF7F0, 0xF7FF, 0xF000, 0xF400, 0xF7FE, 0xF3FF, 0xE800, 0xFFFF]
			{
				for h1 in 0..=0xFFFFu32 { let a = h0.to_le_bytes(); let b = (h1 as u16).to_le_bytes(); d(&[a[0], a[1], b[0], b[1], 0x12, 0x34], &mut out); }
			}
		}
		let nrand = if thorough { 2_000_000 } else { 100_000 };
		for _ in 0..nrand { let n = rng.below(7) as usize; let b = rng.bytes(n); d(&b, &mut out); }
	}
}
