//! ad-hoc probe: assembles each line of stdin as one source text (\n written as "\\n"), prints the observation
use verif_harness::*;
use verif_harness::asmrun::*;
use std::io::BufRead;
fn main()
{
	quiet_panics();
	for l in std::io::stdin().lock().lines()
	{
		let l = l.unwrap().replace("\\n", "\n");
		let r = run_pipeline(l.as_bytes(), "probe.asm");
		println!("{:?} => {} regions={} diags={} {}", l, r.fmt_status(), r.fmt_regions(), r.fmt_diags(), r.panic.clone().unwrap_or_default());
	}
}
