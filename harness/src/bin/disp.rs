//! C19: text of `instr.at(addr)` and its re-assembly.
//!   S <addr hex> <instr>  => text=<hex of the printed text> | asm=<status> bytes=<hex or -> diags=<...>
//! The text is assembled by the real Context as `[.const l_XXXXXXXX, 0xXXXXXXXX;] .addr 0x<addr>; <text>`.
use trion::arm6m::asm::Instruction;
use verif_harness::asmrun::*;
use verif_harness::codec::*;
use verif_harness::*;

fn run_case(case: &str) -> String
{
	let t: Vec<&str> = case.split_whitespace().collect();
	let addr = u32::from_str_radix(t[1], 16).unwrap();
	let (i, _) = parse_instr(&t[2..]);
	let text = match catch(move || format!("{}", i.at(addr))) { Ok(s) => s, Err(_) => return "panic-display".into() };
	// where the label of a PC-relative text gets its value: S = before the statement; S1 = after it (the statement waits);
	// S2 = after it and after another region has been selected (the statement is completed when its region is closed;
	// the NOP behind it must stay intact)
	let mut src = String::new();
	let label = text.find("l_").map(|p| text[p..p + 10].to_string());
	let def = label.as_ref().map(|name| format!(".const {}, 0x{};\n", name, &name[2..])).unwrap_or_default();
	let far: u32 = if addr < 0x8000_0000 { 0xC000_0000 } else { 0x4000_0000 };
	match t[0]
	{
		"S1" => src.push_str(&format!(".addr 0x{:08X};\n{}\n{}", addr, text, def)),
		"S2" => src.push_str(&format!(".addr 0x{:08X};\n{}\nNOP;\n.addr 0x{:08X};\n{}NOP;\n", addr, text, far, def)),
		_ => src.push_str(&format!("{}.addr 0x{:08X};\n{}\n", def, addr, text)),
	}
	let r = run_pipeline(src.as_bytes(), "c19.asm");
	let bytes = match r.regions.iter().find(|(a, _)| *a == addr)
	{
		Some((_, d)) => if t[0] == "S2" && d.len() >= 2 && d[d.len() - 2..] == [0x00, 0xBF] { hex_bytes(&d[..d.len() - 2]) } else { hex_bytes(d) },
		None => "-".into(),
	};
	format!("text={} | asm={} bytes={} diags={}", hex_bytes(text.as_bytes()), r.fmt_status(), bytes, r.fmt_diags())
}

fn main()
{
	quiet_panics();
	let mut out = Out::new();
	let (thorough, seed, shard, nshards) = match mode()
	{
		Mode::Replay => { for c in replay_cases() { let r = run_case(&c); out.line(&c, &r); } return; },
		Mode::Gen{thorough, seed, shard, nshards} => (thorough, seed, shard, nshards),
	};
	let mut sh = Shard{k: 0, shard, n: nshards};
	let mut rng = Rng::new(seed);
	let sh = std::cell::RefCell::new(sh);
	let emit_k = |kind: &str, addr: u32, i: &Instruction, out: &mut Out| { if sh.borrow_mut().mine() { let c = format!("{} {:x} {}", kind, addr, fmt_instr(i)); let r = run_case(&c); out.line(&c, &r); } };
	let emit = |addr: u32, i: &Instruction, out: &mut Out| emit_k("S", addr, i, out);
	let addrs: Vec<u32> = if thorough { vec![0x20000000, 0x20000002, 0, 2, 0x10000100, 0x1FFFFFFE, 0x7FFFFFF0, 0x7FFFFFFC, 0x80000000, 0x80000010, 0xFFFFFFF0, 0xFFFFFFFA, 0xFFFFFFFC, 0xFFFFFFFE] }
		// (the two addresses around 2^31: a PC-relative target on the other side of the sign bit of an i32)
		else { vec![0x20000000, 0x20000002, 0, 0x7FFFFFF0, 0x80000010, 0xFFFFFFF0, 0xFFFFFFFC] };
	// audit: Display is total on `Instruction`, but everything below prints only values that come out of the decoder.
	// Fixed cases for the arms / operand values the decoder never produces (negative and extreme immediates, LDR with
	// PC base and a register offset, odd and out-of-range PC-relative offsets, register lists with bits 8..15, PC / SP
	// in every register slot) and for odd addresses.  None of them is encodable, so the driver compares the printed
	// text with the model only (no re-assembly verdict).
	{
		use trion::arm6m::asm::ImmReg::{Immediate as I, Register as R};
		use trion::arm6m::regset::RegisterSet;
		use Instruction::*;
		let odd: [(u32, Instruction); 40] = [
			(0x20000000, Add{flags: true, dst: reg(0), lhs: reg(1), rhs: I(-5)}),
			(0x20000000, Add{flags: false, dst: reg(13), lhs: reg(13), rhs: I(i32::MIN)}),
			(0x20000001, Add{flags: false, dst: reg(15), lhs: reg(15), rhs: I(i32::MAX)}),
			(0x20000000, Add{flags: true, dst: reg(0), lhs: reg(13), rhs: R(reg(0))}),
			(0x20000000, Sub{flags: true, dst: reg(8), lhs: reg(9), rhs: I(-1)}),
			(0x20000000, Sub{flags: false, dst: reg(15), lhs: reg(13), rhs: R(reg(13))}),
			(0x20000000, Cmp{lhs: reg(12), rhs: I(i32::MIN)}),
			(0x20000000, Mov{flags: false, dst: reg(15), src: I(-1)}),
			(0x20000000, Lsl{dst: reg(9), value: reg(10), shift: I(-32)}),
			(0x20000000, Lsr{dst: reg(1), value: reg(2), shift: I(0)}),
			(0x20000000, Asr{dst: reg(1), value: reg(2), shift: I(33)}),
			(0x20000000, Ldr{dst: reg(0), addr: reg(15), off: R(reg(1))}),
			(0x20000000, Ldr{dst: reg(0), addr: reg(15), off: I(-4)}),
			(2, Ldr{dst: reg(0), addr: reg(15), off: I(-8)}),
			(0, Ldr{dst: reg(0), addr: reg(15), off: I(i32::MIN)}),
			(0xFFFFFFFE, Ldr{dst: reg(7), addr: reg(15), off: I(i32::MAX)}),
			(0x20000003, Ldr{dst: reg(8), addr: reg(15), off: I(3)}),
			(0x20000000, Ldr{dst: reg(14), addr: reg(12), off: I(0x12345)}),
			(0x20000000, Ldrb{dst: reg(0), addr: reg(15), off: I(-1)}),
			(0x20000000, Strb{src: reg(15), addr: reg(15), off: I(-i32::MAX)}),
			(0x20000000, Strh{src: reg(13), addr: reg(14), off: R(reg(15))}),
			(0x20000000, Ldrsh{dst: reg(15), addr: reg(14), off: reg(13)}),
			(0x20000000, Adr{dst: reg(0), off: 0xFFFF}),
			(0xFFFFFFFD, Adr{dst: reg(15), off: 1}),
			(3, Adr{dst: reg(8), off: 0x3FD}),
			(0x20000000, B{cond: cond(0), off: 1}),
			(0x20000001, B{cond: cond(14), off: -1}),
			(0x20000000, B{cond: cond(5), off: i32::MAX}),
			(0xFFFFFFFC, B{cond: cond(14), off: i32::MAX}),
			(0, B{cond: cond(14), off: i32::MIN}),
			(0x20000000, Bl{off: 1}),
			(0x20000003, Bl{off: i32::MIN}),
			(1, Bl{off: i32::MAX}),
			(0x20000000, Bl{off: 0x1000000}),
			(0x20000000, Ldm{addr: reg(15), registers: RegisterSet::of(0xFFFF)}),
			(0x20000000, Stm{addr: reg(13), registers: RegisterSet::of(0x8001)}),
			(0x20000000, Pop{registers: RegisterSet::of(0)}),
			(0x20000000, Pop{registers: RegisterSet::of(0x7F00)}),
			(0x20000000, Push{registers: RegisterSet::of(0xFFFF)}),
			(0x20000000, Mrs{dst: reg(13), src: sys(20)}),
		];
		for (a, i) in odd.iter() { emit(*a, i, &mut out); }
	}
	// every decodable 16-bit pattern
	for h in 0..=0xFFFFu32
	{
		let b = (h as u16).to_le_bytes();
		if let Ok((2, i)) = Instruction::decode(&b)
		{
			let pcrel = matches!(i, Instruction::Adr{..} | Instruction::B{..} | Instruction::Ldr{addr: trion::arm6m::reg::Register::PC, ..});
			if pcrel { for &a in &addrs { emit(a, &i, &mut out); } for kind in ["S1", "S2"] { let a = addrs[(h as usize / 7) % addrs.len()]; if a < 0xFFFF_FFF0 { emit_k(kind, a, &i, &mut out); } } }
			else { emit(addrs[(h as usize) % 2], &i, &mut out); if thorough { emit(addrs[2 + (h as usize) % 3], &i, &mut out); } }
		}
	}
	// 32-bit: every MSR/MRS/barrier pattern, UDF.W payloads, BL offsets
	for h0 in [0xF380u32, 0xF381, 0xF38C, 0xF38E, 0xF3EF, 0xF3BF]
	{
		for h1 in 0x8000..=0x8FFFu32
		{
			let a = (h0 as u16).to_le_bytes(); let b = (h1 as u16).to_le_bytes();
			if let Ok((4, i)) = Instruction::decode(&[a[0], a[1], b[0], b[1]]) { emit(0x20000000, &i, &mut out); }
		}
	}
	let nudf = if thorough { 65536 } else { 2048 };
	for k in 0..nudf { let v = if thorough { k as u16 } else { rng.next() as u16 }; emit(0x20000000, &Instruction::Udfw{info: v}, &mut out); }
	for v in [0u16, 1, 0xFFF, 0x1000, 0xF000, 0xFFFF] { emit(0x20000002, &Instruction::Udfw{info: v}, &mut out); }
	let mut bl: Vec<i32> = vec![-16777216, -16777214, -8388610, -8388608, -4194306, -4194304, -4098, -4096, -4, -2, 0, 2, 4, 4094, 4096, 4194302, 4194304, 8388606, 8388608, 16777212, 16777214];
	let nbl = if thorough { 200_000 } else { 4_000 };
	for _ in 0..nbl { bl.push((rng.range(-8388608, 8388607) * 2) as i32); }
	for &off in &bl { for &a in &addrs { emit(a, &Instruction::Bl{off}, &mut out); } }
	for (k, &off) in bl.iter().enumerate() { if k % 8 == 0 { let a = addrs[k % addrs.len()]; if a < 0xFFFF_FFF0 { emit_k("S1", a, &Instruction::Bl{off}, &mut out); emit_k("S2", a, &Instruction::Bl{off}, &mut out); } } }
}
