//! C11 (+ tokenizer halves of C10, C12): `Tokenizer::new(bytes)` observed as its whole item sequence.
//!   T <hexbytes>                              plain tokenization (exhaustive / random / corpus streams)
//!   P <hexbytes> <off,off,...|->              position stream: byte offsets of the tokens, known to the generator
//!   LIT <int|chr|str> <expected> <hexbytes>   literal stream: expected = value (hex number / hex bytes), `reject` or `quirk`
//! observation (all three):  <item> <item> ... / <poll> <poll> <poll>      or      panic
//!   item = <line>:<col>:<token value>  |  E:<line>:<col>:<error kind>;   poll = `-` for None, else an item
//! usage: tok gen <tier> <seed> <shard> <nshards> <streams: any of exh,lit,pos,rand joined by '+'>  |  tok replay
use trion::text::token::Tokenizer;
use verif_harness::argtext::{fmt_tok_err_kind, fmt_token_value};
use verif_harness::*;

fn observe(bytes: &[u8]) -> String
{
	let r = catch(||
	{
		let mut t = Tokenizer::new(bytes);
		let mut words: Vec<String> = Vec::new();
		let fmt = |it: Result<trion::text::token::Token, trion::text::token::TokenError>| match it
		{
			Ok(tok) => format!("{}:{}:{}", tok.line, tok.col, fmt_token_value(&tok.value)),
			Err(e) => format!("E:{}:{}:{}", e.line, e.col, fmt_tok_err_kind(&e.value)),
		};
		let mut n = 0usize;
		loop
		{
			match t.next()
			{
				None => break,
				Some(it) => words.push(fmt(it)),
			}
			n += 1;
			if n > bytes.len() + 8 { words.push("RUNAWAY".into()); break; }
		}
		words.push("/".into());
		for _ in 0..3
		{
			match t.next() { None => words.push("-".into()), Some(it) => words.push(fmt(it)) }
		}
		words.join(" ")
	});
	match r { Ok(s) => s, Err(_) => "panic".into() }
}

fn run_case(case: &str) -> String
{
	let t: Vec<&str> = case.split_whitespace().collect();
	match t[0]
	{
		"T" | "P" => observe(&parse_hex_bytes(t[1])),
		"LIT" => observe(&parse_hex_bytes(t[3])),
		_ => "bad-case".into(),
	}
}

// ------------------------------------------------------------------ (i) exhaustive stream
fn alphabet() -> Vec<Vec<u8>>
{
	let mut a: Vec<Vec<u8>> = b"/*\"'\\u{}0bxo9aF_.:;,<>+- \n\t\r".iter().map(|&c| vec![c]).collect();
	a.push(vec![0x7F]); a.push(vec![0x01]); a.push(vec![0x00]);
	a.push("é".as_bytes().to_vec());          // 2-byte character
	a.push(vec![0xC3]);                        // lone lead byte
	a.push(vec![0xA9]);                        // lone continuation byte
	a.push("€".as_bytes().to_vec());          // 3-byte character
	a.push("😀".as_bytes().to_vec());         // 4-byte character
	a.push(vec![0xFF]);
	a.push(vec![0xED, 0xA0, 0x80]);            // UTF-8-encoded surrogate (invalid)
	a.push(vec![0xEF, 0xBB, 0xBF]);            // byte order mark (a valid character that starts no token)
	a
}

/// every string of <= `maxlen` symbols over the comment alphabet: the block / line comment scanners (nesting, the
/// `/*/` and `*/*` overlaps, a comment reaching the end of the input) decide on exactly these bytes
fn comment_exhaustive(maxlen: usize, emit: &mut dyn FnMut(String))
{
	let a: [&[u8]; 6] = [b"/", b"*", b"x", b" ", b"\n", b";"];
	for len in 0..=maxlen
	{
		let mut idx = vec![0usize; len];
		loop
		{
			let mut bytes = Vec::new();
			for &i in &idx { bytes.extend_from_slice(a[i]); }
			emit(format!("T {}", hex_bytes(&bytes)));
			let mut k = len;
			loop { if k == 0 { break; } k -= 1; idx[k] += 1; if idx[k] < a.len() { k = usize::MAX; break; } idx[k] = 0; }
			if k != usize::MAX { break; }
		}
	}
}

fn exhaustive(maxlen: usize, emit: &mut dyn FnMut(String))
{
	let a = alphabet();
	let n = a.len();
	for len in 0..=maxlen
	{
		let mut idx = vec![0usize; len];
		loop
		{
			let mut bytes = Vec::new();
			for &i in &idx { bytes.extend_from_slice(&a[i]); }
			emit(format!("T {}", hex_bytes(&bytes)));
			let mut k = len;
			loop
			{
				if k == 0 { break; }
				k -= 1;
				idx[k] += 1;
				if idx[k] < n { k = usize::MAX; break; }
				idx[k] = 0;
			}
			if k != usize::MAX { break; }
		}
	}
}

/// every 2-, 3-, 4-byte lead/continuation class combination (validates Utf8.v against core::str::from_utf8)
fn utf8_grid(emit: &mut dyn FnMut(String))
{
	let leads: [u8; 22] = [0x7F, 0x80, 0xBF, 0xC0, 0xC1, 0xC2, 0xDF, 0xE0, 0xE1, 0xEC, 0xED, 0xEE, 0xEF, 0xF0, 0xF1, 0xF3, 0xF4, 0xF5, 0xF7, 0xF8, 0xFE, 0xFF];
	let conts: [u8; 12] = [0x00, 0x41, 0x7F, 0x80, 0x8F, 0x90, 0x9F, 0xA0, 0xBF, 0xC0, 0xE0, 0xFF];
	for &l in &leads
	{
		emit(format!("T {}", hex_bytes(&[b'a', l])));
		for &c1 in &conts
		{
			emit(format!("T {}", hex_bytes(&[b'a', l, c1])));
			emit(format!("T {}", hex_bytes(&[b'"', l, c1, b'"'])));
			for &c2 in &conts
			{
				emit(format!("T {}", hex_bytes(&[b'a', b' ', l, c1, c2])));
				emit(format!("T {}", hex_bytes(&[b'\'', l, c1, c2, b'\''])));
				for &c3 in &[0x41u8, 0x7F, 0x80, 0xBF, 0xC0]
				{
					emit(format!("T {}", hex_bytes(&[b'/', b'/', l, c1, c2, c3])));
					emit(format!("T {}", hex_bytes(&[b'\'', l, c1, c2, c3, b'\''])));
				}
			}
		}
	}
}

// ------------------------------------------------------------------ (ii) literal stream
fn render_int(v: u128, radix: u32, case: u8, zeros: usize) -> Vec<u8>
{
	let mut digits: Vec<u8> = Vec::new();
	let mut x = v;
	loop { digits.push((x % radix as u128) as u8); x /= radix as u128; if x == 0 { break; } }
	digits.reverse();
	let mut s: Vec<u8> = match radix { 2 => b"0b".to_vec(), 8 => b"0o".to_vec(), 16 => b"0x".to_vec(), _ => Vec::new() };
	for _ in 0..zeros { s.push(b'0'); }
	for (i, d) in digits.iter().enumerate()
	{
		let upper = match case { 0 => false, 1 => true, _ => i % 2 == 0 };
		s.push(if *d < 10 { b'0' + d } else if upper { b'A' + d - 10 } else { b'a' + d - 10 });
	}
	s
}

const SUFFIXES: [&[u8]; 3] = [b"", b";", b" "];

fn literal_ints(emit: &mut dyn FnMut(String))
{
	for &radix in &[2u32, 8, 10, 16]
	{
		let mut vals: Vec<u128> = vec![0, 1, (1u128 << 63) - 1, 1u128 << 63, (1u128 << 63) + 1, 1u128 << 64, 10u128.pow(30)];
		let mut p: u128 = radix as u128;
		while p < (1u128 << 70) { vals.push(p - 1); vals.push(p); vals.push(p + 1); p *= radix as u128; }
		vals.sort(); vals.dedup();
		for &v in &vals
		{
			let cases: &[u8] = if radix == 16 { &[0, 1, 2] } else { &[0] };
			for &case in cases
			{
				for &zeros in &[0usize, 1, 3, 70]
				{
					for suf in SUFFIXES
					{
						let mut s = render_int(v, radix, case, zeros);
						s.extend_from_slice(suf);
						let exp = if v < (1u128 << 63) { format!("{:x}", v) } else { "reject".into() };
						// uniform digit case: also hand the driver the parameters of LitSpec.show_int, which must render the same text
						let spec = if case < 2 { format!(" I {:x} {} {} {:x} {}", radix, case, zeros, v, hex_bytes(suf)) } else { String::new() };
						emit(format!("LIT int {} {}{}", exp, hex_bytes(&s), spec));
					}
				}
			}
		}
		// prefix without digits
		if radix != 10
		{
			let pre: &[u8] = match radix { 2 => b"0b", 8 => b"0o", _ => b"0x" };
			for tail in [&b""[..], b";", b" ", b"z", b"_", b"+1", b"\xc3\xa9"]
			{
				let mut s = pre.to_vec(); s.extend_from_slice(tail);
				emit(format!("LIT int reject {}", hex_bytes(&s)));
			}
		}
	}
	// a digit that is not one of the radix ends the literal: 0b2 and 0o8 are prefixes without digits
	emit(format!("LIT int reject {}", hex_bytes(b"0b2")));
	emit(format!("LIT int reject {}", hex_bytes(b"0o8")));
}

fn scalar_points() -> Vec<u32>
{
	let mut v: Vec<u32> = (0..128).collect();
	for b in [0x7Fu32, 0x80, 0x7FF, 0x800, 0xD7FF, 0xE000, 0xFFFF, 0x10000, 0x10FFFF]
	{
		for d in [-1i64, 0, 1] { let x = b as i64 + d; if x >= 0 && char::from_u32(x as u32).is_some() { v.push(x as u32); } }
	}
	v.extend_from_slice(&[0xA9, 0xE9, 0x3B1, 0x20AC, 0xFFFD, 0x1F600, 0xFFFFF, 0x100000]);
	v.sort(); v.dedup(); v
}

fn utf8(c: u32) -> Vec<u8> { char::from_u32(c).unwrap().to_string().into_bytes() }

fn literal_chars(emit: &mut dyn FnMut(String))
{
	for c in scalar_points()
	{
		// raw character: tab, printable ASCII other than backslash, and everything from U+0080 denote themselves
		let ok = c == 9 || (0x20..=0x7E).contains(&c) && c != 0x5C || c >= 0x80;
		for suf in SUFFIXES
		{
			let mut s = vec![b'\'']; s.extend(utf8(c)); s.push(b'\''); s.extend_from_slice(suf);
			emit(format!("LIT chr {} {} C P {:x} {}", if ok { format!("{:x}", c) } else { "reject".into() }, hex_bytes(&s), c, hex_bytes(suf)));
		}
	}
	// escapes: every ASCII byte after a backslash
	for e in 0u8..128
	{
		let exp = match e { b't' => Some(9), b'n' => Some(10), b'r' => Some(13), b'"' => Some(34), b'\'' => Some(39), b'\\' => Some(92), _ => None };
		for suf in SUFFIXES
		{
			let mut s = vec![b'\'', b'\\', e, b'\'']; s.extend_from_slice(suf);
			emit(format!("LIT chr {} {}", exp.map(|v: u32| format!("{:x}", v)).unwrap_or("reject".into()), hex_bytes(&s)));
		}
	}
	for bad in [&b"'"[..], b"'a", b"'ab'", b"''", b"'\\", b"'\\n", b"'\\'", b"'a;", b"' ", b"'\xc3\xa9", b"'\xc3\xa9x'", b"'\\u{41}'", b"'\\0'", b"'\\x41'", b"'ab", b"'a\n'"]
	{
		emit(format!("LIT chr reject {}", hex_bytes(bad)));
	}
}

fn literal_strings(thorough: bool, rng: &mut Rng, emit: &mut dyn FnMut(String))
{
	let pts = scalar_points();
	let one = |body: &[u8], exp: Option<&[u8]>, emit: &mut dyn FnMut(String)|
	{
		for suf in SUFFIXES
		{
			let mut s = vec![b'"']; s.extend_from_slice(body); s.push(b'"'); s.extend_from_slice(suf);
			emit(format!("LIT str {} {}", match exp { Some(e) => hex_bytes(e), None => "reject".into() }, hex_bytes(&s)));
		}
	};
	// every scalar point raw inside a string (alone, and between plain text, and after an escape = owned path)
	for &c in &pts
	{
		let ok = c == 9 || (0x20..=0x7E).contains(&c) && c != 0x5C && c != 0x22 || c >= 0x80;
		let u = utf8(c);
		if c == 0x22 || c == 0x5C { continue; }
		let exp1 = u.clone();
		one(&u, if ok { Some(&exp1) } else { None }, emit);
		let mut b2 = b"ab".to_vec(); b2.extend(&u); b2.extend(b"cd");
		one(&b2, if ok { Some(&b2) } else { None }, emit);
		let mut b3 = b"\\n".to_vec(); b3.extend(&u); b3.extend(b"z");
		let mut e3 = b"\n".to_vec(); e3.extend(&u); e3.extend(b"z");
		one(&b3, if ok { Some(&e3) } else { None }, emit);
		// the same scalar through \u{...}: 1..8 digits by zero padding, both cases
		for width in 0..=8usize
		{
			for upper in [false, true]
			{
				let h = if upper { format!("{:0w$X}", c, w = width) } else { format!("{:0w$x}", c, w = width) };
				let mut b = b"x\\u{".to_vec(); b.extend(h.as_bytes()); b.extend(b"}y");
				let mut e = b"x".to_vec(); e.extend(&u); e.extend(b"y");
				one(&b, if h.len() <= 6 { Some(&e) } else { None }, emit);
				let mut b = b"\\u{".to_vec(); b.extend(h.as_bytes()); b.extend(b"}");
				one(&b, if h.len() <= 6 { Some(&u) } else { None }, emit);
			}
		}
	}
	// \u{} with 0..8 arbitrary hex digits
	for n in 0..=8usize
	{
		for pat in ["0", "1", "f", "F", "d8", "10ffff", "110000", "a9"]
		{
			let digits: String = pat.chars().cycle().take(n).collect();
			let v = u32::from_str_radix(&digits, 16).ok().and_then(char::from_u32);
			let mut b = b"\\u{".to_vec(); b.extend(digits.as_bytes()); b.extend(b"}");
			let e = match (n <= 6, v) { (true, Some(ch)) => Some(ch.to_string().into_bytes()), _ => None };
			one(&b, e.as_deref(), emit);
		}
	}
	// escapes: every ASCII byte after a backslash
	for e in 0u8..128
	{
		let exp: Option<u8> = match e { b'0' => Some(0), b't' => Some(9), b'n' => Some(10), b'r' => Some(13), b'"' => Some(34), b'\'' => Some(39), b'\\' => Some(92), _ => None };
		one(&[b'\\', e], exp.as_ref().map(std::slice::from_ref), emit);
		let body = [b'p', b'\\', e, b'q'];
		let ex = exp.map(|x| vec![b'p', x, b'q']);
		one(&body, ex.as_deref(), emit);
	}
	// malformed forms named by the property
	for bad in ["\\u{D800}", "\\u{DFFF}", "\\u{dabc}", "\\u{110000}", "\\u{FFFFFF}", "\\u{}", "\\u{1234567}", "\\u{00000041}", "\\u41", "\\u", "\\u{41", "\\u{G}", "\\u{-41}", "\\u{ 41}", "\\u{4 1}", "\\u{+}", "\\u{é}", "\\x41", "\\a", "\\é"]
	{
		one(bad.as_bytes(), None, emit);
	}
	for bad in [&b"\""[..], b"\"abc", b"\"abc\\", b"\"\\\"", b"\"abc\\\"", b"\"a\nb\"", b"\"a\rb\"", b"\"a\x7f\"", b"\"a\x00\"", b"\"a\x1f\"", b"\"\\u{41}", b"\"\\u{41", b"\"\\u{", b"\"\\u", b"\"\xc3\xa9", b"\"\\n\xc3\xa9"]
	{
		emit(format!("LIT str reject {}", hex_bytes(bad)));
	}
	// std quirk: u32::from_str_radix accepts a leading '+'; outside the property's enumerated forms
	for q in ["\"\\u{+41}\"", "\"a\\u{+0041}b\"", "\"\\u{+10FFF}\""] { emit(format!("LIT str quirk {}", hex_bytes(q.as_bytes()))); }
	// random item strings
	let n = if thorough { 60000 } else { 1500 };
	for _ in 0..n
	{
		let len = rng.below(9) as usize;
		let mut body = Vec::new(); let mut exp = Vec::new();
		for _ in 0..len
		{
			match rng.below(10)
			{
				0..=3 => { let c = b" !#$%&'()*+,-./0189:;<=>?@AZ[]^_`az{|}~\t"; let x = *rng.pick(c); body.push(x); exp.push(x); },
				4..=5 => { let mut c; loop { c = *rng.pick(&pts); if c >= 0x80 { break; } } let u = utf8(c); body.extend(&u); exp.extend(&u); },
				6..=7 => { let (t, v): (&[u8], u8) = *rng.pick(&[(&b"\\0"[..], 0u8), (b"\\t", 9), (b"\\n", 10), (b"\\r", 13), (b"\\\"", 34), (b"\\'", 39), (b"\\\\", 92)]); body.extend_from_slice(t); exp.push(v); },
				_ =>
				{
					let c = *rng.pick(&pts);
					let nd = format!("{:x}", c).len();
					let w = nd + rng.below((7 - nd) as u64) as usize;
					let h = if rng.chance(1, 2) { format!("{:0w$X}", c, w = w) } else { format!("{:0w$x}", c, w = w) };
					body.extend(b"\\u{"); body.extend(h.as_bytes()); body.push(b'}'); exp.extend(utf8(c));
				},
			}
		}
		one(&body, Some(&exp), emit);
	}
}

// ------------------------------------------------------------------ (iii) position stream
const MB: [&str; 6] = ["é", "ß", "€", "語", "😀", "𝄞"];

/// a multi-byte character: the fixed ones, the characters at the boundaries of every UTF-8 length class (continuation
/// bytes 0x80 and 0xBF in every place), or any scalar value of a random length class
fn mb(rng: &mut Rng) -> Vec<u8>
{
	const EDGE: [u32; 16] = [0x80, 0xBF, 0xFF, 0x7FF, 0x800, 0xFBF, 0xD7FF, 0xE000, 0xFFFD, 0xFFFF, 0x10000, 0x1003F, 0x3FFFF, 0x40000, 0xBFFFF, 0x10FFFF];
	match rng.below(4)
	{
		0 => rng.pick(&MB).as_bytes().to_vec(),
		1 => utf8(*rng.pick(&EDGE)),
		_ =>
		{
			let c = match rng.below(3)
			{
				0 => 0x80 + rng.below(0x800 - 0x80),
				1 => { let x = 0x800 + rng.below(0x10000 - 0x800 - 0x800); if x >= 0xD800 { x + 0x800 } else { x } },
				_ => 0x10000 + rng.below(0x110000 - 0x10000),
			} as u32;
			utf8(c)
		},
	}
}

fn gen_token(rng: &mut Rng) -> (Vec<u8>, u8)
{
	// class: 0 = closed punctuation (may touch its neighbours), 1 = other
	match rng.below(12)
	{
		0..=2 =>
		{
			let first = b"abcxyzABCXYZ_"; let rest = b"abcxyzABCXYZ_0123456789$.@";
			let mut s = vec![*rng.pick(first)];
			for _ in 0..rng.below(7) { s.push(*rng.pick(rest)); }
			(s, 1)
		},
		3..=4 =>
		{
			let v = match rng.below(4) { 0 => rng.below(10), 1 => rng.below(70000), 2 => rng.next() >> 1, _ => rng.below(300) } as u128;
			let radix = *rng.pick(&[2u32, 8, 10, 10, 16, 16]);
			(render_int(v, radix, rng.below(3) as u8, *rng.pick(&[0usize, 0, 0, 2])), 1)
		},
		5..=6 => { let p: &[&[u8]] = &[b",", b";", b":", b"(", b")", b"[", b"]", b"{", b"}"]; (rng.pick(p).to_vec(), 0) },
		7 => { let p: &[&[u8]] = &[b".", b"+", b"-", b"*", b"/", b"%", b"!", b"&", b"|", b"^", b"<<", b">>"]; (rng.pick(p).to_vec(), 1) },
		8..=9 =>
		{
			let mut s = vec![b'"'];
			for _ in 0..rng.below(8)
			{
				match rng.below(6)
				{
					0..=2 => s.push(*rng.pick(b"abc XYZ019;,/*'\t")),
					3 => { let m = mb(rng); s.extend_from_slice(&m) },
					4 => s.extend_from_slice(*rng.pick(&[&b"\\n"[..], b"\\t", b"\\\"", b"\\\\", b"\\0", b"\\'", b"\\r"])),
					_ => s.extend_from_slice(*rng.pick(&[&b"\\u{41}"[..], b"\\u{e9}", b"\\u{20AC}", b"\\u{1F600}", b"\\u{0}"])),
				}
			}
			s.push(b'"');
			(s, 1)
		},
		_ =>
		{
			let mut s = vec![b'\''];
			match rng.below(4)
			{
				0 => s.push(*rng.pick(b"aZ0 ;\"/*\t~")),
				1 => { let m = mb(rng); s.extend_from_slice(&m) },
				2 => s.extend_from_slice(*rng.pick(&[&b"\\n"[..], b"\\t", b"\\r", b"\\'", b"\\\"", b"\\\\"])),
				_ => s.push(b'\''),
			}
			s.push(b'\'');
			(s, 1)
		},
	}
}

fn gen_comment_text(rng: &mut Rng, depth: u32, out: &mut Vec<u8>, line: bool)
{
	for _ in 0..rng.below(6)
	{
		match rng.below(8)
		{
			0..=2 => out.extend_from_slice(*rng.pick(&[&b"word"[..], b"x", b" ", b"  ", b"\t", b"0x10", b"\"", b"'", b";"])),
			3 => { let m = mb(rng); out.extend_from_slice(&m) },
			4 => if line { out.extend_from_slice(*rng.pick(&[&b"/*"[..], b"*/", b"//", b"/", b"*"])) } else { out.extend_from_slice(*rng.pick(&[&b"\n"[..], b"\r\n", b"\n\n"])) },
			5 => if !line && depth < 4 { out.extend_from_slice(b"/*"); gen_comment_text(rng, depth + 1, out, false); out.extend_from_slice(b"*/"); },
			6 => if !line { out.extend_from_slice(*rng.pick(&[&b" - "[..], b"\n"])) },
			_ => out.push(b' '),
		}
	}
}

fn gen_separator(rng: &mut Rng, may_be_empty: bool) -> Vec<u8>
{
	let mut s = Vec::new();
	if may_be_empty && rng.chance(1, 2) { return s; }
	s.extend_from_slice(*rng.pick(&[&b" "[..], b" ", b"  ", b"\t", b"\n", b"\r\n", b"\n\n", b" \t "]));
	for _ in 0..rng.below(4)
	{
		match rng.below(6)
		{
			0..=1 => s.extend_from_slice(*rng.pick(&[&b" "[..], b"\t", b"\n", b"\r\n", b"\r", b"   "])),
			2..=3 => { s.extend_from_slice(b"//"); gen_comment_text(rng, 0, &mut s, true); s.push(b'\n'); },
			4 => { s.extend_from_slice(b"/*"); gen_comment_text(rng, 1, &mut s, false); s.extend_from_slice(b"*/"); },
			_ => s.extend_from_slice(*rng.pick(&[&b"/**/"[..], b"/***/", b"/*/ */", b"/*/**/*/", b"/* \xc3\xa9\n\xe2\x82\xac */", b"/*\n\n*/"])),
		}
	}
	s
}

/// a well-formed token sequence with separators; returns (text, byte offsets of the tokens)
fn gen_program(rng: &mut Rng, ntok: usize) -> (Vec<u8>, Vec<usize>)
{
	let mut text = Vec::new(); let mut offs = Vec::new();
	let mut prev_class = 0u8;
	if rng.chance(1, 2) { text = gen_separator(rng, true); }
	for i in 0..ntok
	{
		let (tok, class) = gen_token(rng);
		if i > 0 { let sep = gen_separator(rng, prev_class == 0 || class == 0); text.extend(sep); }
		offs.push(text.len());
		text.extend(tok);
		prev_class = class;
	}
	if rng.chance(1, 2) { let sep = gen_separator(rng, true); text.extend(sep); }
	if rng.chance(1, 8) { text.extend_from_slice(b" // trailing \xc3\xa9"); }
	(text, offs)
}

fn position_stream(thorough: bool, rng: &mut Rng, emit: &mut dyn FnMut(String))
{
	let n = if thorough { 400000 } else { 20000 };
	for k in 0..n
	{
		let ntok = if k < 50 { k % 5 } else { 1 + rng.below(12) as usize };
		let (text, offs) = gen_program(rng, ntok);
		let o = if offs.is_empty() { "-".to_string() } else { offs.iter().map(|x| format!("{:x}", x)).collect::<Vec<_>>().join(",") };
		emit(format!("P {} {}", hex_bytes(&text), o));
	}
}

// ------------------------------------------------------------------ (iv) random / mutated
const PROGRAMS: [&str; 6] = [
	".addr 0x20000000;\nstart: // entry\n\tLDR R7, [R0 + 0x24];\n\tSUBS R0, 'A'; /* free /* nested */ comparison */\n\tB start;\n.dstr \"hi\\n\\u{1F600} é\";\n",
	".const X, (1 << 4) | 0b1010 & ~3;\n.du32 X % 7, -X, 'x', '\\n';\n",
	"loop:\tADDS R1, R1, 1;\r\n\tCMP R1, 0o17;\r\n\tBNE loop;\r\n",
	"/* header\n * é € 😀\n */\n.global main; main: PUSH {R4, LR}; POP {R4, PC};",
	".dstr \"a\\tb\\\"c\\\\\", \"\\0\\r\\n\"; .du8 0xFF, 255, 0b11111111;",
	"x: .du64 9223372036854775807, 0x7FFFFFFFFFFFFFFF; // max\n",
];

fn mutate(rng: &mut Rng, src: &[u8]) -> Vec<u8>
{
	let mut v = src.to_vec();
	let frags: [&[u8]; 24] = [b"/*", b"*/", b"//", b"\"", b"'", b"\\", b"\\u{", b"}", b"0x", b"0b", b"\n", b"\r\n", b"\xc3", b"\xa9", b"\xc3\xa9", b"\xe2\x82\xac", b"\xf0\x9f\x98\x80", b"\xff", b"\x7f", b"\x00", b"\xed\xa0\x80", b"\xf4\x90\x80\x80", b"\xe0\x80\x80", b"99999999999999999999"];
	for _ in 0..1 + rng.below(4)
	{
		if v.is_empty() { v.extend_from_slice(*rng.pick(&frags)); continue; }
		let i = rng.below(v.len() as u64) as usize;
		match rng.below(7)
		{
			0 => v[i] ^= 1 << rng.below(8),
			1 => { v.remove(i); },
			2 => { let b = v[i]; v.insert(i, b); },
			3 => { let f = *rng.pick(&frags); for (k, b) in f.iter().enumerate() { v.insert(i + k, *b); } },
			4 => { v.truncate(i); },
			5 => { let j = rng.below(v.len() as u64) as usize; let (a, b) = (i.min(j), i.max(j)); let piece: Vec<u8> = v[a..b].to_vec(); let at = rng.below(v.len() as u64 + 1) as usize; for (k, x) in piece.iter().enumerate() { v.insert(at + k, *x); } },
			_ => v[i] = rng.next() as u8,
		}
	}
	v
}

fn random_stream(thorough: bool, rng: &mut Rng, emit: &mut dyn FnMut(String))
{
	let n = if thorough { 600000 } else { 30000 };
	for p in PROGRAMS { emit(format!("T {}", hex_bytes(p.as_bytes()))); }
	for k in 0..n
	{
		let base: Vec<u8> = match k % 3
		{
			0 => rng.pick(&PROGRAMS).as_bytes().to_vec(),
			1 => { let nt = 1 + rng.below(14) as usize; gen_program(rng, nt).0 },
			_ => { let len = rng.below(24) as usize; let a = alphabet(); let mut v = Vec::new(); for _ in 0..len { let f: &Vec<u8> = rng.pick(&a[..]); v.extend_from_slice(f); } v },
		};
		let m = if k % 3 == 2 && rng.chance(1, 2) { base } else { mutate(rng, &base) };
		emit(format!("T {}", hex_bytes(&m)));
	}
	// deep nesting of block comments (capped) and long runs
	for d in [1usize, 2, 50, 200]
	{
		let mut s = Vec::new();
		for _ in 0..d { s.extend_from_slice(b"/*"); }
		s.extend_from_slice("é".as_bytes());
		for _ in 0..d { s.extend_from_slice(b"*/"); }
		s.extend_from_slice(b"x");
		emit(format!("T {}", hex_bytes(&s)));
		s.pop(); s.pop(); s.pop();
		emit(format!("T {}", hex_bytes(&s)));
	}
}

fn corpus(emit: &mut dyn FnMut(String))
{
	// block comments nested deeper than a small counter could count (255, 256, 257, 1025 levels; the model's cost grows quadratically with the text, which rules out 65536), closed and
	// one closer short, between two tokens
	for d in [255usize, 256, 257, 1025]
	{
		for missing in [0usize, 1]
		{
			let mut v: Vec<u8> = b"a ".to_vec();
			for _ in 0..d { v.extend_from_slice(b"/*"); }
			v.extend_from_slice(b" x ");
			for _ in 0..d - missing { v.extend_from_slice(b"*/"); }
			v.extend_from_slice(b" b");
			emit(format!("T {}", hex_bytes(&v)));
		}
	}
	// every byte value behind / in front of a valid text ending in LF, CRLF, nothing
	for b in 0..=255u8 { for pre in [&b"a 1;\n"[..], b"a 1;\r\n", b"a 1;", b"a 1; //c\r\n"] { let mut v = pre.to_vec(); v.push(b); emit(format!("T {}", hex_bytes(&v))); let mut w = vec![b]; w.extend_from_slice(pre); emit(format!("T {}", hex_bytes(&w))); } }
	// witnesses of the repaired defects F15 (block comment before a multi-byte last character) and F16 (raw control / DEL in a string)
	for c in [&b"/* */\xc3\xa9"[..], b"/**/\xe2\x82\xac", b"/* \xf0\x9f\x98\x80", b"/*\xc3\xa9", b"x /* c */ \"\xc3\xa9\"\xc3\xa9",
		b"\"a\x7f\"", b"\"a\nb\"", b"\"\x01\"", b"\"a\x7f", b".dstr \"a\nb\";", b"\"\\n\x7f\"", b"\"\r\"", b"\"\x00\"",
		b"", b" ", b"\n", b"a", b"\xff", b"a\xff", b"// \xff", b"/* \xff", b"\"\xff", b"'\xff", b"'a\xff", b"0x\xff", b"0x1\xff", b"abc\xff", b"12\xff", b"\"\\u{41\xff", b"\"\\u{41}\xff"]
	{
		emit(format!("T {}", hex_bytes(c)));
	}
	// audit corpus: error-kind precedence when the text is cut by invalid UTF-8 (a dangling escape is BadString, an
	// unclosed \u{ is BadUnicode), quote as character, lone angle brackets, comment openers/closers that share a byte
	for c in [&b"\"\\\xff"[..], b"\"\\n\xff", b"\"\\u{1234567\xff", b"\"\\u{12345678abc\xff", b"\"\\u{\xff", b"'\\\xff", b"'\xf0\x9f\x98\x80\xff",
		b"'''", b"'\\''", b"'\t'", b"<", b">", b"<>", b"a<", b"a>>>", b"<<<", b"/*/", b"/*/*/", b"/*/**/*/", b"/**/*/", b"/*//*/", b"*/",
		b"0X1F", b"0B1", b"1_000", b"09", b"0b102", b"0o78", b"abc \xff", b"// x\n\xff", b"a\r\rb", b"\x0c", b"\"\\u{000041}\"", b"\"\\u{0000041}\""]
	{
		emit(format!("T {}", hex_bytes(c)));
	}
}

fn main()
{
	quiet_panics();
	let mut out = Out::new();
	let (thorough, seed, shard, nshards) = match mode()
	{
		Mode::Replay => { for c in replay_cases() { let r = run_case(&c); out.line(&c, &r); } return; },
		Mode::Gen{thorough, seed, shard, nshards} => (thorough, seed, shard, nshards),
	};
	let streams = std::env::args().nth(6).unwrap_or("exh+lit+pos+rand".into());
	let mut sh = Shard{k: 0, shard, n: nshards};
	let mut emit = |c: String| { if sh.mine() { let r = run_case(&c); out.line(&c, &r); } };
	corpus(&mut emit);
	for s in streams.split('+')
	{
		let mut rng = Rng::new(seed.wrapping_mul(0x100).wrapping_add(s.len() as u64 + s.as_bytes()[0] as u64));
		match s
		{
			"exh" => { exhaustive(if thorough { 5 } else { 4 }, &mut emit); comment_exhaustive(if thorough { 9 } else { 8 }, &mut emit); utf8_grid(&mut emit); },
			"lit" => { literal_ints(&mut emit); literal_chars(&mut emit); literal_strings(thorough, &mut rng, &mut emit); },
			"pos" => position_stream(thorough, &mut rng, &mut emit),
			"rand" => random_stream(thorough, &mut rng, &mut emit),
			_ => { eprintln!("unknown stream {s}"); std::process::exit(2); },
		}
	}
}
