//! C17: CRC.  Case forms (see ocaml/drv_C17.ml):  T i | V prefix byte | S bytes | D bytes (fresh state via Default) | P piece piece ...
use trion::uf2::crc::Crc;
use verif_harness::*;

fn run_case(case: &str) -> String
{
	let t: Vec<&str> = case.split_whitespace().collect();
	match t[0]
	{
		"T" => { let i = usize::from_str_radix(t[1], 16).unwrap(); format!("{:x}", Crc::TABLE[i]) },
		"S" => { let mut c = Crc::new(); c.update_slice(&parse_hex_bytes(t[1])); format!("{:x}", c.get_value()) },
		// D: like S, the fresh state obtained through the Default impl
		"D" => { let mut c = Crc::default(); c.update_slice(&parse_hex_bytes(t[1])); format!("{:x}", c.get_value()) },
		"P" =>
		{
			let mut c = Crc::new();
			for p in &t[1..] { c.update_slice(&parse_hex_bytes(p)); }
			format!("{:x}", c.get_value())
		},
		// V prefix byte: state = crc(prefix) then one update(byte) call; prints "<state> <result>"
		"V" =>
		{
			let mut c = Crc::new();
			c.update_slice(&parse_hex_bytes(t[1]));
			let s = c.get_value();
			c.update(u8::from_str_radix(t[2], 16).unwrap());
			format!("{:x} {:x}", s, c.get_value())
		},
		_ => "bad-case".to_string(),
	}
}

fn main()
{
	let mut out = Out::new();
	match mode()
	{
		Mode::Replay => for c in replay_cases() { let r = run_case(&c); out.line(&c, &r); },
		Mode::Gen { thorough, seed, shard, nshards } =>
		{
			let mut sh = Shard { k: 0, shard, n: nshards };
			let mut rng = Rng::new(seed);
			let mut emit = |c: String, out: &mut Out| { if sh.mine() { let r = run_case(&c); out.line(&c, &r); } };
			// deterministic part: the whole table
			for i in 0..256 { emit(format!("T {:x}", i), &mut out); }
			// the standard check string, the empty string, exactly 252 bytes (the boot2 use)
			emit("S 313233343536373839".to_string(), &mut out);
			emit("S -".to_string(), &mut out);
			emit("D 313233343536373839".to_string(), &mut out);
			emit("D -".to_string(), &mut out);
			for n in [1usize, 4, 5, 252] { let d = rng.bytes(n); emit(format!("D {}", hex_bytes(&d)), &mut out); }
			emit(format!("S {}", hex_bytes(&vec![0u8; 252])), &mut out);
			emit(format!("S {}", hex_bytes(&vec![0xFFu8; 252])), &mut out);
			// strings longer than any internal block one might fold by (4 KiB pages, 64 KiB), whole and in pieces
			for len in [4095usize, 4096, 4097, 8192, 9000, 65537, 1 << 20]
			{
				let data = rng.bytes(len);
				emit(format!("S {}", hex_bytes(&data)), &mut out);
				emit(format!("D {}", hex_bytes(&data)), &mut out);
				let mut pieces = Vec::new(); let mut pos = 0;
				while pos < len { let n = (700 + pos % 13).min(len - pos); pieces.push(hex_bytes(&data[pos..pos + n])); pos += n; }
				emit(format!("P {}", pieces.join(" ")), &mut out);
				emit(format!("P {} {}", hex_bytes(&data[..1]), hex_bytes(&data[1..])), &mut out);
			}
			// single update from many reachable states x all 256 bytes
			let nstates = if thorough { 2000 } else { 120 };
			for k in 0..nstates
			{
				let plen = if k < 8 { k } else { rng.below(12) as usize };
				let prefix = rng.bytes(plen);
				for b in 0..256 { emit(format!("V {} {:x}", hex_bytes(&prefix), b), &mut out); }
			}
			// whole strings of length 0..600, every 2-split of short ones, random multi-splits
			let nstr = if thorough { 60000 } else { 3000 };
			for k in 0..nstr
			{
				let len = if k < 601 { k } else { rng.below(601) as usize };
				let data = rng.bytes(len);
				emit(format!("S {}", hex_bytes(&data)), &mut out);
				if len <= 24 || k % 16 == 0
				{
					let cuts: Vec<usize> = if len <= 24 { (0..=len).collect() } else { vec![0, 1, len / 2, len - 1, len] };
					for cut in cuts { emit(format!("P {} {}", hex_bytes(&data[..cut]), hex_bytes(&data[cut..])), &mut out); }
				}
				// random split into up to 6 pieces (possibly empty ones)
				let mut pieces = Vec::new();
				let mut pos = 0;
				while pos < len && pieces.len() < 5 { let n = rng.below((len - pos + 1) as u64) as usize; pieces.push(hex_bytes(&data[pos..pos + n])); pos += n; }
				pieces.push(hex_bytes(&data[pos..]));
				emit(format!("P {}", pieces.join(" ")), &mut out);
			}
		},
	}
}
