//! C07 / C08: the expression simplifier and evaluator.  Case forms (see ocaml/drv_C07.ml):
//!   S <arg>                simplify          => ok <changed> <tree> | err <class> | panic
//!   N <arg>                neutralize        => same
//!   E <env> ; <arg>        evaluate          => ok <tree> <evaluation> | err <class> | panic
//!   T <arg>                literal tree rendered as source text -> Parser -> evaluate on an empty context
//!   G <env> ; <arg>        staged evaluation => <stage 1> ;; <stage 2 on the stage-1 tree> ;; <direct> ;; <simplify, then evaluate>
//! env entries: <hexname>=F<hex> (found), <hexname>=D (deferred), <hexname>=L<hex> (deferred in stage 1, that value afterwards).
//! Generator argument (after the 5 standard ones): c07 | c08.
use std::panic::AssertUnwindSafe;
use trion::arm6m::Arm6M;
use trion::asm::constant::Realm;
use trion::asm::directive::DirectiveList;
use trion::asm::simplify::{evaluate, neutralize, simplify, EvalError, Evaluation, OverflowError, SimplifyError};
use trion::asm::Context;
use trion::text::parse::{Argument, ElementValue, Parser};
use trion::text::token::Number;
use verif_harness::argtext::{fmt_arg, parse_arg};
use verif_harness::*;

type Arg = Argument<'static>;

fn kind(e: &OverflowError) -> &'static str
{
	match e
	{
		OverflowError::Add{..} => "Add", OverflowError::Negate => "Negate", OverflowError::Subtract{..} => "Subtract",
		OverflowError::Multiply{..} => "Multiply", OverflowError::DivideByZero(..) => "DivideByZero", OverflowError::Divide{..} => "Divide",
		OverflowError::ModuloByZero(..) => "ModuloByZero", OverflowError::Modulo{..} => "Modulo",
		OverflowError::LeftShift{..} | OverflowError::RightShift{..} => "Shift",
	}
}

fn fmt_simp(r: Result<(Result<bool, SimplifyError>, Arg), String>) -> String
{
	match r
	{
		Err(_) => "panic".to_string(),
		Ok((Ok(ch), t)) => format!("ok {} {}", ch as u8, fmt_arg(&t)),
		Ok((Err(SimplifyError::BadType{..}), _)) => "err BadType".to_string(),
		Ok((Err(SimplifyError::Overflow(e)), _)) => format!("err Overflow:{}", kind(&e)),
	}
}

fn fmt_evaluation(e: &Evaluation) -> String
{
	match e
	{
		Evaluation::Complete{changed} => format!("C{}", *changed as u8),
		Evaluation::Deferred{changed, cause} => format!("D{}:{}", *changed as u8, hex_bytes(cause.as_ref().as_bytes())),
	}
}

fn fmt_eval(r: &Result<(Result<String, EvalError>, Arg), String>) -> String
{
	match r
	{
		Err(_) => "panic".to_string(),
		Ok((Ok(ev), t)) => format!("ok {} {}", fmt_arg(t), ev),
		Ok((Err(EvalError::NoSuchVariable{..}), _)) => "err NoSuchVariable".to_string(),
		Ok((Err(EvalError::BadType{..}), _)) => "err BadType".to_string(),
		Ok((Err(EvalError::Overflow(e)), _)) => format!("err Overflow:{}", kind(e)),
	}
}

fn run_eval(t: &Arg, ctx: &Context) -> Result<(Result<String, EvalError>, Arg), String>
{
	catch(AssertUnwindSafe(||
	{
		let mut t = t.clone();
		let r = evaluate(&mut t, ctx).map(|e| fmt_evaluation(&e));
		(r, t)
	}))
}

#[derive(Clone)]
enum Bind { Found(i64), Deferred, Later(i64) }

fn parse_env(toks: &[&str]) -> Vec<(String, Bind)>
{
	toks.iter().map(|t|
	{
		let (n, v) = t.split_once('=').expect("env entry");
		let name = String::from_utf8(parse_hex_bytes(n)).unwrap();
		let b = match &v[..1] { "F" => Bind::Found(parse_hex_i64(&v[1..])), "L" => Bind::Later(parse_hex_i64(&v[1..])), _ => Bind::Deferred };
		(name, b)
	}).collect()
}

/// source text of a literal tree with ONLY the parentheses the documented precedence table requires
/// (unary 7 > * / % 6 > + - 5 > << >> 4 > & 3 > ^ 2 > | 1, binary operators left-associative), so that the
/// text path exercises precedence and associativity of the real parser
fn render(a: &Arg) -> String { render_prec(a, 0) }

fn render_prec(a: &Arg, min: u8) -> String
{
	fn bin(op: &str, p: u8, l: &Arg, r: &Arg, min: u8) -> String
	{
		let s = format!("{} {} {}", render_prec(l, p), op, render_prec(r, p + 1));
		if p < min { format!("({})", s) } else { s }
	}
	match a
	{
		Argument::Constant(Number::Integer(v)) =>
		{
			if *v >= 0 { format!("{}", v) }
			else if *v == i64::MIN { "(-9223372036854775807 - 1)".to_string() }
			else if min > 7 { format!("(-{})", -*v) } else { format!("-{}", -*v) }
		},
		Argument::Add{lhs, rhs} => bin("+", 5, lhs, rhs, min), Argument::Subtract{lhs, rhs} => bin("-", 5, lhs, rhs, min),
		Argument::Multiply{lhs, rhs} => bin("*", 6, lhs, rhs, min), Argument::Divide{lhs, rhs} => bin("/", 6, lhs, rhs, min),
		Argument::Modulo{lhs, rhs} => bin("%", 6, lhs, rhs, min), Argument::BitAnd{lhs, rhs} => bin("&", 3, lhs, rhs, min),
		Argument::BitOr{lhs, rhs} => bin("|", 1, lhs, rhs, min), Argument::BitXor{lhs, rhs} => bin("^", 2, lhs, rhs, min),
		Argument::LeftShift{lhs, rhs} => bin("<<", 4, lhs, rhs, min), Argument::RightShift{lhs, rhs} => bin(">>", 4, lhs, rhs, min),
		Argument::Negate(v) => format!("-{}", render_prec(v, 7)),
		Argument::Not(v) => format!("!{}", render_prec(v, 7)),
		_ => panic!("render: not a literal tree"),
	}
}

fn run_case(case: &str, dirs: &DirectiveList) -> String
{
	let t: Vec<&str> = case.split_whitespace().collect();
	match t[0]
	{
		"S" | "N" =>
		{
			let mut p = 1;
			let a = parse_arg(&t, &mut p);
			let simp = t[0] == "S";
			fmt_simp(catch(AssertUnwindSafe(|| { let mut a = a; let r = if simp { simplify(&mut a) } else { neutralize(&mut a) }; (r, a) })))
		},
		"T" =>
		{
			let mut p = 1;
			let a = parse_arg(&t, &mut p);
			let text = format!("TEST {};", render(&a));
			let ctx = Context::new(&Arm6M, dirs);
			let parsed = catch(AssertUnwindSafe(||
			{
				let mut parser = Parser::new(text.as_bytes());
				match parser.next()
				{
					Some(Ok(el)) => match el.value
					{
						ElementValue::Instruction{mut args, ..} if args.len() == 1 => Some(args.pop().unwrap().into_owned()),
						_ => None,
					},
					_ => None,
				}
			}));
			match parsed
			{
				Ok(Some(arg)) => fmt_eval(&run_eval(&arg, &ctx)),
				Ok(None) => "parse-fail".to_string(),
				Err(_) => "panic".to_string(),
			}
		},
		"E" | "G" =>
		{
			let semi = t.iter().position(|x| *x == ";").expect("case: ;");
			let env = parse_env(&t[1..semi]);
			let mut p = semi + 1;
			let a = parse_arg(&t, &mut p);
			let mut ctx = Context::new(&Arm6M, dirs);
			for (n, b) in &env
			{
				match b
				{
					Bind::Found(v) => { ctx.insert_constant(n, *v, Realm::Global).expect("insert_constant"); },
					_ => { ctx.defer_constant(n, Realm::Global).expect("defer_constant"); },
				}
			}
			let r1 = run_eval(&a, &ctx);
			if t[0] == "E" { return fmt_eval(&r1); }
			for (n, b) in &env
			{
				if let Bind::Later(v) = b { ctx.insert_constant(n, *v, Realm::Global).expect("insert_constant (deferred)"); }
			}
			// between the stages the real assembler keeps a copy of the statement made with into_owned()
			let r2 = match &r1 { Ok((Ok(_), t1)) => { let kept = catch(AssertUnwindSafe(|| t1.clone().into_owned())); match kept { Ok(k) => fmt_eval(&run_eval(&k, &ctx)), Err(_) => "panic".to_string() } }, _ => "-".to_string() };
			let r3 = run_eval(&a, &ctx);
			let s = catch(AssertUnwindSafe(|| { let mut a2 = a.clone(); let r = simplify(&mut a2); (r, a2) }));
			let r4 = match s
			{
				Err(_) => "panic".to_string(),
				Ok((Ok(_), t4)) => fmt_eval(&run_eval(&t4, &ctx)),
				Ok((Err(SimplifyError::BadType{..}), _)) => "serr BadType".to_string(),
				Ok((Err(SimplifyError::Overflow(e)), _)) => format!("serr Overflow:{}", kind(&e)),
			};
			format!("{} ;; {} ;; {} ;; {}", fmt_eval(&r1), r2, fmt_eval(&r3), r4)
		},
		_ => "bad-case".to_string(),
	}
}

// ------------------------------------------------------------------ generators

fn c(v: i64) -> Arg { Argument::Constant(Number::Integer(v)) }
fn id(s: &str) -> Arg { Argument::Identifier(trion::asm::arcob::Arcob::Arced(s.to_string().into())) }
fn st(s: &str) -> Arg { Argument::String(trion::asm::arcob::Arcob::Arced(s.to_string().into())) }
fn bin(op: usize, l: Arg, r: Arg) -> Arg
{
	let (lhs, rhs) = (Box::new(l), Box::new(r));
	match op
	{
		0 => Argument::Add{lhs, rhs}, 1 => Argument::Subtract{lhs, rhs}, 2 => Argument::Multiply{lhs, rhs}, 3 => Argument::Divide{lhs, rhs},
		4 => Argument::Modulo{lhs, rhs}, 5 => Argument::BitAnd{lhs, rhs}, 6 => Argument::BitOr{lhs, rhs}, 7 => Argument::BitXor{lhs, rhs},
		8 => Argument::LeftShift{lhs, rhs}, _ => Argument::RightShift{lhs, rhs},
	}
}
fn neg(a: Arg) -> Arg { Argument::Negate(Box::new(a)) }
fn not(a: Arg) -> Arg { Argument::Not(Box::new(a)) }

fn leaves() -> Vec<i64>
{
	let pos: [i64; 15] = [0, 1, 2, 3, 62, 63, 64, 65, (1 << 31) - 1, (1 << 31) + 1, (1 << 32) - 1, (1 << 32) + 1, 1 << 62, i64::MAX - 1, i64::MAX];
	let mut v: Vec<i64> = pos.to_vec();
	for p in pos { if p != 0 { v.push(-p); } }
	v.push(i64::MIN);
	v
}

fn rand_lit(rng: &mut Rng, lv: &[i64]) -> i64
{
	match rng.below(10)
	{
		0..=3 => rng.range(-9, 9),
		4..=7 => *rng.pick(lv),
		8 => rng.next() as i64,
		_ => (rng.next() as i64) >> rng.below(64),
	}
}

fn lit_tree(rng: &mut Rng, depth: u32, lv: &[i64]) -> Arg
{
	if depth == 0 || rng.chance(1, 5) { return c(rand_lit(rng, lv)); }
	match rng.below(12)
	{
		10 => neg(lit_tree(rng, depth - 1, lv)),
		11 => not(lit_tree(rng, depth - 1, lv)),
		op => { let l = lit_tree(rng, depth - 1, lv); let r = lit_tree(rng, depth - 1, lv); bin(op as usize, l, r) },
	}
}

const KNOWN: [&str; 3] = ["K0", "K1", "K2"];
const LATER: [&str; 3] = ["X", "Y", "Z"];
const REGS: [&str; 6] = ["R0", "r7", "sp", "PC", "Lr", "r12"];

/// symbolic tree: leaves = literal, known constant, later constant, forever-deferred W, register, string, absent Q
fn sym_tree(rng: &mut Rng, depth: u32, lv: &[i64], exotic: bool) -> Arg
{
	if depth == 0 || rng.chance(1, 4)
	{
		return match rng.below(if exotic { 20 } else { 16 })
		{
			0..=6 => c(if rng.chance(3, 4) { rng.range(-6, 6) } else { rand_lit(rng, lv) }),
			7..=9 => id(*rng.pick(&KNOWN)),
			10..=13 => id(*rng.pick(&LATER)),
			14..=15 => id(*rng.pick(&REGS)),
			16 => id("W"),
			17 => st("s"),
			18 => id("Q"),
			_ => Argument::Address(Box::new(id("R1"))),
		};
	}
	match rng.below(14)
	{
		10 | 12 => neg(sym_tree(rng, depth - 1, lv, exotic)),
		11 => not(sym_tree(rng, depth - 1, lv, exotic)),
		13 =>
		{
			// a chain in one operator family: the shapes search() walks
			let fam: &[usize] = match rng.below(6) { 0 | 1 => &[0, 1], 2 => &[2], 3 => &[3], 4 => &[5], _ => if rng.chance(1, 2) { &[6] } else { &[7] } };
			let mut t = sym_tree(rng, depth - 1, lv, exotic);
			for _ in 0..rng.range(1, 3)
			{
				let o = sym_tree(rng, depth.saturating_sub(2), lv, exotic);
				t = if rng.chance(1, 2) { bin(*rng.pick(fam), t, o) } else { bin(*rng.pick(fam), o, t) };
			}
			t
		},
		op => { let l = sym_tree(rng, depth - 1, lv, exotic); let r = sym_tree(rng, depth - 1, lv, exotic); bin(op as usize, l, r) },
	}
}

fn env_text(rng: &mut Rng, lv: &[i64], small: bool) -> String
{
	let mut s = Vec::new();
	let val = |rng: &mut Rng| if small || rng.chance(2, 3) { rng.range(-8, 8) } else { rand_lit(rng, lv) };
	for k in KNOWN { let v = val(rng); s.push(format!("{}=F{}", hex_bytes(k.as_bytes()), hex_i64(v))); }
	for k in LATER { let v = val(rng); s.push(format!("{}=L{}", hex_bytes(k.as_bytes()), hex_i64(v))); }
	s.push(format!("{}=D", hex_bytes(b"W")));
	s.join(" ")
}

fn env1(name: &str, b: &str) -> String { format!("{}={}", hex_bytes(name.as_bytes()), b) }

fn main()
{
	quiet_panics();
	let dirs = DirectiveList::new();
	let mut out = Out::new();
	match mode()
	{
		Mode::Replay => for cs in replay_cases() { let r = run_case(&cs, &dirs); out.line(&cs, &r); },
		Mode::Gen { thorough, seed, shard, nshards } =>
		{
			let stream = std::env::args().nth(6).unwrap_or_else(|| "c07".to_string());
			let mut sh = Shard { k: 0, shard, n: nshards };
			let mut rng = Rng::new(seed ^ if stream == "c08" { 0x5151 } else { 0 });
			let lv = leaves();
			let mut emit = |cs: String, out: &mut Out| { if sh.mine() { let r = run_case(&cs, &dirs); out.line(&cs, &r); } };
			if stream == "c07"
			{
				// fixed: the examples of the property text
				for t in [bin(0, c(i64::MAX), c(1)), bin(3, c(i64::MIN), c(-1)), bin(3, c(7), c(-2)), bin(4, c(-7), c(2)),
					bin(8, c(1), c(62)), bin(8, c(5), c(64)), bin(4, c(i64::MIN), c(-1)), neg(c(i64::MIN)), bin(8, c(1), c(63)), bin(9, c(-8), c(1))]
				{
					emit(format!("E ; {}", fmt_arg(&t)), &mut out);
					emit(format!("T {}", fmt_arg(&t)), &mut out);
				}
				// every operator x every ordered pair of boundary leaves, direct and through text
				for op in 0..10 { for &a in &lv { for &b in &lv
				{
					let t = bin(op, c(a), c(b));
					emit(format!("E ; {}", fmt_arg(&t)), &mut out);
					emit(format!("T {}", fmt_arg(&t)), &mut out);
				}}}
				for &a in &lv { for t in [neg(c(a)), not(c(a)), neg(neg(c(a))), not(neg(c(a)))]
				{
					emit(format!("E ; {}", fmt_arg(&t)), &mut out);
					emit(format!("T {}", fmt_arg(&t)), &mut out);
				}}
				// random literal trees to depth 6
				let n = if thorough { 3_000_000 } else { 60_000 };
				for k in 0..n
				{
					let d = 1 + (k % 6) as u32;
					let t = lit_tree(&mut rng, d, &lv);
					let txt = fmt_arg(&t);
					emit(format!("E ; {}", txt), &mut out);
					if k % 2 == 0 { emit(format!("T {}", txt), &mut out); }
					if k % 8 == 0 { emit(format!("S {}", txt), &mut out); }
				}
				// very long / very deep literal trees (more than 1000, more than 4096 operators): a flat chain `v + 1 - 1 + 1 ...`,
				// the same to the right, a chain that leaves the range only at its far end, unary chains
				for n in [1001usize, 1100, 5000]
				{
					let mut l = c(0x11223300); for k in 0..n { l = bin(if k % 2 == 0 { 0 } else { 1 }, l, c(1)); }
					let mut r = c(7); for k in 0..n { r = bin(if k % 2 == 0 { 0 } else { 1 }, c(1), r); }
					let mut o = bin(0, c(i64::MAX), c(1)); for _ in 0..n { o = bin(0, o, c(0)); }
					let mut o2 = c(5); for _ in 0..n { o2 = bin(2, o2, c(1)); } let o2 = bin(0, o2, bin(0, c(i64::MAX), c(1)));
					let mut u = c(9); for _ in 0..n { u = neg(u); }
					for t in [l, r, o, o2, u] { let txt = fmt_arg(&t); emit(format!("E ; {}", txt), &mut out); emit(format!("S {}", txt), &mut out); if n < 2000 { emit(format!("T {}", txt), &mut out); } }
				}
				// lists of literal trees ({a, b, c} and f(a, b, c)): every element is evaluated, an error in ANY element is reported
				let n = if thorough { 400_000 } else { 12_000 };
				for k in 0..n
				{
					let len = 1 + rng.below(4) as usize;
					let mut els: Vec<Arg> = (0..len).map(|_| { let d = 1 + rng.below(3) as u32; lit_tree(&mut rng, d, &lv) }).collect();
					// often: one element that leaves the range, at a random place
					if rng.chance(1, 2) { let at = rng.below(len as u64) as usize; els[at] = match rng.below(4) { 0 => bin(0, c(i64::MAX), c(1 + rng.below(5) as i64)), 1 => bin(2, c(1 << 62), c(2)), 2 => bin(3, c(rng.below(9) as i64), c(0)), _ => neg(c(i64::MIN)) }; }
					let t = if k % 2 == 0 { Argument::Sequence(els) } else { Argument::Function{name: trion::asm::arcob::Arcob::Arced("f".to_string().into()), args: els} };
					let txt = fmt_arg(&t);
					emit(format!("S {}", txt), &mut out);
					emit(format!("E ; {}", txt), &mut out);
				}
			}
			else
			{
				// corpus: the witnesses of the repaired defects F9, F10, F11
				let f9 = bin(5, bin(5, id("X"), c(3)), c(5));
				let f10 = bin(0, bin(4, id("X"), c(1)), c(7));
				let f11 = bin(4, bin(4, id("X"), bin(1, c(0), c(5))), c(3));
				emit(format!("G {} ; {}", env1("X", "L7"), fmt_arg(&f9)), &mut out);
				emit(format!("S {}", fmt_arg(&bin(5, bin(5, id("R0"), c(3)), c(5)))), &mut out);
				emit(format!("G {} ; {}", env1("X", "L5"), fmt_arg(&f10)), &mut out);
				emit(format!("G {} ; {}", env1("X", "L4"), fmt_arg(&f11)), &mut out);
				// every two-level chain `(X op1 c1) op2 c2` and `c2 op2 (c1 op1 X)` over the corner constants (the symbolic merge
				// of two constants happens before X is known), with X known later at a corner value; c1 literal or a known name
				{
					let ks: [i64; 11] = [i64::MIN, i64::MIN + 1, -3, -1, 0, 1, 3, 1 << 32, 1 << 62, i64::MAX - 1, i64::MAX];
					let xs: [i64; 6] = [10, i64::MIN, i64::MAX, -1, 0, 1 << 33];
					let mut k = 0usize;
					for op1 in 0..10 { for op2 in 0..10 { for &c1 in &ks { for &c2 in &ks
					{
						k += 1;
						// quick tier: a third of the grid, rotating with the seed
						if !thorough && (k + seed as usize) % 3 != 0 { continue; }
						for &xv in &xs
						{
							let named = k % 4 == 0;
							let c1a = if named { id("M") } else { c(c1) };
							let t = if k % 2 == 0 { bin(op2, bin(op1, id("X"), c1a), c(c2)) } else { bin(op2, c(c2), bin(op1, c1a, id("X"))) };
							let env = if named { format!("{} {}", env1("X", &format!("L{}", hex_i64(xv))), env1("M", &format!("F{}", hex_i64(c1)))) } else { env1("X", &format!("L{}", hex_i64(xv))) };
							emit(format!("G {} ; {}", env, fmt_arg(&t)), &mut out);
						}
					}}}}
				}
				// audit corpus: Sequence / Function / Address nodes (the random trees have none but the leaf [R1]): the try_fold arms
				// of neutralize, simplify and evaluate (first error wins, first deferral cause wins, no raw step on the list node
				// itself), Address around an expression and around an ill-typed operand, list nodes as operands
				{
					let seq = |v: Vec<Arg>| Argument::Sequence(v);
					let fun = |n: &str, v: Vec<Arg>| Argument::Function{name: trion::asm::arcob::Arcob::Arced(n.to_string().into()), args: v};
					let adr = |a: Arg| Argument::Address(Box::new(a));
					let ovf = || bin(0, c(i64::MAX), c(1));
					let dz = || bin(3, c(1), c(0));
					let mut ts: Vec<Arg> = vec![seq(vec![]), seq(vec![c(1)]), seq(vec![bin(0, c(1), c(2)), bin(0, id("X"), c(0))]), seq(vec![ovf(), st("s")]), seq(vec![id("Q"), dz()]),
						seq(vec![dz(), id("Q")]), seq(vec![id("W"), id("X"), id("Y")]), seq(vec![id("X"), id("W")]), seq(vec![id("W"), id("Q")]), seq(vec![id("Q"), id("W")]),
						seq(vec![seq(vec![bin(2, c(2), c(3))]), fun("g", vec![neg(c(5))])]), seq(vec![bin(0, id("X"), neg(id("Y")))]), seq(vec![bin(0, neg(id("X")), neg(neg(c(3))))]),
						fun("f", vec![]), fun("f", vec![c(1)]), fun("f", vec![bin(0, c(1), c(2)), bin(1, c(0), id("X"))]), fun("f", vec![id("W"), bin(0, id("X"), c(1))]),
						fun("f", vec![bin(0, id("K0"), c(1)), id("W")]), fun("R0", vec![c(1)]), fun("f", vec![id("R0"), id("sp")]), fun("f", vec![seq(vec![ovf()])]),
						adr(c(1)), adr(bin(0, id("R0"), c(4))), adr(bin(0, id("R0"), bin(0, id("X"), c(4)))), adr(bin(0, bin(0, id("R0"), c(4)), c(4))), adr(bin(0, bin(0, id("R0"), id("X")), c(4))),
						adr(adr(id("R0"))), adr(st("s")), adr(seq(vec![])), adr(seq(vec![c(1)])), adr(fun("f", vec![])), adr(neg(c(i64::MIN))), adr(bin(0, id("R0"), neg(c(4)))),
						adr(bin(1, id("R0"), c(-4))), adr(bin(0, id("R0"), c(i64::MIN))), adr(bin(1, c(0), id("R0"))), adr(id("X")), adr(id("W")), adr(id("Q")), adr(bin(0, id("R0"), id("W"))),
						neg(adr(id("R0"))), not(adr(id("R0"))), neg(seq(vec![])), not(seq(vec![])), neg(fun("f", vec![])), not(fun("f", vec![])), neg(neg(st("s")))];
					for op in 0..10
					{
						ts.push(bin(op, seq(vec![c(1)]), c(1))); ts.push(bin(op, c(1), seq(vec![c(1)]))); ts.push(bin(op, fun("f", vec![c(1)]), c(1))); ts.push(bin(op, id("X"), fun("f", vec![c(0)])));
						ts.push(bin(op, adr(id("R0")), c(1))); ts.push(bin(op, c(1), adr(id("R0")))); ts.push(bin(op, st("a"), id("Q"))); ts.push(bin(op, id("Q"), st("a")));
						ts.push(bin(op, dz(), st("a"))); ts.push(bin(op, st("a"), dz())); ts.push(bin(op, bin(op, fun("f", vec![]), c(3)), c(5))); ts.push(bin(op, c(5), bin(op, c(3), fun("f", vec![]))));
					}
					let env = format!("{} {} {} {}", env1("K0", "F5"), env1("X", "L7"), env1("Y", "L-3"), env1("W", "D"));
					for t in &ts
					{
						let txt = fmt_arg(t);
						emit(format!("S {}", txt), &mut out);
						emit(format!("N {}", txt), &mut out);
						emit(format!("G {} ; {}", env, txt), &mut out);
					}
				}
				// forced: two constants around each mergeable operator with a symbolic operand on either side
				let syms = [("X", "L"), ("R0", ""), ("K0", "F")];
				let cs: [i64; 9] = [0, 1, -1, 2, 3, -5, 7, i64::MAX, i64::MIN];
				let xs: [i64; 9] = [0, 1, -1, 4, 5, -7, 12, i64::MAX, i64::MIN];
				let fams: [&[usize]; 6] = [&[0, 1], &[2], &[3], &[5], &[6], &[7]];
				for fam in fams { for &o1 in fam { for &o2 in fam { for &c1 in &cs { for &c2 in &cs { for shape in 0..8 { for (sname, skind) in syms
				{
					let s = if shape >= 4 { neg(id(sname)) } else { id(sname) };
					let inner = if shape & 1 == 0 { bin(o1, s, c(c1)) } else { bin(o1, c(c1), s) };
					let t = if shape & 2 == 0 { bin(o2, inner, c(c2)) } else { bin(o2, c(c2), inner) };
					let txt = fmt_arg(&t);
					if skind.is_empty() { emit(format!("S {}", txt), &mut out); }
					else
					{
						let x = xs[((c1 as u64).wrapping_mul(31).wrapping_add(c2 as u64).wrapping_add(shape as u64) % 9) as usize];
						emit(format!("G {} ; {}", env1(sname, &format!("{}{}", skind, hex_i64(x))), txt), &mut out);
					}
				}}}}}}}
				// both sides symbolic: (s1 o c1) o (s2 o c2)
				for fam in fams { for &o1 in fam { for &o2 in fam { for &o3 in fam { for &c1 in &cs[..7] { for &c2 in &cs[..7] { for shape in 0..4
				{
					let a = if shape & 1 == 0 { bin(o1, id("X"), c(c1)) } else { bin(o1, c(c1), id("X")) };
					let b = if shape & 2 == 0 { bin(o3, id("Y"), c(c2)) } else { bin(o3, c(c2), id("Y")) };
					let t = bin(o2, a, b);
					let (x, y) = (xs[(c1.unsigned_abs() % 7) as usize], xs[((c2.unsigned_abs() + shape as u64) % 7) as usize]);
					emit(format!("G {} {} ; {}", env1("X", &format!("L{}", hex_i64(x))), env1("Y", &format!("L{}", hex_i64(y))), fmt_arg(&t)), &mut out);
				}}}}}}}
				// nested modulo with divisors from {-5,-1,0,1,2,5} and their positions
				let ds: [i64; 6] = [-5, -1, 0, 1, 2, 5];
				for &d1 in &ds { for &d2 in &ds { for &x in &[-7i64, -4, -1, 0, 1, 4, 5, 9, i64::MIN, i64::MAX] { for shape in 0..4
				{
					let inner = if shape & 1 == 0 { bin(4, id("X"), c(d1)) } else { bin(4, id("X"), bin(1, c(0), c(-d1))) };
					let t = bin(4, inner, c(d2));
					let t = if shape & 2 == 0 { t } else { bin(0, t, c(7)) };
					emit(format!("G {} ; {}", env1("X", &format!("L{}", hex_i64(x))), fmt_arg(&t)), &mut out);
				}}}}
				// every neutral element on either side of every operator, symbolic other operand, negations
				for op in 0..10 { for &n in &[0i64, 1, -1] { for side in 0..2 { for shape in 0..3 { for &x in &[0i64, 3, -3, i64::MIN]
				{
					let s = match shape { 0 => id("X"), 1 => neg(id("X")), _ => neg(neg(id("X"))) };
					let t = if side == 0 { bin(op, s, c(n)) } else { bin(op, c(n), s) };
					emit(format!("G {} ; {}", env1("X", &format!("L{}", hex_i64(x))), fmt_arg(&bin(0, t, c(7)))), &mut out);
				}}}}}
				// random trees, depth <= 5, every kind of leaf, every partition through the environment
				let n = if thorough { 2_000_000 } else { 45_000 };
				for k in 0..n
				{
					let d = 1 + (k % 5) as u32;
					let exotic = k % 7 == 0;
					let t = sym_tree(&mut rng, d, &lv, exotic);
					let txt = fmt_arg(&t);
					let env = env_text(&mut rng, &lv, k % 3 != 0);
					emit(format!("G {} ; {}", env, txt), &mut out);
					if k % 4 == 0 { emit(format!("S {}", txt), &mut out); }
					if k % 4 == 1 { emit(format!("N {}", txt), &mut out); }
				}
			}
		},
	}
}
