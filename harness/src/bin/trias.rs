//! C18: the `trias` executable (built from /repo by the `extra_build` step of props/C18.json) against the model of
//! src/bin/assembler.rs and the image oracle.
//!
//! Case text (one line):   out=<0|1|2> <file> <file> ...
//!     out=0  run `trias main.asm`            (no output argument; a sentinel lies where the output would go)
//!     out=1  run `trias main.asm out.uf2`    with a pre-existing sentinel out.uf2 (5000 bytes, longer than small outputs)
//!     out=2  run `trias main.asm out.uf2`    with no out.uf2 present
//!     file   T:<name>:<text, escaped>  or  B:<name>:<hex>      the first file is the program, the others are
//!            `.include` / `.dfile` inputs (names may contain `/`)
//!     escape: space -> `_`, every byte outside [0-9A-Za-z.;,"()\[\]+*/<>&|^!'-] -> %XX
//! Result text:   P=<regions | !status> | exit=<code> stderr=<class> file=<hex | absent | unchanged>
//!     P       the output regions of the LIBRARY pipeline on the same files (first:hexbytes,...; `-` = none),
//!             or !failure / !close-error / !panic when it does not assemble
//!     stderr  none | diagnostics | checksum-refused | panic | other
//! The files are written into a private directory under $VERIF_TMP which is removed afterwards.
use std::path::PathBuf;
use std::process::Command;
use verif_harness::asmrun::*;
use verif_harness::*;

const SENTINEL_LEN: usize = 5000;
fn sentinel() -> Vec<u8> { (0..SENTINEL_LEN).map(|i| b"SENTINEL-C18/"[i % 13]).collect() }

fn esc(s: &[u8]) -> String
{
	let mut o = String::new();
	for &b in s
	{
		let c = b as char;
		if b == b' ' { o.push('_'); }
		else if c.is_ascii_alphanumeric() || ".;,\"()[]+*/<>&|^!'-".contains(c) { o.push(c); }
		else { o.push_str(&format!("%{:02X}", b)); }
	}
	if o.is_empty() { o.push_str("%"); }
	o
}
fn unesc(s: &str) -> Vec<u8>
{
	if s == "%" { return vec![]; }
	let b = s.as_bytes();
	let mut o = Vec::new();
	let mut i = 0;
	while i < b.len()
	{
		if b[i] == b'_' { o.push(b' '); i += 1; }
		else if b[i] == b'%' { o.push(u8::from_str_radix(&s[i + 1..i + 3], 16).unwrap()); i += 3; }
		else { o.push(b[i]); i += 1; }
	}
	o
}

#[derive(Clone)]
struct FileSpec { name: String, text: bool, data: Vec<u8> }
fn fmt_case(out: u8, files: &[FileSpec]) -> String
{
	let mut s = format!("out={}", out);
	for f in files
	{
		if f.text { s.push_str(&format!(" T:{}:{}", f.name, esc(&f.data))); }
		else { s.push_str(&format!(" B:{}:{}", f.name, hex_bytes(&f.data))); }
	}
	s
}
fn parse_case(case: &str) -> (u8, Vec<FileSpec>)
{
	let mut it = case.split_whitespace();
	let out = it.next().unwrap().strip_prefix("out=").unwrap().parse().unwrap();
	let mut files = Vec::new();
	for t in it
	{
		if t.starts_with("W=") { continue; }   // the image the generator intends (judged by the driver)
		if t.starts_with("rel=") { continue; }  // how the source is named on the command line
		let mut p = t.splitn(3, ':');
		let kind = p.next().unwrap();
		let name = p.next().unwrap().to_string();
		let body = p.next().unwrap_or("");
		if kind == "T" { files.push(FileSpec{name, text: true, data: unesc(body)}); }
		else { files.push(FileSpec{name, text: false, data: parse_hex_bytes(body)}); }
	}
	(out, files)
}

fn trias_path() -> PathBuf
{
	if let Ok(p) = std::env::var("VERIF_TRIAS") { return PathBuf::from(p); }
	if let Ok(d) = std::env::var("VERIF_BIN_DIR") { if !d.is_empty() { return PathBuf::from(d).join("trias"); } }
	// <build>/target/<profile>/trias (this harness)  ->  <build>/target_repo/release/trias (the real binary)
	let exe = std::env::current_exe().unwrap();
	let build = exe.parent().and_then(|p| p.parent()).and_then(|p| p.parent()).map(|p| p.to_path_buf()).unwrap_or(PathBuf::from("/verif/.build"));
	build.join("target_repo").join("release").join("trias")
}

struct Runner { tmp: PathBuf, trias: PathBuf, n: u64 }
impl Runner
{
	fn new() -> Self
	{
		let tmp = match std::env::var("VERIF_TMP")
		{
			Ok(p) => PathBuf::from(p),
			Err(_) => PathBuf::from(format!("/verif/.build/run/C18/tmp_replay_{}", std::process::id())),
		};
		std::fs::create_dir_all(&tmp).unwrap();
		Runner{tmp, trias: trias_path(), n: 0}
	}
	fn run_case(&mut self, case: &str) -> String
	{
		let (out, files) = parse_case(case);
		self.n += 1;
		let dir = self.tmp.join(format!("c{}_{}", std::process::id(), self.n));
		let _ = std::fs::remove_dir_all(&dir);
		std::fs::create_dir_all(&dir).unwrap();
		for f in &files
		{
			let p = dir.join(&f.name);
			if let Some(par) = p.parent() { std::fs::create_dir_all(par).unwrap(); }
			std::fs::write(&p, &f.data).unwrap();
		}
		let main = dir.join(&files[0].name);
		let outp = dir.join("out.uf2");
		let sent = sentinel();
		if out != 2 { std::fs::write(&outp, &sent).unwrap(); }
		// rel=1: the source and the output are named by bare relative names (`trias main.asm out.uf2` inside the directory)
		let rel = case.split_whitespace().any(|t| t == "rel=1");
		let (main_arg, out_arg): (PathBuf, PathBuf) = if rel { (PathBuf::from(&files[0].name), PathBuf::from("out.uf2")) } else { (main.clone(), outp.clone()) };
		// the program image, from the library
		if rel { std::env::set_current_dir(&dir).unwrap(); }
		let lib = run_pipeline(&files[0].data, main_arg.to_str().unwrap());
		if rel { std::env::set_current_dir("/").unwrap(); }
		let p_text = if lib.success() { lib.fmt_regions() } else { format!("!{}", lib.fmt_status()) };
		// the real binary
		let mut cmd = Command::new(&self.trias);
		cmd.arg(&main_arg);
		if out != 0 { cmd.arg(&out_arg); }
		cmd.current_dir(&dir).stdin(std::process::Stdio::null());
		let res = match cmd.output()
		{
			Ok(o) =>
			{
				let code = match o.status.code() { Some(c) => format!("{}", c), None => "signal".to_string() };
				let err = String::from_utf8_lossy(&o.stderr).to_string();
				let class = classify_stderr(&err);
				let file = match std::fs::read(&outp)
				{
					Err(_) => "absent".to_string(),
					Ok(b) => if out != 2 && b == sent { "unchanged".to_string() } else { hex_bytes(&b) },
				};
				format!("exit={} stderr={} file={}", code, class, file)
			},
			Err(e) => format!("exit=spawn-failed:{} stderr=other file=absent", format!("{}", e).replace(' ', "_")),
		};
		let _ = std::fs::remove_dir_all(&dir);
		format!("P={} | {}", p_text, res)
	}
}
impl Drop for Runner { fn drop(&mut self) { let _ = std::fs::remove_dir(&self.tmp); } }

fn classify_stderr(err: &str) -> &'static str
{
	if err.is_empty() { return "none"; }
	if err.contains("panicked") { return "panic"; }
	let mut class = "";
	for l in err.lines()
	{
		let c = if l.starts_with("Checksum would overwrite existing data") { "checksum-refused" }
			else if l.starts_with("Error: ") || l.starts_with("\tsource: ") || l.starts_with("Could not close final segment") { "diagnostics" }
			else { "other" };
		if class.is_empty() || class == c { class = c; } else { return "other"; }
	}
	if class.is_empty() { "other" } else if class == "diagnostics" || class == "checksum-refused" { class } else { "other" }
}

// ---------------------------------------------------------------------------------------------------------------
// generator
// ---------------------------------------------------------------------------------------------------------------

/// one region of a layout: start address and length in bytes
#[derive(Clone, Copy, Debug)]
struct Reg { addr: u64, len: u64 }

struct Builder<'a> { rng: &'a mut Rng, files: Vec<FileSpec>, nbin: u32 }
impl<'a> Builder<'a>
{
	/// statements producing exactly `len` bytes at the current address
	fn data(&mut self, len: u64, dir: &str) -> (String, Vec<u8>)
	{
		let mut s = String::new();
		let mut w: Vec<u8> = Vec::new();   // the bytes these statements stand for, written down by the generator itself
		let mut left = len as usize;
		while left > 0
		{
			let k = self.rng.below(9);
			match k
			{
				0 => { let v = self.rng.below(256); s.push_str(&format!(".du8 {};\n", v)); w.push(v as u8); left -= 1; },
				1 if left >= 2 => { let v = self.rng.below(65536) as u16; s.push_str(&format!(".du16 0x{:X};\n", v)); w.extend_from_slice(&v.to_le_bytes()); left -= 2; },
				2 if left >= 4 => { let v = self.rng.next() as u32; s.push_str(&format!(".du32 0x{:X};\n", v)); w.extend_from_slice(&v.to_le_bytes()); left -= 4; },
				3 if left >= 2 =>
				{
					let k = self.rng.below(5) as usize;
					s.push_str(["NOP;\n", "MOVS R0, 1;\n", "BX LR;\n", "ADDS R1, R1, 4;\n", "WFI;\n"][k]);
					w.extend_from_slice(&[0xBF00u16, 0x2001, 0x4770, 0x3104, 0xBF30][k].to_le_bytes());   // ARMv6-M encodings
					left -= 2;
				},
				4 =>
				{
					let n = 1 + self.rng.below(left.min(40) as u64) as usize;
					let txt: String = (0..n).map(|_| *self.rng.pick(&[b'a', b'Z', b'0', b'.', b'x', b'q', b'7']) as char).collect();
					s.push_str(&format!(".dstr \"{}\";\n", txt)); w.extend_from_slice(txt.as_bytes()); left -= n;
				},
				5 | 6 =>
				{
					let n = if self.rng.chance(1, 3) { left } else { 1 + self.rng.below(left.min(64) as u64) as usize };
					let b = self.rng.bytes(n);
					let sep = if self.rng.chance(1, 2) { " " } else { "" };
					let h: Vec<String> = b.iter().map(|x| if self.rng.chance(1, 2) { format!("{:02X}", x) } else { format!("{:02x}", x) }).collect();
					s.push_str(&format!(".dhex \"{}\";\n", h.join(sep))); w.extend_from_slice(&b); left -= n;
				},
				7 =>
				{
					let n = if self.rng.chance(1, 2) { left } else { 1 + self.rng.below(left as u64) as usize };
					self.nbin += 1;
					let name = format!("d{}.bin", self.nbin);
					let b = if self.rng.chance(1, 6) { vec![0u8; n] } else { self.rng.bytes(n) };
					w.extend_from_slice(&b);
					self.files.push(FileSpec{name: format!("{}{}", dir, name), text: false, data: b});
					s.push_str(&format!(".dfile \"{}\";\n", name)); left -= n;
				},
				_ => { let v = self.rng.below(256); s.push_str(&format!(".du8 0x{:x};\n", v)); w.push(v as u8); left -= 1; },
			}
		}
		(s, w)
	}
	fn region(&mut self, r: Reg, dir: &str) -> (String, Vec<u8>)
	{
		let a = match self.rng.below(4) { 0 => format!("0x{:X}", r.addr), 1 => format!("0x{:x}", r.addr), 2 => format!("{}", r.addr), _ => format!("0x{:08X}", r.addr) };
		let (t, w) = self.data(r.len, dir);
		(format!(".addr {};\n{}", a, t), w)
	}
}

const FAILING: [&str; 9] = [
	".du32 NOWHERE;\n", ".bogus 1;\n", ".du8 300;\n", "MOVS R9, 1;\n", ".include \"missing.asm\";\n", ".dfile \"missing.bin\";\n",
	".dhex \"0g\";\n", "NOP NOP;\n", ".addr 0x100000000;\n",
];

/// a program for a layout: regions in the given (source) order, optionally spread over include files,
/// optionally with one failing statement
fn program(rng: &mut Rng, regs: &[Reg], use_includes: bool, fail: Option<&str>) -> Vec<FileSpec> { program_w(rng, regs, use_includes, fail).0 }

/// the same, together with the image the program stands for: every region's bytes at its address, as `first:hex,...`
/// (ascending, touching regions merged) - `None` when regions overlap
fn program_w(rng: &mut Rng, regs: &[Reg], use_includes: bool, fail: Option<&str>) -> (Vec<FileSpec>, Option<String>)
{
	let mut image: std::collections::BTreeMap<u64, u8> = std::collections::BTreeMap::new();
	let mut clash = false;
	let mut b = Builder{rng, files: vec![], nbin: 0};
	let mut main = String::new();
	if b.rng.chance(1, 3) { main.push_str("// generated layout\n"); }
	let mut incs: Vec<FileSpec> = vec![];
	let fail_at = if fail.is_some() { Some(b.rng.below(regs.len() as u64 + 1) as usize) } else { None };
	for (i, r) in regs.iter().enumerate()
	{
		if fail_at == Some(i) { main.push_str(fail.unwrap()); }
		if use_includes && b.rng.chance(1, 2)
		{
			let (dir, name) = if b.rng.chance(1, 2) { ("sub/", format!("sub/inc{}.asm", i)) } else { ("", format!("inc{}.asm", i)) };
			let (body, w) = b.region(*r, dir);
			for (k, x) in w.iter().enumerate() { if image.insert(r.addr + k as u64, *x).is_some() { clash = true; } }
			incs.push(FileSpec{name: name.clone(), text: true, data: body.into_bytes()});
			main.push_str(&format!(".include \"{}\";\n", name));
		}
		else { let (t, w) = b.region(*r, ""); for (k, x) in w.iter().enumerate() { if image.insert(r.addr + k as u64, *x).is_some() { clash = true; } } main.push_str(&t); }
	}
	if fail_at == Some(regs.len()) { main.push_str(fail.unwrap()); }
	let mut files = vec![FileSpec{name: "main.asm".into(), text: true, data: main.into_bytes()}];
	files.extend(incs);
	files.extend(b.files);
	let w = if clash { None } else
	{
		let mut runs: Vec<(u64, Vec<u8>)> = vec![];
		for (a, x) in image { match runs.last_mut() { Some((s0, d)) if *s0 + d.len() as u64 == a => d.push(x), _ => runs.push((a, vec![x])) } }
		Some(if runs.is_empty() { "-".to_string() } else { runs.iter().map(|(a, d)| format!("{:x}:{}", a, hex_bytes(d))).collect::<Vec<_>>().join(",") })
	};
	(files, w)
}

const OFFS: [u64; 14] = [0, 0, 1, 2, 0x7F, 0x80, 0xF0, 0xFA, 0xFB, 0xFC, 0xFD, 0xFE, 0xFF, 0x100];
const ZONES: [u64; 9] = [0, 0x100, 0x10000000, 0x10000000, 0x10000100, 0x0FFFFF00, 0x20000000, 0xFFFFFE00, 0xFFFFFF00];

fn pages(regs: &[Reg]) -> usize
{
	let mut p: Vec<u64> = vec![];
	for r in regs { if r.len > 0 { for q in (r.addr / 256)..=((r.addr + r.len - 1) / 256) { p.push(q); } } }
	p.sort(); p.dedup(); p.len()
}

/// random layout: regions clustered in a few zones, offsets and lengths biased to page boundaries and to the checksum word
fn random_layout(rng: &mut Rng, allow_overlap: bool) -> Vec<Reg>
{
	let n = 1 + rng.below(5) as usize;
	let nz = 1 + rng.below(2);
	let mut zones: Vec<u64> = (0..nz).map(|_| if rng.chance(1, 8) { (rng.next() & 0xFFFF_FF00) as u64 } else { *rng.pick(&ZONES) }).collect();
	let mut regs: Vec<Reg> = vec![];
	// one time in four: a boot sector, i.e. a region covering 0x10000000 (starting there or running into it from below)
	if rng.chance(1, 4)
	{
		let before = if rng.chance(1, 5) { 1 + rng.below(0x20) } else { 0 };
		let len = match rng.below(8) { 0 => 1, 1 => 0xFB, 2 => 0xFC, 3 => 0xFD, 4 => 0x100, 5 => 0x101, _ => 1 + rng.below(0x60) };
		regs.push(Reg{addr: 0x1000_0000 - before, len: before + len});
		if rng.chance(2, 3) { zones[0] = 0x1000_0000; }
	}
	let mut tries = 0;
	while regs.len() < n && tries < 40
	{
		tries += 1;
		let z = *rng.pick(&zones);
		let page = rng.below(3) * 256;
		let off = if rng.chance(3, 4) { *rng.pick(&OFFS) } else { rng.below(256) };
		let addr = z + page + off;
		if addr > 0xFFFF_FFFF { continue; }
		let to_end = 256 - (addr % 256);
		let mut len = match rng.below(12)
		{
			0 | 1 => 1, 2 => 2, 3 => 4, 4 => to_end, 5 => to_end + 1, 6 => if to_end > 1 { to_end - 1 } else { 1 },
			7 => 252u64.saturating_sub(addr % 256).max(1), 8 => 256, 9 => 257, _ => 1 + rng.below(40),
		};
		if addr + len > 0x1_0000_0000 { len = 0x1_0000_0000 - addr; }
		let cand = Reg{addr, len};
		let clash = regs.iter().any(|r| cand.addr < r.addr + r.len && r.addr < cand.addr + cand.len);
		if clash && !allow_overlap { continue; }
		let mut t = regs.clone(); t.push(cand);
		if pages(&t) > 6 { continue; }
		regs = t;
	}
	regs
}

fn order(rng: &mut Rng, regs: &mut Vec<Reg>)
{
	match rng.below(4)
	{
		0 => regs.sort_by_key(|r| r.addr),
		1 => { regs.sort_by_key(|r| r.addr); regs.reverse(); },
		_ => { for i in (1..regs.len()).rev() { let j = rng.below(i as u64 + 1) as usize; regs.swap(i, j); } },
	}
}

/// the fixed part: every relative position of two regions the padding loop distinguishes, at four bases;
/// boot-sector layouts; top of the address space; empty and failing programs
fn corpus() -> Vec<(u8, Vec<Reg>, Option<&'static str>)>
{
	let mut v: Vec<(u8, Vec<Reg>, Option<&'static str>)> = vec![];
	let r = |a: u64, l: u64| Reg{addr: a, len: l};
	for &b in &[0u64, 0x2000_0000, 0x1000_0100, 0xFFFF_FD00]
	{
		v.push((1, vec![r(b, 1)], None));                              // starts on a page boundary
		v.push((1, vec![r(b + 0x10, 4)], None));                       // pre-pad only
		v.push((1, vec![r(b, 0x100)], None));                          // exactly one page
		v.push((1, vec![r(b + 0xFF, 1)], None));                       // last byte of a page
		v.push((1, vec![r(b + 0xFF, 2)], None));                       // crosses a boundary
		v.push((1, vec![r(b + 0x10, 4), r(b + 0x20, 4)], None));       // same page, gap inside a page (join)
		v.push((1, vec![r(b + 0x10, 4), r(b + 0x15, 4)], None));       // gap of one byte
		v.push((1, vec![r(b + 0x10, 4), r(b + 0x14, 4)], None));       // touching: one region
		v.push((1, vec![r(b + 0x10, 4), r(b + 0x100, 4)], None));      // adjacent pages, second on the boundary
		v.push((1, vec![r(b + 0x10, 4), r(b + 0x120, 4)], None));      // adjacent pages, second inside (base put)
		v.push((1, vec![r(b + 0x10, 0xF0), r(b + 0x120, 4)], None));   // first ends exactly on the boundary, base = prev + 1
		v.push((1, vec![r(b + 0x10, 0xF1), r(b + 0x120, 4)], None));   // first ends one past the boundary: join
		v.push((1, vec![r(b + 0x10, 0xEF), r(b + 0x120, 4)], None));   // first ends one short of the boundary
		v.push((1, vec![r(b + 0x10, 4), r(b + 0x2F0, 0x20)], None));   // far apart (a page between), second crosses
		v.push((1, vec![r(b + 0x10, 2), r(b + 0x20, 2), r(b + 0x30, 2), r(b + 0xFF, 1)], None));   // several regions on one page
		v.push((1, vec![r(b + 0x220, 4), r(b + 0x120, 4), r(b + 0x10, 4)], None));                 // descending source order
		v.push((1, vec![r(b + 0x80, 0x100), r(b + 0x190, 0x100)], None));                           // both cross, join inside page 1
		v.push((0, vec![r(b + 0x10, 4), r(b + 0x120, 4)], None));      // no output argument
		v.push((2, vec![r(b + 0x10, 4), r(b + 0x120, 4)], None));      // no sentinel
	}
	// top of the address space
	let t = 0xFFFF_FF00u64;
	for &(a, l) in &[(t, 1u64), (t, 0x100), (t + 0xFF, 1), (t + 0x10, 0xF0), (t + 0xFE, 1), (t - 1, 2), (t - 0x100, 0x200), (t + 0x80, 0x80)]
	{
		v.push((1, vec![r(a, l)], None));
		v.push((1, vec![r(0x10, 2), r(a, l)], None));
		v.push((1, vec![r(a, l), r(t - 0x1F0, 3)], None));
	}
	v.push((1, vec![r(t + 0x10, 2), r(t + 0xFF, 1)], None));
	v.push((1, vec![r(t + 0x10, 2), r(t + 0xFE, 1)], None));
	// boot sector
	let f = 0x1000_0000u64;
	for out in [1u8, 0, 2]
	{
		v.push((out, vec![r(f, 4)], None));                                   // checksum inserted, gap below 0xFC
		v.push((out, vec![r(f, 0xFC)], None));                                // full boot block, checksum adjacent
		v.push((out, vec![r(f, 0xFD)], None));                                // refused: 0xFC occupied
		v.push((out, vec![r(f, 0x100)], None));                               // refused
		v.push((out, vec![r(f, 4), r(f + 0xFF, 1)], None));                   // refused: 0xFF occupied
	}
	v.push((1, vec![r(f, 4), r(f + 0xFC, 1)], None));
	v.push((1, vec![r(f, 4), r(f + 0xFD, 1)], None));
	v.push((1, vec![r(f, 4), r(f + 0xFE, 1)], None));
	v.push((1, vec![r(f, 4), r(f + 0xFE, 4)], None));                     // refused: range clipped at 0xFF
	v.push((1, vec![r(f, 0xFB)], None));                                  // one free byte below the word
	v.push((1, vec![r(f, 1), r(f + 0xFB, 1)], None));                     // first and last checksummed byte
	v.push((1, vec![r(f, 1), r(f + 0x10, 2), r(f + 0x80, 0x10), r(f + 0xF0, 0xC)], None));   // gaps below 0xFC
	v.push((1, vec![r(f, 8), r(f + 0x100, 8)], None));                    // code right after the boot block
	v.push((1, vec![r(f, 8), r(f + 0x104, 8)], None));
	v.push((1, vec![r(f, 0xFC), r(f + 0x100, 0x100)], None));             // checksum word bridges two regions
	v.push((1, vec![r(f - 4, 8)], None));                                 // a region running into 0x10000000 from below
	v.push((1, vec![r(f - 0x100, 0x180)], None));
	v.push((1, vec![r(f + 1, 4)], None));                                 // 0x10000000 itself free: no checksum
	v.push((1, vec![r(f + 0xFC, 4)], None));                              // bytes at the word, nothing at 0x10000000: plain data
	v.push((1, vec![r(f + 0xF0, 0x20)], None));
	v.push((1, vec![r(f + 4, 4), r(f, 4)], None));                        // descending, merges at 0x10000000
	v.push((1, vec![r(0x100, 4), r(f, 4), r(0x2000_0000, 4), r(t, 4)], None));
	// empty programs
	v.push((1, vec![], None)); v.push((0, vec![], None)); v.push((2, vec![], None));
	v.push((1, vec![r(0x100, 0)], None));                                 // `.addr` with no data
	v.push((1, vec![r(f, 0)], None));
	// failing programs
	for (i, fl) in FAILING.iter().enumerate()
	{
		v.push((1, vec![r(0x100, 4), r(0x220, 4)], Some(fl)));
		v.push((2, vec![r(f, 4)], Some(fl)));
		if i % 3 == 0 { v.push((0, vec![r(f, 4)], Some(fl))); }
	}
	v.push((1, vec![r(0x100, 8), r(0x104, 2)], None));                    // `.addr` into an occupied region
	v.push((1, vec![r(0x104, 2), r(0x100, 8)], None));                    // a region running into the next one
	v.push((1, vec![r(0xFFFF_FFFE, 2)], Some(".du8 1;\n")));               // write past the end of the address space
	// audit: beyond the bounds of the random layouts (at most 5 regions on 6 pages, regions of at most 0x201 bytes):
	// 24 regions on 36 pages with every kind of gap, 40 one-byte regions on one page, one region of six blocks
	v.push((1, (0..24u64).map(|i| r(0x2000_0000 + i * 0x180 + (i % 7), 1 + i % 3)).collect(), None));
	v.push((1, (0..40u64).map(|i| r(0x1001 + i * 4, 1)).collect(), None));
	v.push((1, vec![r(0x2000_0010, 1500)], None));
	v
}

fn main()
{
	let mut out = Out::new();
	let mut runner = Runner::new();
	match mode()
	{
		Mode::Replay => for c in replay_cases() { let r = runner.run_case(&c); out.line(&c, &r); },
		Mode::Gen { thorough, seed, shard, nshards } =>
		{
			let mut sh = Shard { k: 0, shard, n: nshards };
			let mut rng = Rng::new(seed);
			let mut emit = |c: String, out: &mut Out, runner: &mut Runner| { if sh.mine() { let r = runner.run_case(&c); out.line(&c, &r); } };
			// fixed part, each layout twice (plain, and spread over include files)
			for (o, regs, fail) in corpus()
			{
				let mut crng = Rng::new(0xC18);
				let f1 = program(&mut crng, &regs, false, fail);
				emit(fmt_case(o, &f1), &mut out, &mut runner);
				let f2 = program(&mut crng, &regs, true, fail);
				emit(fmt_case(o, &f2), &mut out, &mut runner);
			}
			// a boot block that already carries a checksum word - the right one, a wrong one, zero - still "places data at
			// 0x100000FC..0x100000FF": refused whatever the word is (CRC-32/MPEG-2 computed here bit by bit)
			for k in 0..(if thorough { 40 } else { 6 })
			{
				let body: Vec<u8> = if k == 0 { vec![0u8; 252] } else { rng.bytes(252) };
				let mut crc: u32 = 0xFFFF_FFFF;
				for &b in &body { crc ^= (b as u32) << 24; for _ in 0..8 { crc = if crc & 0x8000_0000 != 0 { (crc << 1) ^ 0x04C1_1DB7 } else { crc << 1 }; } }
				for word in [crc, crc ^ 1, 0, crc.swap_bytes()]
				{
					let hex: Vec<String> = body.iter().map(|x| format!("{:02x}", x)).collect();
					let tail = if k % 2 == 0 { format!(".du32 0x{:X};\n", word) } else { format!(".dhex \"{}\";\n", word.to_le_bytes().iter().map(|x| format!("{:02X}", x)).collect::<Vec<_>>().join(" ")) };
					let text = format!(".addr 0x10000000;\n.dhex \"{}\";\n{}{}", hex.join(""), tail, if k % 3 == 0 { ".addr 0x10000100;\nNOP;\n" } else { "" });
					let files = vec![FileSpec{name: "main.asm".into(), text: true, data: text.into_bytes()}];
					emit(fmt_case(if k % 2 == 0 { 1 } else { 2 }, &files), &mut out, &mut runner);
				}
			}
			// an included file that has the base name of its includer, in a sub-directory
			{
				let files = vec![FileSpec{name: "main.asm".into(), text: true, data: b".addr 0x20000000;\n.du8 1;\n.include \"boot/main.asm\";\n.du8 3;\n".to_vec()},
					FileSpec{name: "boot/main.asm".into(), text: true, data: b".du8 2;\n".to_vec()}];
				emit(format!("{} W=20000000:010203", fmt_case(1, &files)), &mut out, &mut runner);
				emit(format!("{} W=20000000:010203 rel=1", fmt_case(2, &files)), &mut out, &mut runner);
			}
			// random part
			let n = if thorough { 50000 } else { 2400 };
			for _ in 0..n
			{
				let overlap = rng.chance(1, 25);
				let mut regs = random_layout(&mut rng, overlap);
				order(&mut rng, &mut regs);
				let fail = if rng.chance(1, 14) { Some(*rng.pick(&FAILING)) } else { None };
				let inc = rng.chance(1, 3);
				let o = match rng.below(10) { 0 => 0, 1 | 2 => 2, _ => 1 };
				let (files, w) = program_w(&mut rng, &regs, inc, fail);
				// a layout without overlaps and without a failing statement must assemble to exactly the bytes written down
				let tag = match (&w, fail, overlap) { (Some(w), None, false) => format!(" W={}", w), _ => String::new() };
				let rel = if rng.chance(1, 3) { " rel=1" } else { "" };
				emit(format!("{}{}{}", fmt_case(o, &files), tag, rel), &mut out, &mut runner);
			}
		},
	}
}
