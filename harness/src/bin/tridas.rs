//! C20: the real `tridas` and `trias` executables on generated binaries.
//!   B <hex of the binary>  =>  listing=<hex of tridas' stdout> | tridas=<ok|panic|exitN|signal> trias=<ok|rejected|panic|exitN|signal|skipped>
//!                              image@0x20000000=<hex of the first len(b) bytes of the UF2 image at 0x20000000, or absent>
//! Each case is written to `code.bin` in a private directory ($VERIF_TMP, removed afterwards); `tridas code.bin`
//! gives the listing, `trias listing.asm out.uf2` assembles it, the UF2 file is decoded block by block.
//! The executables are taken from $VERIF_BIN_DIR (default /verif/.build/target_repo/release, built by the
//! `extra_build` step of props/C20.json from /repo's working tree).
use std::collections::BTreeMap;
use std::path::{Path, PathBuf};
use std::process::{Command, Stdio};
use trion::arm6m::asm::Instruction;
use trion::arm6m::reg::Register;
use trion::arm6m::regset::RegisterSet;
use verif_harness::codec::*;
use verif_harness::*;

fn bin_dir() -> PathBuf
{
	match std::env::var("VERIF_BIN_DIR")
	{
		Ok(d) if !d.is_empty() => PathBuf::from(d),
		_ => Path::new(env!("CARGO_MANIFEST_DIR")).join("../.build/target_repo/release"),
	}
}

fn tmp_dir() -> PathBuf
{
	match std::env::var("VERIF_TMP")
	{
		Ok(d) if !d.is_empty() => PathBuf::from(d),
		_ => Path::new(env!("CARGO_MANIFEST_DIR")).join(format!("../.build/run/C20/tmp_replay_{}", std::process::id())),
	}
}

fn status_text(st: &std::process::ExitStatus) -> String
{
	match st.code() { Some(0) => "ok".into(), Some(101) => "panic".into(), Some(c) => format!("exit{}", c), None => "signal".into() }
}

/// UF2: 512-byte blocks; target address at offset 12, payload size at offset 16, payload at offset 32.
fn read_uf2(data: &[u8]) -> BTreeMap<u32, Vec<u8>>
{
	let mut m = BTreeMap::new();
	for blk in data.chunks(512)
	{
		if blk.len() < 512 { break; }
		let addr = u32::from_le_bytes([blk[12], blk[13], blk[14], blk[15]]);
		let size = u32::from_le_bytes([blk[16], blk[17], blk[18], blk[19]]) as usize;
		if size <= 476 { m.insert(addr, blk[32..32 + size].to_vec()); }
	}
	m
}

fn image_at(m: &BTreeMap<u32, Vec<u8>>, base: u32, len: usize) -> Option<Vec<u8>>
{
	let mut out = Vec::new();
	for k in 0..len
	{
		let a = base.wrapping_add(k as u32);
		let hit = m.range(..=a).next_back().and_then(|(s, d)| d.get((a - s) as usize).copied());
		match hit { Some(b) => out.push(b), None => break }
	}
	if out.is_empty() && len > 0 { None } else { Some(out) }
}

/// run `exe args..` with stdout redirected into `stdout_to` (stderr discarded); a run longer than 8 s is killed (status timeout)
fn run_exe(exe: &Path, args: &[&Path], stdout_to: &Path) -> String
{
	let f = std::fs::File::create(stdout_to).unwrap();
	let mut child = Command::new(exe).args(args).stdin(Stdio::null()).stdout(Stdio::from(f)).stderr(Stdio::null())
		.spawn().expect("cannot run the trion executable (extra_build step of props/C20.json missing?)");
	let t0 = std::time::Instant::now();
	loop
	{
		match child.try_wait().unwrap()
		{
			Some(st) => return status_text(&st),
			None if t0.elapsed().as_secs() >= 8 => { let _ = child.kill(); let _ = child.wait(); return "timeout".into(); },
			None => std::thread::sleep(std::time::Duration::from_micros(if t0.elapsed().as_millis() < 20 { 200 } else { 5000 })),
		}
	}
}

fn run_case(case: &str, dir: &Path) -> String
{
	let t: Vec<&str> = case.split_whitespace().collect();
	// G <n hex> <kind>: a large binary described, not spelled out (well formed by construction): kind `run` = n x `SUBS R1,R1,1`
	// then BX LR; kind `call` = BL to the code behind n NOPs, BX LR, and there MOVS R0,1; BX LR.  The result states
	// whether the re-assembled image equals the binary (the comparison is made here, the texts would be megabytes).
	let big = t[0] == "G";
	let bin = if !big { parse_hex_bytes(t[1]) } else
	{
		let n = usize::from_str_radix(t[1], 16).unwrap();
		let mut v: Vec<u8> = Vec::with_capacity(2 * n + 16);
		if t[2] == "run" { for _ in 0..n { v.extend_from_slice(&0x3901u16.to_le_bytes()); } v.extend_from_slice(&0x4770u16.to_le_bytes()); }
		else
		{
			let bl = Instruction::Bl{off: (2 * n + 2) as i32};
			v.extend_from_slice(&enc(&bl));
			for _ in 0..n { v.extend_from_slice(&0xBF00u16.to_le_bytes()); }
			v.extend_from_slice(&0x4770u16.to_le_bytes());
			v.extend_from_slice(&0x2001u16.to_le_bytes()); v.extend_from_slice(&0x4770u16.to_le_bytes());
		}
		v
	};
	std::fs::create_dir_all(dir).unwrap();
	let code = dir.join("code.bin"); let asm = dir.join("listing.asm"); let uf2 = dir.join("out.uf2"); let log = dir.join("trias.out");
	let _ = std::fs::remove_file(&uf2);
	std::fs::write(&code, &bin).unwrap();
	let tridas = run_exe(&bin_dir().join("tridas"), &[&code], &asm);
	let listing = std::fs::read(&asm).unwrap_or_default();
	let mut trias = "skipped".to_string();
	let mut image = "absent".to_string();
	if tridas == "ok"
	{
		trias = run_exe(&bin_dir().join("trias"), &[&asm, &uf2], &log);
		if trias == "ok"
		{
			match std::fs::read(&uf2)
			{
				Ok(data) => { if let Some(img) = image_at(&read_uf2(&data), 0x20000000, bin.len()) { image = hex_bytes(&img); } },
				Err(_) => { trias = "rejected".into(); },      // trias reports errors on stderr, exits 0 and writes no file
			}
		}
	}
	for f in [&code, &asm, &uf2, &log] { let _ = std::fs::remove_file(f); }
	// a killed run may have written an arbitrarily long partial listing: not reported
	if big
	{
		let lines = listing.iter().filter(|&&b| b == b'\n').count();
		return format!("tridas={} trias={} image_eq={} len={:x} listing_lines={:x}", tridas, trias, if image == hex_bytes(&bin) { 1 } else { 0 }, bin.len(), lines);
	}
	let shown = if tridas == "timeout" { "-".to_string() } else { hex_bytes(&listing) };
	format!("listing={} | tridas={} trias={} image@0x20000000={}", shown, tridas, trias, image)
}

// ---------------------------------------------------------------- generators

fn enc(i: &Instruction) -> Vec<u8>
{
	let mut buf = [0u8; 4];
	let n = i.encode(&mut buf).expect("generator built an unencodable instruction");
	buf[..n].to_vec()
}

fn is_alias(h: u16) -> bool { (h >> 10) == 7 && ((h >> 3) & 7) == (h & 7) }

/// Decodable 16-bit patterns grouped by instruction kind (without ADR, literal LDR, branches, the alias patterns).
struct Pools { plain: Vec<Vec<u16>>, term: Vec<Vec<u16>>, undecodable: Vec<u16> }

fn pools() -> Pools
{
	let mut plain: BTreeMap<String, Vec<u16>> = BTreeMap::new();
	let mut term: BTreeMap<String, Vec<u16>> = BTreeMap::new();
	let mut undecodable = Vec::new();
	for h in 0..=0xFFFFu32
	{
		let h = h as u16;
		match Instruction::decode(&h.to_le_bytes())
		{
			Ok((2, i)) =>
			{
				if matches!(i, Instruction::Adr{..} | Instruction::B{..} | Instruction::Ldr{addr: Register::PC, ..}) || is_alias(h) { continue; }
				let name = fmt_instr(&i).split(' ').next().unwrap().to_string();
				if i.get_returns() { plain.entry(name).or_default().push(h); } else { term.entry(name).or_default().push(h); }
			},
			Ok(_) => (),
			Err(_) => { if (h >> 11) < 29 { undecodable.push(h); } },
		}
	}
	Pools{ plain: plain.into_values().collect(), term: term.into_values().collect(), undecodable }
}

#[derive(Clone)]
enum Slot
{
	Fixed(Vec<u8>),
	/// cond 14 = B (always), 15 = BL, else B<cond>; target = slot index, or a raw byte offset for the malformed stream
	Br{cond: u8, target: usize, raw: Option<i64>},
}

fn slot_len(s: &Slot) -> usize { match s { Slot::Fixed(b) => b.len(), Slot::Br{cond: 15, ..} => 4, Slot::Br{..} => 2 } }

fn plain_instr(p: &Pools, rng: &mut Rng) -> Vec<u8>
{
	let k = rng.below(p.plain.len() as u64 + 5) as usize;
	if k < p.plain.len()
	{
		let h = *rng.pick(&p.plain[k]);
		let (_, i) = Instruction::decode(&h.to_le_bytes()).unwrap();
		return enc(&i);
	}
	let low = |rng: &mut Rng| { let r = [0u8, 1, 2, 3, 4, 5, 6, 7, 8, 9, 10, 11, 12, 14]; reg(*rng.pick(&r)) };
	match k - p.plain.len()
	{
		0 => enc(&Instruction::Msr{dst: sys(*rng.pick(&SYSREGS)), src: low(rng)}),
		1 => enc(&Instruction::Mrs{dst: low(rng), src: sys(*rng.pick(&SYSREGS))}),
		2 => enc(&Instruction::Dmb),
		3 => enc(&Instruction::Dsb),
		_ => enc(&Instruction::Isb),
	}
}

fn terminal_instr(p: &Pools, rng: &mut Rng) -> Slot
{
	match rng.below(10)
	{
		0 | 1 => Slot::Fixed(enc(&Instruction::Bx{off: reg(rng.below(15) as u8)})),
		2 | 3 => Slot::Fixed(enc(&Instruction::Pop{registers: RegisterSet::of(0x8000 | (rng.next() as u16 & 0xFF))})),
		4 | 5 => Slot::Br{cond: 14, target: 0, raw: None},
		6 => Slot::Fixed(enc(&Instruction::Udf{info: rng.next() as u8})),
		7 => Slot::Fixed(enc(&Instruction::Udfw{info: rng.next() as u16})),
		8 => Slot::Fixed(enc(&Instruction::Bkpt{info: rng.next() as u8})),
		_ =>
		{
			let k = rng.below(p.term.len() as u64) as usize;
			let h = *rng.pick(&p.term[k]);
			let (_, i) = Instruction::decode(&h.to_le_bytes()).unwrap();
			Slot::Fixed(enc(&i))
		},
	}
}

/// A program of segments; every segment but possibly the last ends in a terminal instruction; the start of each
/// later segment is the target of a branch placed in an earlier (hence reachable) segment.
fn gen_slots(p: &Pools, rng: &mut Rng, alias: bool) -> Vec<Slot>
{
	let total = match rng.below(10) { 0 | 1 | 2 => rng.range(1, 6), 3..=7 => rng.range(5, 60), _ => rng.range(60, 150) } as usize;
	let nseg = if total < 3 { 1 } else { (1 + (if rng.chance(1, 2) { 0 } else { rng.below(5) })).min(total as u64 / 2).max(1) as usize };
	let mut segs: Vec<Vec<Slot>> = Vec::new();
	for s in 0..nseg
	{
		let body = total / nseg;
		let mut v = Vec::new();
		for _ in 0..body.saturating_sub(1)
		{
			if rng.chance(1, 5)
			{
				let cond = if rng.chance(1, 3) { 15 } else { rng.below(14) as u8 };
				v.push(Slot::Br{cond, target: usize::MAX, raw: None});
			}
			else if alias && rng.chance(1, 6)
			{
				let r = rng.below(8) as u16;
				let h = 0x1C00 | ((rng.below(2) as u16) << 9) | ((rng.below(8) as u16) << 6) | (r << 3) | r;
				v.push(Slot::Fixed(h.to_le_bytes().to_vec()));
			}
			else { v.push(Slot::Fixed(plain_instr(p, rng))); }
		}
		if s + 1 < nseg || rng.chance(7, 8) || v.is_empty() { v.push(terminal_instr(p, rng)); }
		segs.push(v);
	}
	// reserved branches: segment s+1 is entered from a branch inserted into the body of a segment <= s
	// (targets are recorded as (segment, 0) and turned into slot indices after flattening)
	let mut reserved: Vec<(usize, usize, usize)> = Vec::new();       // (segment, position in segment, target segment)
	for s in 0..nseg.saturating_sub(1)
	{
		let from = if rng.chance(2, 3) { s } else { rng.below(s as u64 + 1) as usize };
		let pos = rng.below(segs[from].len() as u64) as usize;        // before the terminal at the latest
		let cond = if rng.chance(1, 2) { 15 } else { rng.below(14) as u8 };
		segs[from].insert(pos, Slot::Br{cond, target: usize::MAX - 1, raw: None});
		for r in reserved.iter_mut() { if r.0 == from && r.1 >= pos { r.1 += 1; } }
		reserved.push((from, pos, s + 1));
	}
	let mut starts = Vec::new();
	let mut flat: Vec<Slot> = Vec::new();
	for v in &segs { starts.push(flat.len()); flat.extend(v.iter().cloned()); }
	for (from, pos, to) in reserved
	{
		if let Slot::Br{target, ..} = &mut flat[starts[from] + pos] { *target = starts[to]; }
	}
	flat
}

/// lay out, choose the free targets (any instruction boundary in range, forward or backward), encode
fn assemble(slots: &mut Vec<Slot>, rng: &mut Rng) -> Option<Vec<u8>>
{
	let mut offs = Vec::new();
	let mut o = 0usize;
	for s in slots.iter() { offs.push(o); o += slot_len(s); }
	let mut out = Vec::new();
	for k in 0..slots.len()
	{
		match slots[k].clone()
		{
			Slot::Fixed(b) => out.extend(b),
			Slot::Br{cond, target, raw} =>
			{
				let here = offs[k] as i64 + 4;
				let (lo, hi) = match cond { 14 => (-2048, 2046), 15 => (-16777216, 16777214), _ => (-256, 254) };
				let off = match raw
				{
					Some(t) => t - here,
					None =>
					{
						let t = if target < slots.len() { target } else
						{
							let cands: Vec<usize> = (0..slots.len()).filter(|&j| { let d = offs[j] as i64 - here; d >= lo && d <= hi }).collect();
							*rng.pick(&cands)
						};
						slots[k] = Slot::Br{cond, target: t, raw: None};
						offs[t] as i64 - here
					},
				};
				if off < lo || off > hi { return None; }
				let i = match cond { 15 => Instruction::Bl{off: off as i32}, c => Instruction::B{cond: verif_harness::codec::cond(c), off: off as i32} };
				out.extend(enc(&i));
			},
		}
	}
	Some(out)
}

fn gen_wf(p: &Pools, rng: &mut Rng, alias: bool) -> (Vec<Slot>, Vec<u8>)
{
	loop
	{
		let mut slots = gen_slots(p, rng, alias);
		if let Some(b) = assemble(&mut slots, rng) { if b.len() >= 2 && b.len() <= 400 { return (slots, b); } }
	}
}

fn gen_malformed(p: &Pools, rng: &mut Rng) -> Vec<u8>
{
	let (mut slots, good) = gen_wf(p, rng, false);
	let total: usize = slots.iter().map(slot_len).sum();
	match rng.below(9)
	{
		0 => { let n = rng.range(1, 20) as usize; (0..n).flat_map(|_| (rng.next() as u16).to_le_bytes()).collect() },      // random halfwords
		1 =>
		{	// an undecodable halfword (16-bit, or a 32-bit pattern) at a random boundary
			let k = rng.below(slots.len() as u64 + 1) as usize;
			let bad = if rng.chance(2, 3) { rng.pick(&p.undecodable).to_le_bytes().to_vec() } else { vec![0x00, 0xE8, rng.next() as u8, rng.next() as u8] };
			slots.insert(k, Slot::Fixed(bad));
			for s in slots.iter_mut() { if let Slot::Br{target, ..} = s { if *target >= k && rng.chance(1, 2) { *target += 1; } } }
			assemble(&mut slots, rng).unwrap_or(good)
		},
		2 =>
		{	// tail behind the last instruction: unreachable when that one is terminal
			let mut b = good;
			match rng.below(3)
			{
				0 => b.extend(rng.pick(&p.undecodable).to_le_bytes()),
				1 => { b.extend(plain_instr(p, rng)); b.extend([0x70, 0x47]); },
				_ => b.extend((rng.next() as u16).to_le_bytes()),
			}
			b
		},
		3 | 4 =>
		{	// a branch leaving the file: behind the end, exactly the end, before the start
			let brs: Vec<usize> = (0..slots.len()).filter(|&k| matches!(slots[k], Slot::Br{..})).collect();
			if brs.is_empty() { let mut b = good; b.extend([0x00, 0xD0]); return b; }                                        // BEQ to 4 bytes behind itself
			let k = *rng.pick(&brs);
			let t = match rng.below(4) { 0 => total as i64, 1 => total as i64 + 2 * rng.range(1, 40), 2 => -2 * rng.range(1, 40), _ => total as i64 + 2 };
			if let Slot::Br{raw, ..} = &mut slots[k] { *raw = Some(t); }
			assemble(&mut slots, rng).unwrap_or(good)
		},
		5 =>
		{	// a branch into the middle of a 32-bit instruction
			let mut offs = Vec::new(); let mut o = 0; for s in &slots { offs.push(o); o += slot_len(s); }
			let wide: Vec<usize> = (0..slots.len()).filter(|&k| slot_len(&slots[k]) == 4).collect();
			let brs: Vec<usize> = (0..slots.len()).filter(|&k| matches!(slots[k], Slot::Br{..})).collect();
			if wide.is_empty() || brs.is_empty() { return vec![0x00, 0xF0, 0x00, 0xF8, 0xFD, 0xE7]; }                       // BL +0 ; B into the BL
			let k = *rng.pick(&brs); let w = *rng.pick(&wide);
			if let Slot::Br{raw, ..} = &mut slots[k] { *raw = Some(offs[w] as i64 + 2); }
			assemble(&mut slots, rng).unwrap_or(good)
		},
		6 =>
		{	// truncated 32-bit instruction at the end
			let mut b = good;
			b.extend(match rng.below(3) { 0 => enc(&Instruction::Udfw{info: rng.next() as u16}), 1 => enc(&Instruction::Bl{off: 0}), _ => enc(&Instruction::Dsb) });
			let cut = if rng.chance(1, 3) { 1 } else { 2 };
			b.truncate(b.len() - cut);
			b
		},
		7 => { let mut b = good; if rng.chance(1, 2) { b.push(rng.next() as u8); } else { b.pop(); } b },                      // odd length
		_ =>
		{	// overwrite one halfword of a good binary
			let mut b = good;
			let k = 2 * rng.below(b.len() as u64 / 2) as usize;
			let h = (rng.next() as u16).to_le_bytes();
			b[k] = h[0]; b[k + 1] = h[1];
			b
		},
	}
}

fn main()
{
	quiet_panics();
	let mut out = Out::new();
	let dir = tmp_dir();
	let (thorough, seed, shard, nshards) = match mode()
	{
		Mode::Replay =>
		{
			for c in replay_cases() { let r = run_case(&c, &dir); out.line(&c, &r); }
			let _ = std::fs::remove_dir_all(&dir);
			return;
		},
		Mode::Gen{thorough, seed, shard, nshards} => (thorough, seed, shard, nshards),
	};
	let mut sh = Shard{k: 0, shard, n: nshards};
	let mut rng = Rng::new(seed);
	let p = pools();
	let mut emit_c = |c: String, out: &mut Out| { if sh.mine() { let r = run_case(&c, &dir); out.line(&c, &r); } };
	macro_rules! emit { ($b:expr, $o:expr) => { emit_c(format!("B {}", hex_bytes($b)), $o) } }
	// binaries larger than any buffer size one might think of (64 KiB, the 264 KiB of RP2040 SRAM, 1 MiB)
	// (and a call across more than 4 MiB: BL reaches +-16 MiB)
	for (n, kind) in [(0x8000usize, "run"), (0x21000, "run"), (0x21100, "call"), (0x80010, "run"), (0x200100, "call")] { if thorough || n < 0x80000 || kind == "call" { emit_c(format!("G {:x} {}", n, kind), &mut out); } }
	// fixed corpus; the witness of the known finding F24 (addsub_imm3_alias) first
	// (…, then instructions that are NOT terminal followed by code reachable only by fall-through: POP without PC,
	// PUSH, a conditional branch, BLX, SVC, WFI; seeded change C20-3 needs the first one; before them two binaries whose function is placed BEFORE its only
	// caller and is reachable only through a backward BL / B<cond>)
	let corpus: [&str; 24] = ["241c7047", "01e000bf7047fff7fcff7047", "01e000bf7047fcd07047", "01bc00bf7047", "f0bc01b47047", "00d100bf7047", "884700bf7047", "05df00bf7047", "30bf00bf7047", "7047", "00bf7047", "fee7", "fff7feff7047", "00bd", "00be", "00de", "f0f700a0",
		"00d000bf7047", "00f001f8704700bf7047", "8746", "8744", "bff34f8f80f30088eff305807047", "00bf", "fdd17047"];
	for c in corpus { emit!(&parse_hex_bytes(c), &mut out); }
	// the two witnesses of the repaired listing defects (F19 header, F6 MOVS / SEV)
	emit!(&[0x01, 0x20, 0x40, 0xBF, 0x70, 0x47], &mut out);
	// audit: inputs no generated case reaches — the empty file (header line only), a single byte, and a binary far longer
	// than the 400-byte limit of the generators (600 NOPs, a BL back to the first instruction, BX LR: 1206 bytes)
	// a branch to the instruction right behind it (B stops the linear decode, the target must still be queued), also B<c> / BL
	for c in ["ffe701207047", "ffd001207047", "00f000f801207047", "ffe7ffe7ffe77047", "00bfffe77047", "ffe700bffce7"] { emit!(&parse_hex_bytes(c), &mut out); }
	emit!(&[], &mut out);
	emit!(&[0x00], &mut out);
	{
		let mut long: Vec<u8> = Vec::new();
		for _ in 0..600 { long.extend(enc(&Instruction::Nop)); }
		long.extend(enc(&Instruction::Bl{off: -1204}));
		long.extend(enc(&Instruction::Bx{off: reg(14)}));
		emit!(&long, &mut out);
	}
	// every decodable 16-bit pattern that falls through, once: straight-line binaries of 120 instructions + BX LR
	{
		let all: Vec<u16> = p.plain.iter().flatten().copied().collect();
		for chunk in all.chunks(120)
		{
			let mut b: Vec<u8> = Vec::with_capacity(2 * chunk.len() + 2);
			for h in chunk { b.extend_from_slice(&h.to_le_bytes()); }
			b.extend_from_slice(&0x4770u16.to_le_bytes());
			emit!(&b, &mut out);
		}
	}
	let n = if thorough { 50_000 } else { 1_000 };
	for _ in 0..n
	{
		let b = match rng.below(40)
		{
			0 => gen_wf(&p, &mut rng, true).1,             // small separate part: T1 ADDS/SUBS Rd,Rd,#imm3 patterns
			1..=10 => gen_malformed(&p, &mut rng),
			_ => gen_wf(&p, &mut rng, false).1,
		};
		emit!(&b, &mut out);
	}
	drop(emit_c);
	let _ = std::fs::remove_dir_all(&dir);
}
