//! C06: every input yields success or diagnostics, never a crash.
//!   P <hex source> [EXPECT-DIAG] [POS <hex file name> <line> <col>]        single file (named p.asm)
//!   F <hex name> <hex bytes> ; ... ; ROOT <hex name> [EXPECT-DIAG] [POS ...] project on disk (harness/src/projrun.rs)
//!       => status=<panic|success|failure|close-error> diags=<class@hexfile:line:col,...|-> regions=<addr:hex,...|->
//! Generator families:
//!   (a) valid programs: regions, labels, instructions in many spellings (stmtgen), data directives, .align, .const,
//!       forward and backward references, included files with their own labels;
//!       expressions over ALL operators (harness/src/exprgen.rs) on names that are declared before the use and valued
//!       later (`.global G; ... .const G, v;` / `G:`; `.import X;` in an included file, X valued by the includer);
//!   (b) one mutation operator per invalid construct named by the property; the generator lays the text out, so it
//!       knows the position of the invalid statement (tag POS, only when the unmutated program assembles cleanly);
//!       an undefined symbol / a never-valued `.global` (or `.import` of one) is put into EVERY operand position
//!       that takes an expression (exprgen::TEMPL + `.align`, `.addr`, `.const`), inside expressions of any shape;
//!       ill-typed operands (a register or a string inside arithmetic): tag EXPECT-DIAG where a diagnostic is
//!       certain (a string anywhere, a register in a directive), tag ILLTYPED otherwise (only "no panic" and the
//!       generic clauses are judged);
//!   (c) byte-level mutations of (a) and (b): flip, delete, duplicate, structural bytes, fragments, slices.
#[path = "../projrun.rs"]
mod projrun;
use projrun::*;
use trion::arm6m::asm::{ImmReg, Instruction};
use trion::arm6m::reg::Register;
use verif_harness::stmtgen::*;
use verif_harness::*;
#[path = "../exprgen.rs"]
mod exprgen;
use exprgen::{Ex, Iv, Leaves, TEMPL};

const ROOT: &str = "p.asm";

// ------------------------------------------------------------------------------------------------ running

fn run_case(case: &str) -> String
{
	let t: Vec<&str> = case.split_whitespace().collect();
	let proj = if t.first() == Some(&"P") && t.len() >= 2 { Some(Project::single(ROOT, &parse_hex_bytes(t[1]))) }
		else { Project::parse_case(case).map(|(p, _)| p) };
	match proj
	{
		None => "status=bad-case diags=- regions=-".to_string(),
		Some(p) => if p.files.len() == 1 && p.root == ROOT
		{
			// single file: nothing needs to exist on disk
			fmt_result(&run_pipeline(&p.files[0].1, ROOT))
		}
		else { fmt_result(&p.run()) },
	}
}

// ------------------------------------------------------------------------------------------------ layout

/// joins statements with random separators; returns the text and the (line, col) of every statement's first character
fn layout(stmts: &[String], rng: &mut Rng, style: u64) -> (String, Vec<(u32, u32)>)
{
	let mut s = String::new();
	let mut pos = Vec::new();
	match style { 2 => s.push_str("// header\n"), 3 => s.push_str("/* multi\n   line */ "), 4 => s.push_str("\n\n\t"), _ => () }
	for st in stmts
	{
		let line = 1 + s.bytes().filter(|&b| b == b'\n').count() as u32;
		let col = 1 + s[s.rfind('\n').map(|i| i + 1).unwrap_or(0)..].chars().count() as u32;
		pos.push((line, col));
		s.push_str(st);
		let sep = match style
		{
			0 => "\n",
			1 => " ",
			_ => *rng.pick(&["\n", "\n", "\n", " ", "  ", "\t", "\n\n", "\r\n", " // c\n", " /* c */ ", "\n\t", " /* é\n ü */\n", ""]),
		};
		// a label directly followed by the next token is fine ("L:NOP;"), a statement ends in ';'
		s.push_str(sep);
	}
	(s, pos)
}

// ------------------------------------------------------------------------------------------------ (a) valid programs

struct G { rng: Rng, uniq: u32 }

fn is_pcrel(i: &Instruction) -> bool
{
	matches!(i, Instruction::Adr{..} | Instruction::B{..} | Instruction::Bl{..} | Instruction::Ldr{addr: Register::PC, off: ImmReg::Immediate(_), ..})
}

fn lines_of(s: &str, out: &mut Vec<String>) { for l in s.split('\n') { if !l.trim().is_empty() { out.push(l.trim().to_string()); } } }

fn lit(v: i64, rng: &mut Rng) -> String
{
	if v < 0 { return format!("-{}", (v as i128).unsigned_abs()); }
	match rng.below(6) { 0 => format!("0x{:X}", v), 1 => format!("0x{:x}", v), 2 => format!("0b{:b}", v), 3 => format!("0o{:o}", v), _ => format!("{}", v) }
}

/// one statement from exprgen::TEMPL (value operands only, no PC-relative target: addresses are not tracked here) whose
/// operand is an expression over `names` (exact values or intervals) that mentions one of `must`; the value is kept in
/// range by construction (interval arithmetic), by `& mask` or by adding the constant that gives a chosen value
fn deferred_stmt(rng: &mut Rng, names: &[(Ex, Iv)], must: &[String]) -> String
{
	let kind0: Vec<usize> = (0..TEMPL.len()).filter(|&i| TEMPL[i].kind == 0).collect();
	let t = &TEMPL[*rng.pick(&kind0)];
	let depth = 1 + rng.below(4) as u32;
	let (e, (lo, hi)) = exprgen::gen_with(rng, depth, &Leaves{names, kmask: i64::MAX}, must);
	let pow2 = t.mask & (t.mask + 1) == 0;
	let e = if pow2 && lo >= t.plus as i128 && hi <= (t.plus + t.mask) as i128 && rng.chance(2, 3) { e }
		else if lo == hi && rng.chance(1, 2)
		{
			let w = t.plus + (rng.next() as i64 & t.mask);
			match exprgen::close_exact(e.clone(), lo as i64, w, rng) { Some(x) => x, None => exprgen::close_mask(e, t.mask, t.plus) }
		}
		else { exprgen::close_mask(e, t.mask, t.plus) };
	let minimal = rng.chance(1, 2);
	format!("{};", t.text.replace("{}", &exprgen::show(&e, rng, minimal)))
}

/// a self-contained run of statements (own labels, own constants) that can be placed in any region or file
/// `tag` keeps stmtgen's generated constant names unique per file; label/constant names of this generator repeat across files
fn chunk(g: &mut G, max: u64) -> Vec<String>
{
	let n = 2 + g.rng.below(max) as usize;
	let is_label: Vec<bool> = (0..n).map(|_| g.rng.chance(1, 5)).collect();
	let labels: Vec<(usize, String)> = is_label.iter().enumerate().filter(|(_, &l)| l).enumerate().map(|(k, (i, _))| (i, format!("L{}", k))).collect();
	let mut consts: Vec<(String, i64)> = Vec::new();
	let mut out: Vec<String> = Vec::new();
	let mut post: Vec<String> = Vec::new();
	// names that are used before they have a value: G<k> declared by `.global` first, H<k> plain forward references;
	// the value comes at the end of the chunk (a `.const` with a value known here, or a label: an address below 0x20000)
	let mut defs: Vec<(String, Iv)> = Vec::new();
	if g.rng.chance(1, 2)
	{
		for k in 0..1 + g.rng.below(2)
		{
			let declared = g.rng.chance(2, 3);
			let name = format!("{}{}", if declared { "G" } else { "H" }, k);
			if declared { out.push(format!(".global {};", name)); }
			if g.rng.chance(2, 3)
			{
				let v = match g.rng.below(4) { 0 => g.rng.range(0, 300), 1 => g.rng.range(0, 0xFFFF_FFFF), 2 => -g.rng.range(1, 200), _ => g.rng.range(2, 64) };
				post.push(format!(".const {}, {};", name, lit(v, &mut g.rng)));
				defs.push((name, (v as i128, v as i128)));
			}
			else { post.push(format!("{}:", name)); defs.push((name, (0, 0x1FFFF))); }
		}
	}
	for idx in 0..n
	{
		if is_label[idx]
		{
			let name = &labels.iter().find(|(i, _)| *i == idx).unwrap().1;
			out.push(format!(".align {};", g.rng.pick(&["4", "4", "8", "2*2", "0x4"])));
			out.push(format!("{}:", name));
			continue;
		}
		let near: Vec<&(usize, String)> = labels.iter().filter(|(i, _)| (*i as i64 - idx as i64).abs() <= 5).collect();
		match g.rng.below(if defs.is_empty() { 16 } else { 20 })
		{
			16..=19 =>
			{
				// a data value / instruction operand over the not-yet-valued names (and constants, labels of the chunk)
				let mut names: Vec<(Ex, Iv)> = Vec::new();
				for (n, iv) in &defs { for _ in 0..3 { names.push((Ex::Name(n.clone()), *iv)); } }
				for (c, v) in &consts { names.push((Ex::Name(c.clone()), (*v as i128, *v as i128))); }
				for (_, l) in &labels { names.push((Ex::Name(l.clone()), (0, 0x1FFFF))); }
				let must: Vec<String> = defs.iter().map(|(n, _)| n.clone()).collect();
				out.push(deferred_stmt(&mut g.rng, &names, &must));
			},
			0..=4 =>
			{
				// any encodable 16-bit instruction that is not PC-relative, or a 32-bit one
				let i = loop
				{
					let h = g.rng.next() as u16;
					if let Ok((2, i)) = Instruction::decode(&h.to_le_bytes()) { if !is_pcrel(&i) { break i; } }
				};
				let i = if g.rng.chance(1, 12) { *g.rng.pick(&[Instruction::Dmb, Instruction::Dsb, Instruction::Isb, Instruction::Udfw{info: 0x1234}]) } else { i };
				let r = render(&i, 0, &mut g.rng, true, &mut g.uniq);
				lines_of(&r.pre, &mut out); out.push(r.stmt); lines_of(&r.post, &mut post);
			},
			5 | 6 => if labels.is_empty() { out.push("NOP;".into()); } else
			{
				let (_, l) = g.rng.pick(&labels).clone();
				out.push(".align 2;".into());
				out.push(format!("{} {};", g.rng.pick(&["B", "BL", "b", "bl", "B"]), l));
			},
			7 => if near.is_empty() { out.push("WFI;".into()); } else
			{
				let l = &g.rng.pick(&near).1;
				out.push(".align 2;".into());
				out.push(format!("{} {};", g.rng.pick(&["BEQ", "BNE", "BCS", "BHS", "BCC", "BLO", "BMI", "BPL", "BVS", "BVC", "BHI", "BLS", "BGE", "BLT", "BGT", "BLE", "beq"]), l));
			},
			8 =>
			{
				// ADR / LDR literal: forward label with at least one sized statement in between
				let fwd: Vec<&(usize, String)> = labels.iter().filter(|(i, _)| *i > idx + 1 && (idx + 1..*i).any(|k| !is_label[k])).collect();
				if fwd.is_empty() { out.push("YIELD;".into()); } else
				{
					let l = &g.rng.pick(&fwd).1;
					out.push(".align 2;".into());
					out.push(format!("{} R{}, {};", g.rng.pick(&["ADR", "LDR", "adr", "ldr"]), g.rng.below(8), l));
				}
			},
			9 | 10 =>
			{
				let (dir, max) = *g.rng.pick(&[(".du8", 0xFFi64), (".du16", 0xFFFF), (".du32", 0xFFFF_FFFF)]);
				let e = match g.rng.below(6)
				{
					0 | 1 => lit(g.rng.range(0, max), &mut g.rng),
					2 if !consts.is_empty() => { let (c, v) = g.rng.pick(&consts).clone(); if v >= 0 && v <= max { c } else { format!("{} & 0x7F", c) } },
					3 if !labels.is_empty() && max >= 0xFFFF => g.rng.pick(&labels).1.clone(),
					4 if labels.len() >= 2 => format!("({} - {}) & 0x{:X}", g.rng.pick(&labels).1, g.rng.pick(&labels).1, max.min(0xFFFF)),
					5 if !labels.is_empty() && max >= 0xFFFF => format!("{} + {}", g.rng.pick(&labels).1, g.rng.below(16)),
					_ => format!("{} {} {}", g.rng.below(12), g.rng.pick(&["+", "*", "|", "^", "<<"]), g.rng.below(4)),
				};
				out.push(format!("{} {};", dir, e));
			},
			11 => out.push(format!(".dstr {};", g.rng.pick(&["\"text\"", "\"\"", "\"a b;c\"", "\"q\\\"q\"", "\"\\n\\t\\\\\"", "\"é\"", "\"/* no comment */\"", "\"x // y\""]))),
			12 => out.push(format!(".dhex {};", g.rng.pick(&["\"00\"", "\"0A1b\"", "\"de ad be ef\"", "\"\"", "\" 7f\\t80 \""]))),
			13 => out.push(format!(".align {};", g.rng.pick(&["1", "2", "4", "8", "16", "3", "2 + 2"]))),
			_ =>
			{
				let name = format!("C{}", consts.len());
				let (text, v) = match g.rng.below(3)
				{
					0 if !consts.is_empty() => { let (c, v) = g.rng.pick(&consts).clone(); let k = g.rng.range(0, 9); (format!("{} * 2 + {}", c, k), v * 2 + k) },
					1 => { let v = g.rng.range(-300, 300); (format!("({})", lit(v, &mut g.rng)), v) },
					_ => { let v = g.rng.range(0, 255); (lit(v, &mut g.rng), v) },
				};
				out.push(format!(".const {}, {};", name, text));
				consts.push((name, v));
			},
		}
	}
	out.extend(post);
	out
}

#[derive(Clone)]
struct Prog { files: Vec<(String, Vec<String>)> }   // files[0] is the root

const BASES: [&[u32]; 7] = [&[0x1000], &[0x1000, 0x3000], &[0x3000, 0x1000], &[0x0, 0x8000, 0x4000], &[0xF000], &[0x2001], &[0x100, 0x900, 0x500]];

fn valid_prog(g: &mut G, with_includes: bool) -> Prog
{
	let mut root: Vec<String> = Vec::new();
	let mut files: Vec<(String, Vec<String>)> = Vec::new();
	if g.rng.chance(1, 3) { root.push(format!(".const BASE, {};", g.rng.below(64))); }
	let bases = *g.rng.pick(&BASES);
	let mut n_inc = 0;
	for (k, b) in bases.iter().enumerate()
	{
		root.push(format!(".addr {};", match g.rng.below(3) { 0 => format!("0x{:X}", b), 1 => format!("{}", b), _ => format!("0x{:x} + 0", b) }));
		// every region gets its own label namespace by prefixing: regions of one file share the scope
		let body = chunk(g, 14);
		let pre = format!("r{}_", k);
		root.extend(body.into_iter().map(|s| rename(&s, &pre)));
		if with_includes && n_inc < 3 && g.rng.chance(2, 3)
		{
			let name = format!("inc{}.asm", n_inc);
			n_inc += 1;
			let cpre = format!("i{}_", n_inc);
			let mut child: Vec<String> = chunk(g, 10).into_iter().map(|s| rename(&s, &cpre)).collect();
			// a name the root declares before the `.include` and values after it; the included file imports and uses it
			let mut after: Option<String> = None;
			if g.rng.chance(1, 2)
			{
				let x = format!("X{}", n_inc);
				let (iv, def) = if g.rng.chance(2, 3) { let v = g.rng.range(16, 5000); ((v as i128, v as i128), format!(".const {}, {};", x, v)) } else { ((0, 0x1FFFF), format!("{}:", x)) };
				root.push(format!(".global {};", x));
				let names = vec![(Ex::Name(x.clone()), iv)];
				let mut at = 0;
				child.insert(at, format!(".import {};", x));
				for _ in 0..1 + g.rng.below(3)
				{
					at = at + 1 + g.rng.below((child.len() - at) as u64) as usize;
					while at > 1 && child[at - 1].starts_with(".align") { at -= 1; }
					child.insert(at, deferred_stmt(&mut g.rng, &names, &[x.clone()]));
				}
				after = Some(def);
			}
			if g.rng.chance(1, 3) && n_inc < 3
			{
				let gname = format!("inc{}.asm", n_inc);
				n_inc += 1;
				let gpre = format!("i{}_", n_inc);
				let grand: Vec<String> = chunk(g, 6).into_iter().map(|s| rename(&s, &gpre)).collect();
				let mut at = g.rng.below(child.len() as u64 + 1) as usize;
				while at > 0 && child[at - 1].starts_with(".align") { at -= 1; }
				child.insert(at, format!(".include \"{}\";", gname));
				files.push((gname, grand));
			}
			root.push(format!(".include \"{}\";", name));
			files.push((name, child));
			if g.rng.chance(1, 2) { let more = chunk(g, 5); let pre = format!("s{}_", k); root.extend(more.into_iter().map(|s| rename(&s, &pre))); }
			if let Some(def) = after { root.push(def); }
		}
	}
	let mut all = vec![(ROOT.to_string(), root)];
	all.extend(files);
	Prog{files: all}
}

/// prefixes the generator's own names (L<n>, C<n>, G<n>, H<n>) so that several chunks can share one file scope
fn rename(s: &str, pre: &str) -> String
{
	let b: Vec<char> = s.chars().collect();
	let mut out = String::new();
	let mut i = 0;
	let mut in_str = false;
	while i < b.len()
	{
		let c = b[i];
		if c == '"' && (i == 0 || b[i - 1] != '\\') { in_str = !in_str; }
		let start_ident = !in_str && (c == 'L' || c == 'C' || c == 'G' || c == 'H') && (i == 0 || !(b[i - 1].is_alphanumeric() || b[i - 1] == '_' || b[i - 1] == '.'))
			&& i + 1 < b.len() && b[i + 1].is_ascii_digit();
		if start_ident
		{
			let mut j = i + 1;
			while j < b.len() && b[j].is_ascii_digit() { j += 1; }
			if j == b.len() || !(b[j].is_alphanumeric() || b[j] == '_') { out.push_str(pre); }
		}
		out.push(c);
		i += 1;
	}
	out
}

// ------------------------------------------------------------------------------------------------ (b) invalid constructs

#[derive(Clone, Copy, PartialEq)]
enum Place { Anywhere, AfterAddr, BeforeAddr }

/// (class, statement text, where it may go)
fn invalid_stmt_basic(g: &mut G, which: u64) -> (&'static str, String, Place)
{
	use Place::*;
	let rng = &mut g.rng;
	// every reserved name: the 16 core registers with their aliases and the special registers, in any letter case
	let regname = |rng: &mut Rng| rng.pick(&["R0", "r1", "R7", "R8", "r12", "R13", "SP", "sp", "LR", "lr", "PC", "pc", "R15", "Sp", "R2", "r3", "R4", "r5", "R6", "r9", "R10", "r11", "R14",
		"APSR", "apsr", "IAPSR", "iapsr", "EAPSR", "XPSR", "xpsr", "IPSR", "EPSR", "IEPSR", "iepsr", "MSP", "msp", "PSP", "PRIMASK", "primask", "PriMask", "CONTROL", "control", "Control"]).to_string();
	let dirs1 = [".addr", ".align", ".du8", ".du16", ".du32", ".dhex", ".dstr", ".dfile", ".global", ".import", ".export", ".include"];
	match which
	{
		0 => ("reg_const", format!(".const {}, {};", regname(rng), rng.below(100)), Anywhere),
		1 => ("reg_label", format!("{}:", regname(rng)), AfterAddr),
		2 => ("reg_global", format!("{} {};", rng.pick(&[".global", ".import", ".export"]), regname(rng)), Anywhere),
		3 =>
		{
			// wrong argument count for a directive
			let d = *rng.pick(&dirs1);
			let arg = |d: &str, k: u64| -> String { match d { ".dhex" => format!("\"0{}\"", k), ".dstr" | ".dfile" | ".include" => format!("\"f{}\"", k), ".global" | ".import" | ".export" => format!("N{}", k), _ => format!("{}", 4 + k) } };
			let txt = match rng.below(3) { 0 => format!("{};", d), 1 => format!("{} {}, {};", d, arg(d, 0), arg(d, 1)), _ => format!("{} {}, {}, {};", d, arg(d, 0), arg(d, 1), arg(d, 2)) };
			let writes = matches!(d, ".align" | ".du8" | ".du16" | ".du32" | ".dhex" | ".dstr" | ".dfile");
			("dir_argc", txt, if writes { AfterAddr } else { Anywhere })
		},
		4 => ("const_argc", rng.pick(&[".const;", ".const X9;", ".const X9, 1, 2;", ".const X9, 1, 2, 3;"]).to_string(), Anywhere),
		5 =>
		{
			// wrong argument kind for a directive
			let (t, p) = *rng.pick(&[(".addr \"x\";", Anywhere), (".addr R0;", Anywhere), (".addr [4];", Anywhere), (".addr {R0};", Anywhere), (".align \"x\";", AfterAddr), (".align R1;", AfterAddr),
				(".const 5, 5;", Anywhere), (".const X9, \"s\";", Anywhere), (".const \"X9\", 1;", Anywhere), (".const X9, R1;", Anywhere), (".const X9, [1];", Anywhere),
				(".du8 \"s\";", AfterAddr), (".du32 R1;", AfterAddr), (".du16 [1];", AfterAddr), (".du16 {R1};", AfterAddr), (".du8 sp;", AfterAddr),
				(".dhex 5;", AfterAddr), (".dhex X9;", AfterAddr), (".dstr X9;", AfterAddr), (".dstr 7;", AfterAddr), (".dfile 3;", AfterAddr), (".dfile R2;", AfterAddr),
				(".global 5;", Anywhere), (".global \"X9\";", Anywhere), (".import 7;", Anywhere), (".import [X9];", Anywhere), (".export \"s\";", Anywhere), (".export 1 + 1;", Anywhere),
				(".include X9;", Anywhere), (".include 5;", Anywhere), (".include R0;", Anywhere)]);
			("dir_kind", t.to_string(), p)
		},
		6 => ("instr_argc", rng.pick(&["NOP R0;", "ADDS R0;", "MOVS R0, R1, R2, R3;", "BX;", "PUSH;", "POP {R0}, {R1};", "LDR R0;", "B;", "BL 4, 8;", "SVC;", "WFI 1;", "MULS R0, R1, R0, R1;", "CPSIE;", "DMB;", "MRS R0;", "STM R0;", "REV R1;", "UDF.N;"]).to_string(), AfterAddr),
		7 => ("instr_kind", rng.pick(&["PUSH R0;", "LDR R0, \"s\";", "BX 5;", "MOVS 5, R0;", "ADDS R0, R1, \"x\";", "B R0;", "LDM R0, 5;", "POP 3;", "STR R0, {R1};", "BLX \"r\";", "CMP [R0], R1;", "MRS R0, 5;", "MSR 5, R0;", "SVC R0;", "BKPT \"x\";", "LSLS R0, R1, [2];", "ADR 4, 8;", "CPSIE 1;", "DMB 15;", "PUSH {1};", "LDR R0, [5];", "SXTB R0, 1;", "TST R0, \"\";"]).to_string(), AfterAddr),
		8 => ("unknown_mnemonic", rng.pick(&["FOO;", "FOO R0, 1;", "ADDZ R0, R1;", "MOVW R0, 1;", "NOPE;", "LDRD R0, [R1];", "IT EQ;", "B.W 0;", "UDF 1;", "X9 1;", "nopp;", "bx_ R0;"]).to_string(), AfterAddr),
		9 => ("unknown_directive", rng.pick(&[".bar;", ".dU8 1;", ".ADDR 0x100;", ".du64 1;", ".word 5;", ".org 0;", ".Const X9, 1;", ".x;", ".du 8;", ".includes \"p.asm\";", ".globl X9;"]).to_string(), Anywhere),
		10 => ("data_range", rng.pick(&[".du8 256;", ".du8 -1;", ".du8 0x100;", ".du16 65536;", ".du16 -1;", ".du32 4294967296;", ".du32 -1;", ".du32 0 - 1;", ".du8 255 + 1;", ".du16 0x7FFFFFFFFFFFFFFF;", ".du8 1 << 8;",
			".dhex \"0g\";", ".dhex \"0\";", ".dhex \"zz\";", ".dhex \"123\";", ".du32 1 / 0;", ".du32 5 % 0;", ".du32 1 << 64;", ".du8 0x7FFFFFFFFFFFFFFF + 1;", ".du16 -9223372036854775807 - 2;"]).to_string(), AfterAddr),
		11 => ("align_addr_range", rng.pick(&[".align 0;", ".align -4;", ".align 0x100000000;", ".align 1 - 1;", ".addr -1;", ".addr 0x100000000;", ".addr 0 - 4;", ".addr 1 << 32;", ".addr 9223372036854775807 + 1;", ".align 1 / 0;"]).to_string(),
			AfterAddr),
		12 => ("instr_range", rng.pick(&["MOVS R0, 256;", "MOVS R1, -1;", "ADDS R0, R0, 256;", "ADDS R0, R1, 8;", "SUBS R2, R2, 256;", "LSLS R0, R1, 32;", "LSRS R0, R1, 33;", "ASRS R0, R1, -1;", "BKPT 256;", "SVC -1;", "SVC 256;", "UDF.N 256;", "UDF.W 65536;",
			"LDR R0, [R1 + 128];", "LDR R0, [R1 + 2];", "LDRB R0, [R1 + 32];", "LDRH R0, [R1 + 1];", "STR R0, [SP + 1024];", "ADD SP, SP, 512;", "ADD R0, SP, 1021;", "CMP R0, 256;", "MOVS R8, 1;", "ADCS R8, R0;", "PUSH {R8};", "POP {LR};", "LDM R8, {R0};", "RSBS R0, R1, 1;",
			"MOVS R0, 0x7FFFFFFFFFFFFFFF + 1;", "MOVS R0, 1 / 0;"]).to_string(), AfterAddr),
		13 =>
		{
			// branch / literal target out of range or misaligned, written relative to a label placed right before the statement
			let far = *rng.pick(&[("B", 2052i64), ("B", -2046), ("BEQ", 260), ("BNE", -254), ("BL", 16777220), ("BL", -16777214), ("B", 5), ("BL", 7), ("BGT", 3), ("ADR R0,", 1028), ("ADR R1,", -4), ("ADR R2,", 6), ("LDR R3,", 1028), ("LDR R4,", -8), ("LDR R0,", 10), ("B", 0x100000000), ("BL", -0x100000000)]);
			("branch_range", format!("{} HERE9 {} {};", far.0, if far.1 < 0 { "-" } else { "+" }, far.1.abs()), AfterAddr)   // preceded by ".align 4; HERE9:" (inserted by the caller)
		},
		14 => ("undefined", rng.pick(&[".du32 UNDEF9;", ".du8 UNDEF9 + 1;", "B UNDEF9;", "BL UNDEF9;", "BEQ UNDEF9;", ".const X9, UNDEF9;", "MOVS R0, UNDEF9;", "LDR R0, UNDEF9;", "ADR R0, UNDEF9;", "LDR R0, [R1 + UNDEF9];", ".align UNDEF9;", ".addr UNDEF9;",
			".export UNDEF9;", ".import UNDEF9;", ".global UNDEF9;", "ADDS R0, R0, UNDEF9;", "SVC UNDEF9;", ".du16 (UNDEF9 & 3) & 5;", ".du32 1 + (2 * UNDEF9);"]).to_string(), AfterAddr),
		15 => ("duplicate", String::new(), AfterAddr),     // built by the caller from an existing definition
		16 => ("dup_global", rng.pick(&[".global DG9;\n.global DG9;", ".const DG9, 1;\n.export DG9;\n.export DG9;", ".const DG9, 1;\n.global DG9;\n.export DG9;", ".const DG9, 1;\n.export DG9;\n.global DG9;", ".const DG9, 1;\n.const DG9, 1;", ".const DG9, 1;\n.const DG9, 2;"]).to_string(), Anywhere),
		_ => ("before_addr", rng.pick(&["NOP;", ".du8 1;", ".du16 1;", ".du32 1;", ".dstr \"x\";", ".dhex \"00\";", ".align 4;", "L9:", ".dfile \"p.asm\";", "B 0;", "PUSH {R0};", "BL 8;", "UDF.W 1;"]).to_string(), BeforeAddr),
	}
}

/// an invalid construct: the statements to insert (in this order, adjacent), which of them gets the first diagnostic,
/// whether a diagnostic is certain (`expect`), and for `never_valued_import` the declaration that goes into the root
struct Inv { class: &'static str, parts: Vec<String>, bad: usize, place: Place, expect: bool, root_decl: Option<String> }

/// directives that need the value at once (an open name is an error there and then)
const IMM_SLOTS: [&str; 4] = [".align {}", ".addr {}", ".const X9, {}", ".align ({}) & 7"];
/// further spellings of operand positions (exprgen::TEMPL has one spelling per position)
const EXTRA_SLOTS: [&str; 16] = ["LDRSB R0, [R1 + ({})]", "LDRSH R2, [R3 + ({})]", "ldrsb r4, [({}) + r5]", "CMP R7, {}", "movs r0, {}", "ldr r0, [r1 + ({})]", "str r3, [sp + ({})]", "b {}", "bl {}", "RSBS R0, R1, {}", "beq {}", "adr r7, {}", "LDR R7, {}",
	"ldrh r1, [r2 + ({})]", "strb r1, [({}) + r2]", "udf.w {}"];
/// ill-typed shapes: # = a register or a string, $ = a constant or a declared name that is valued later
const ILL_SHAPES: [&str; 24] = ["8 / (# / 2)", "(# & 3) & 5", "# + 1", "1 + #", "-#", "!#", "# * 0", "(# + 4) - 4", "# - #", "# / #", "1 << #", "# % 3", "3 % #", "2 + -(# + 3)",
	"16 / 2 / (# / 4)", "(# ^ 5) ^ 5", "(# | 1) | 2", "4 * (# * 2)", "# << 1 >> 1", "$ / (# / $)", "($ + #) - $", "$ - (# - $)", "(# * $) * $", "-(# - $) + $"];

fn pick_slot(rng: &mut Rng) -> (String, bool)
{
	match rng.below(8)
	{
		0 => (rng.pick(&IMM_SLOTS).to_string(), true),
		1 => (rng.pick(&EXTRA_SLOTS).to_string(), false),
		_ => (TEMPL[rng.below(TEMPL.len() as u64) as usize].text.to_string(), false),
	}
}

/// an expression of any shape (depth 0-4) that mentions `name`
fn expr_over(rng: &mut Rng, names: &[(Ex, Iv)], must: &str) -> String
{
	let depth = *rng.pick(&[0u32, 0, 1, 1, 2, 3, 4]);
	// constants below 2^15: the symbolic merge of a chain like `((n / c1) / c2) / c3` multiplies the constants, and an
	// overflow there would be reported at this statement before the end-of-file diagnostic the POS tag names
	let (e, _) = exprgen::gen_with(rng, depth, &Leaves{names, kmask: 0x7FFF}, &[must.to_string()]);
	let minimal = rng.chance(1, 2);
	exprgen::show(&e, rng, minimal)
}

/// an expression over the extremes of i64 (written as the tokenizer can spell them), opaque names (`#`: a register,
/// or a name valued later) and every operator, in both nestings; not kept in range: whatever it evaluates to — a value,
/// an overflow diagnostic, a range diagnostic — the pipeline must neither panic nor fail silently
fn extreme_expr(rng: &mut Rng, opaque: &str, depth: u32) -> String
{
	const K: [&str; 16] = ["(1 << 63)", "9223372036854775807", "(0 - 9223372036854775807 - 1)", "-9223372036854775807", "(0 - 1)", "-1", "0", "1", "2",
		"4294967296", "8589934592", "72057594037927936", "(1 << 62)", "63", "64", "0x7FFFFFFFFFFFFFFF"];
	if depth == 0 { return if rng.chance(2, 5) { opaque.to_string() } else { rng.pick(&K).to_string() }; }
	match rng.below(12)
	{
		0 => format!("-{}", extreme_expr(rng, opaque, depth - 1)),
		1 => format!("!{}", extreme_expr(rng, opaque, depth - 1)),
		_ =>
		{
			let op = *rng.pick(&exprgen::OPS);
			let (dl, dr) = if rng.chance(1, 2) { (depth - 1, rng.below(depth as u64) as u32) } else { (rng.below(depth as u64) as u32, depth - 1) };
			format!("({} {} {})", extreme_expr(rng, opaque, dl), op, extreme_expr(rng, opaque, dr))
		},
	}
}

fn invalid_stmt(g: &mut G) -> Inv
{
	if g.rng.chance(1, 8)
	{
		let rng = &mut g.rng;
		let slot = if rng.chance(1, 2) { rng.pick(&EXTRA_SLOTS).to_string() } else { rng.pick(&[".du32 {}", ".du8 {}", ".du16 {}", ".const XT8, {}", ".du32 1, {}"]).to_string() };
		let depth = 1 + rng.below(3) as u32;
		return match rng.below(3)
		{
			// a name declared now and valued after the statement (the simplifier works on the symbolic expression first)
			0 => { let e = extreme_expr(rng, "XT9", depth); let v = rng.pick(&["9223372036854775807", "(0 - 9223372036854775807 - 1)", "72057594037927936", "-1", "0", "3"]).to_string();
				Inv{class: "extreme_free", parts: vec![".global XT9;".into(), format!("{};", slot.replace("{}", &e)), format!(".const XT9, {};", v)], bad: 1, place: Place::AfterAddr, expect: false, root_decl: None} },
			// a register as the opaque operand
			1 => { let r = rng.pick(&["R1", "r7", "SP", "R8"]).to_string(); let e = extreme_expr(rng, &r, depth);
				Inv{class: "extreme_free", parts: vec![format!("{};", slot.replace("{}", &e))], bad: 0, place: Place::AfterAddr, expect: false, root_decl: None} },
			// constants only
			_ => { let e = extreme_expr(rng, "5", depth);
				Inv{class: "extreme_free", parts: vec![format!("{};", slot.replace("{}", &e))], bad: 0, place: Place::AfterAddr, expect: false, root_decl: None} },
		};
	}
	if g.rng.chance(1, 10)
	{
		// file scope: a constant private to the including file, used (without `.import`) in the included file, in any operand
		// position and inside an expression of any shape: invisible there, a diagnostic at the use
		let rng = &mut g.rng;
		let (slot, _) = pick_slot(rng);
		let names = vec![(Ex::Name("PV9".to_string()), (1i128, 0xFFFFi128))];
		let stmt = format!("{};", slot.replace("{}", &expr_over(rng, &names, "PV9")));
		let v = rng.pick(&["4", "0", "8", "0x20", "100"]).to_string();
		return Inv{class: "private_of_includer", parts: vec![stmt], bad: 0, place: Place::AfterAddr, expect: true, root_decl: Some(format!(".const PV9, {};", v))};
	}
	let k = g.rng.below(27);
	if k < 18
	{
		let (class, text, place) = invalid_stmt_basic(g, k);
		let parts: Vec<String> = text.split('\n').map(|s| s.to_string()).collect();
		let bad = parts.len() - 1;
		return Inv{class, parts, bad, place, expect: true, root_decl: None};
	}
	let rng = &mut g.rng;
	let (slot, immediate) = pick_slot(rng);
	if k < 24
	{
		// a name that never gets a value, in any operand position, inside an expression of any shape
		let which = rng.below(4);
		let name = if which < 2 { "NV9" } else { "UNDEF9" };
		let names = vec![(Ex::Name(name.to_string()), (1i128, 0xFFFFi128))];
		let stmt = format!("{};", slot.replace("{}", &expr_over(rng, &names, name)));
		return match which
		{
			// declared, never valued: the declaration is reported at the end of the file, before the statements that wait for the value
			0 => Inv{class: "never_valued", parts: vec![".global NV9;".into(), stmt], bad: if immediate { 1 } else { 0 }, place: Place::AfterAddr, expect: true, root_decl: None},
			// the same through an included file: declared in the root, imported and used in the file
			1 => Inv{class: "never_valued_import", parts: vec![".import NV9;".into(), stmt], bad: if immediate { 1 } else { 0 }, place: Place::AfterAddr, expect: true, root_decl: Some(".global NV9;".into())},
			_ => Inv{class: "undefined", parts: vec![stmt], bad: 0, place: Place::AfterAddr, expect: true, root_decl: None},
		};
	}
	// ill-typed operand: a register or a string inside arithmetic
	let with_string = rng.chance(1, 4);
	let raw = if with_string { rng.pick(&["\"s\"", "\"\"", "\"ab\""]).to_string() } else { rng.pick(&["R0", "r1", "R7", "R8", "r12", "SP", "sp", "LR", "PC", "R15"]).to_string() };
	let deferred = rng.chance(1, 3);
	let text = if rng.chance(1, 3)
	{
		let shape = rng.pick(&ILL_SHAPES).to_string().replace('#', &raw);
		let mut out = String::new();
		for c in shape.chars() { if c == '$' { if deferred && rng.chance(1, 2) { out.push_str("IT9"); } else { out.push_str(&format!("{}", 2 + rng.below(30))); } } else { out.push(c); } }
		out
	}
	else
	{
		let mut names: Vec<(Ex, Iv)> = vec![(Ex::Raw(raw.clone()), (1, 0xFFFF)); 3];
		if deferred { names.push((Ex::Name("IT9".into()), (24, 24))); names.push((Ex::Name("IT9".into()), (24, 24))); }
		let depth = 1 + rng.below(4) as u32;
		let (e, _) = exprgen::gen_with(rng, depth, &Leaves{names: &names, kmask: i64::MAX}, &[raw.clone()]);
		let minimal = rng.chance(1, 2);
		exprgen::show(&e, rng, minimal)
	};
	let stmt = format!("{};", slot.replace("{}", &text));
	// a diagnostic is certain for a string anywhere and for a register in a directive (neither can become a constant);
	// an instruction operand like `R1 + 0` may legitimately reduce to the register itself
	let expect = with_string || slot.starts_with('.');
	let class = if expect { "ill_typed" } else { "ill_typed_free" };
	if text.contains("IT9") { Inv{class, parts: vec![".global IT9;".into(), stmt, ".const IT9, 24;".into()], bad: 1, place: Place::AfterAddr, expect, root_decl: None} }
	else { Inv{class, parts: vec![stmt], bad: 0, place: Place::AfterAddr, expect, root_decl: None} }
}

/// inserts an invalid construct into a copy of `base`; returns (program, class, file index, statement index of the expected first diagnostic, diagnostic certain)
fn mutate_stmt(g: &mut G, base: &Prog) -> Option<(Prog, &'static str, usize, usize, bool)>
{
	let inv = invalid_stmt(g);
	let (class, place) = (inv.class, inv.place);
	let mut p = base.clone();
	// files included by the root itself (for a declaration in the root that an included file imports)
	let direct: Vec<usize> = (1..p.files.len()).filter(|&i| p.files[0].1.iter().any(|s| *s == format!(".include \"{}\";", p.files[i].0))).collect();
	let import_case = inv.root_decl.is_some() && !direct.is_empty();
	if class == "private_of_includer" && !import_case { return None; }
	// writes before .addr only make sense in the root; everything else may also go into an included file
	let fi = if import_case { *g.rng.pick(&direct) }
		else if place == Place::BeforeAddr || p.files.len() == 1 || g.rng.chance(1, 2) { 0 } else { 1 + g.rng.below(p.files.len() as u64 - 1) as usize };
	let first_addr_root = p.files[0].1.iter().position(|s| s.starts_with(".addr"))?;
	let mut root_pos: Option<usize> = None;
	if import_case
	{
		let inc = p.files[0].1.iter().position(|s| *s == format!(".include \"{}\";", p.files[fi].0))?;
		let mut at = g.rng.below(inc as u64 + 1) as usize;
		while at > 0 && p.files[0].1[at - 1].starts_with(".align") { at -= 1; }
		p.files[0].1.insert(at, inv.root_decl.clone().unwrap());
		root_pos = Some(at);
	}
	let stmts = &mut p.files[fi].1;
	let first_addr = if fi == 0 { first_addr_root } else { 0 };
	if class == "duplicate"
	{
		// define an existing label / constant of this file a second time; the later of the two statements is the invalid one
		let defs: Vec<usize> = stmts.iter().enumerate().filter(|(i, s)| (fi != 0 || *i > first_addr) && (s.ends_with(':') || s.starts_with(".const "))).map(|(i, _)| i).collect();
		if defs.is_empty() { return None; }
		let d = *g.rng.pick(&defs);
		let name = if stmts[d].ends_with(':') { stmts[d][..stmts[d].len() - 1].to_string() } else { stmts[d][7..stmts[d].find(',')?].trim().to_string() };
		// always after the original: a second definition placed before it would change what the references in between mean
		let lo = d + 1;
		let mut at = lo + g.rng.below((stmts.len() - lo) as u64 + 1) as usize;
		while at > lo && stmts[at - 1].starts_with(".align") { at -= 1; }
		let dup = if g.rng.chance(1, 2) { format!("{}:", name) } else { format!(".const {}, {};", name, g.rng.below(9)) };
		stmts.insert(at, dup);
		// a label that moves code may invalidate nothing before it; the expected diagnostic is at the later definition
		let bad = if at <= d { d + 1 } else { at };
		return Some((p, class, fi, bad, true));
	}
	let lo = match place { Place::BeforeAddr => 0, Place::AfterAddr => if fi == 0 { first_addr + 1 } else { 0 }, Place::Anywhere => 0 };
	let hi = match place { Place::BeforeAddr => first_addr, _ => stmts.len() };
	// never between an `.align` and the statement it aligns
	let mut at = lo + g.rng.below((hi - lo) as u64 + 1) as usize;
	while at > lo && stmts[at - 1].starts_with(".align") { at -= 1; }
	let mut ins: Vec<String> = Vec::new();
	if class == "branch_range" { ins.push(".align 4;".into()); ins.push("HERE9:".into()); }
	let lead = ins.len();
	// without an included file to import into, the declaration stands in the file itself
	let parts: Vec<String> = if inv.root_decl.is_some() && !import_case { let mut v = inv.parts.clone(); v[0] = inv.root_decl.clone().unwrap(); v } else { inv.parts.clone() };
	for s in &parts { ins.push(s.to_string()); }
	let bad = at + lead + inv.bad;
	for (k, s) in ins.into_iter().enumerate() { stmts.insert(at + k, s); }
	match root_pos
	{
		Some(r) if inv.bad == 0 && class != "private_of_includer" => Some((p, class, 0, r, inv.expect)),
		_ => Some((p, class, fi, bad, inv.expect)),
	}
}

// ------------------------------------------------------------------------------------------------ (c) byte level

const STRUCT: &[u8] = b"\"'\\/*{}[]();:.,";
const FRAGS: &[&[u8]] = &[b"/*", b"*/", b"//", b"\\\"", b"\\\\", b"'\\''", b"'", b"\"\"", b"0x", b"0b", b".include \"", b".include \"p.asm\";", b": ", b";;", b"{}", b"[[", b"))", b"((", b"\n", b"\r", b"\r\n", b"\xC3\xA9", b"\xC3", b"\xA9",
	b"\\u{", b"\\u{41}", b"\xFF", b"\xF0\x9F\x98\x80", b"\0", b".const ", b".global ", b".export ", b".import ", b".addr ", b"R0", b"SP:", b"- -", b"<<", b">>", b"%0", b"/0", b"9223372036854775807", b"-9223372036854775808", b"0xFFFFFFFF",
	b"+", b"~", b"!", b"@", b"#", b"$", b"`", b"?", b"=", b"\t", b" ", b".", b".du32 ", b"\\x", b"\\x4", b"\\q", b"'ab'", b"''", b"/*/", b"/**/", b"*//*"];

fn mutate_bytes(src: &[u8], rng: &mut Rng) -> Vec<u8>
{
	let mut s = src.to_vec();
	let n = 1 + if rng.chance(1, 4) { rng.below(3) } else { 0 };
	for _ in 0..n
	{
		let len = s.len();
		let at = rng.below(len as u64 + 1) as usize;
		let spots: Vec<usize> = s.iter().enumerate().filter(|(_, b)| STRUCT.contains(b)).map(|(i, _)| i).collect();
		match rng.below(12)
		{
			0 if len > 0 => { let i = at % len; s[i] ^= 1 << rng.below(8); },
			1 if len > 0 => { s.remove(at % len); },
			2 if len > 0 => { let i = at % len; let b = s[i]; s.insert(i, b); },
			3 => s.insert(at, *rng.pick(STRUCT)),
			4 if len > 0 => { let i = at % len; s[i] = *rng.pick(STRUCT); },
			5 if !spots.is_empty() => { s.remove(*rng.pick(&spots)); },
			6 if !spots.is_empty() => { let i = *rng.pick(&spots); let b = s[i]; s.insert(i, b); },
			7 if !spots.is_empty() => { let i = *rng.pick(&spots); s[i] = *rng.pick(STRUCT); },
			8 | 9 => { let f = *rng.pick(FRAGS); for (k, b) in f.iter().enumerate() { s.insert(at + k, *b); } },
			10 if len > 1 =>
			{
				// copy a slice of the text itself to another place
				let a = rng.below(len as u64) as usize; let l = 1 + rng.below(((len - a) as u64).min(24)) as usize;
				let piece: Vec<u8> = s[a..a + l].to_vec();
				for (k, b) in piece.iter().enumerate() { s.insert(at + k, *b); }
			},
			_ if len > 1 => { let a = rng.below(len as u64) as usize; let l = 1 + rng.below(((len - a) as u64).min(16)) as usize; s.drain(a..a + l); },
			_ => s.push(*rng.pick(STRUCT)),
		}
	}
	s
}

/// `.align` pads with real bytes: skip texts whose alignment argument is not a short literal expression
/// (a label or a large number there would make the implementation allocate up to 4 GiB; allocation failure is runtime residue, DESIGN C06)
fn risky_align(src: &[u8]) -> bool
{
	let mut i = 0;
	while i + 5 <= src.len()
	{
		if &src[i..i + 5] == b"align"
		{
			let mut j = i + 5;
			let mut run = 0usize;
			let mut run_starts_digit = true;
			while j < src.len() && src[j] != b';'
			{
				let c = src[j];
				if c.is_ascii_alphanumeric() || c == b'_' || c >= 0x80
				{
					if run == 0 { run_starts_digit = c.is_ascii_digit(); }
					run += 1;
					if !run_starts_digit || run > 5 { return true; }   // at most 99999 bytes of padding (the extracted model's list functions overflow the stack near 10^6)
				}
				else
				{
					run = 0;
					if !(c == b' ' || c == b'\t' || c == b'\n' || c == b'\r' || c == b'+' || c == b'-' || c == b'(' || c == b')' || c == b'/') { return true; }
				}
				j += 1;
			}
		}
		i += 1;
	}
	false
}

// ------------------------------------------------------------------------------------------------ fixed corpus

/// design-phase findings and other hand-written edge cases (all must satisfy the generic clauses)
const CORPUS: &[&str] = &[
	".const R0, 5;", ".global R0;", ".import R0;", ".export SP;", ".addr 0x100;\nR0:", ".const sp, 1;", ".global pc;",
	".addr 0x100;\n.global X;\n.du32 (X & 3) & 5;\nX:", ".addr 0x100;\n.du32 (R0 & 3) & 5;",
	".addr 0x20000010; NOP; .addr 0x2000000E; NOP; NOP;", ".addr 0x100; NOP; .addr 0x100; NOP;", ".addr 0x20000010; B later; NOP; .addr 0x2000000E; NOP; later:",
	".addr 0x100;\n.dstr \"a\nb\";", "/* x */ \u{e9}", "/* */\u{e9}", ".addr 0x100;\n.dstr \"a\x7F\";", "a b c;", "NOP;", "\n\n   NOP;", ".du8 1;", "L:",
	".addr 0xFFFFFFFE;\nNOP;\nNOP;", ".addr 0xFFFFFFFE;\nNOP;\nL:\n.du32 L;", ".addr 0xFFFFFFFC;\n.du32 1;\nL:\n.du8 L & 1;", ".addr 0xFFFFFFFF;\n.du8 1;\n.du8 2;", ".addr 0xFFFFFFFF;\n.align 4;",
	".addr 0xFFFFFFFC;\nB 0;", ".addr 0xFFFFFFFC;\nBL 0xFFFFFFFC;", ".addr 0;\nB 0 - 4;", ".addr 0x100;\n.du32 X;\n.addr 0x200;\nX:", ".addr 0x100;\n.du32 X;\n.addr 0x0FE;\nNOP;\nNOP;\nX:",
	".addr 0x100;\n.global X;\nX:\n.du32 X;", ".addr 0x100;\nX:\n.global X;\n.global X;", ".global X;", ".addr 0x100;\n.global X;\n.du32 X;", ".addr 0x100;\nX:\n.export X;\n.du32 X;",
	"", ";", ";;", ":", ".", ".;", ". ;", "X", "X:", "X:;", ".addr", ".addr 1", ".addr 1;;", "NOP", "NOP;;", "[", "]", "{", "}", "(", ")", "\"", "'", "\\", "/", "/*", "*/", "//", ",", "-", "1;", "1:", "\"s\";", ".\"s\";", ".1;",
	".addr 0x100;\n.dfile \"p.asm\";", ".addr 0x100;\n.dfile \"\";", ".addr 0x100;\n.dfile \".\";", ".addr 0x100;\n.dfile \"..\";", ".addr 0x100;\n.dfile \"/\";", ".addr 0x100;\n.include \"\";", ".addr 0x100;\n.include \".\";", ".include \"/\";", ".include \"..\";",
	".addr 0x100;\n.include \"p.asm\";", ".addr 0x100;\n.dfile \"/dev/null\";", ".addr 0x100;\n.include \"/dev/null\";",
	".addr 0x100;\n.du32 ((((((((((((((((((((((((((((((((1))))))))))))))))))))))))))))))));", ".addr 0x100;\n.du32 - - - - - - - - 1 + 1;", ".addr 0x100;\n.du32 ~~~~1 & 0xFF;",
	".addr 0x100;\n.du32 A + B + C + D;\n.const A, 1;\n.const B, 2;\n.const C, 3;\n.const D, 4;", ".addr 0x100;\n.du32 A * B / C % D << 1 >> 1 & 3 | 4 ^ 5;\n.const A, 1;\n.const B, 2;\n.const C, 3;\n.const D, 4;",
	".addr 0x100;\n.du32 A / B;\n.const A, 1;\n.const B, 0;", ".addr 0x100;\n.du32 A << B;\n.const A, 1;\n.const B, 64;", ".addr 0x100;\n.du32 A - B;\n.const A, -9223372036854775807;\n.const B, 2;",
	".addr 0x100;\nLDR R0, [R1 + X];\n.const X, 4;", ".addr 0x100;\nLDR R0, [X + R1];\n.const X, 128;", ".addr 0x100;\nPUSH {R0, X};\n.const X, 4;", ".addr 0x100;\nMOVS X, 1;\n.const X, 4;",
	".addr 0x100;\n.const A, A;", ".addr 0x100;\n.const A, B;\n.const B, 1;", ".addr 0x100;\nA:\n.const A, 1;", ".addr 0x100;\n.const A, 1;\nA:", ".addr 0x100;\n.align A;\nA:",
	// audit-C: branches of arm6m/mod.rs, data.rs, align.rs, eval.rs that no generated case of the model-compared streams reached
	".addr 0x100; CPSIE f; CPSID I; cpsie i; CPSID if; CPSIE R0;", ".addr 0x100; CPSIE 1; DMB ish; dsb Sy; ISB 15;", ".addr 0x100; SEV; WFE; sev; wfe; WFI; YIELD;",
	".addr 0x100; LDRSB R0, [R1]; LDRSH R0, [R1 + 4]; LDRSH R0, [4 + R1]; LDRSB R0, [R1 + R2];", ".addr 0x100; LDRSB R0, [R1 + X]; LDRSH R7, [r2 + r0]; X:",
	".addr 0x100; MRS R0, APSR; MRS R1, iapsr; MRS R2, EAPSR; MRS R3, XPSR; MRS R4, IPSR; MRS R5, EPSR; MRS R6, IEPSR; MRS R7, MSP; MRS R8, PSP; MRS R9, PRIMASK; MRS R10, CONTROL;",
	".addr 0x100; MSR APSR, R0; MSR iapsr, R1; MSR EAPSR, R2; MSR XPSR, R3; MSR IPSR, R4; MSR EPSR, R5; MSR IEPSR, R6; MSR MSP, R7; MSR PSP, R8; MSR PRIMASK, R9; MSR control, R10;",
	".addr 0x100; MRS R0, FOO; MRS R0, CONTROLXX; MRS R0, CONTROLX; MRS R0, R1; MRS APSR, R1; MSR R0, R1; MSR APSR, APSR; MRS R0, 5; MSR FOO, R0;", ".addr 0x100; MRS R13, APSR;", ".addr 0x100; MSR APSR, PC;",
	".addr 0x100; MOVS R0, MSP; MOVS R0, msp + 0; .du32 MSP;", ".addr 0x100; .const MSP, 1;", ".addr 0x100; PRIMASK:", ".addr 0; .const r00, 1; .const R16, 2; MOVS R0, r00; MOVS R1, R16; .const CONTROLL, 1; .const primask, 2;",
	".addr 0x100; LDR R0, [R1 + 0x100000000]; LDR R0, [0x100000000 + R1]; LDR R0, [R1 + 0x80000000]; LDR R0, [R1 - 4]; STR R0, [R1 + (0-0x80000001)];", ".addr 0x100; LDR R0, [R1 + 0x7FFFFFFF];",
	".addr 0x100; LDR R0, [FOO]; LDR R0, [R1 + FOO]; LDR R0, [FOO + R1]; LDR R0, [4 + FOO]; LDR R0, [MSP + 4]; LDR R0, [R1 + MSP]; STRB R0, [R16];", ".addr 0x100; LDR R0, [FOO + 4]; .const FOO, 1;",
	".addr 0x100; LDR R0, [X]; LDR R0, [R1 + X + Y]; LDR R0, [X + R1 + Y]; LDR R0, [R1 + R2 + Z]; LDR R0, [R1 * 1]; LDR R0, [(R1)]; LDR R0, [[R1]]; .const X, 4; .const Y, 4; .const Z, 0;",
	".addr 0x100; .du32 {1/0}; .du32 {X}; .du32 {1, X, 1/0}; .du32 f(1); .du32 f(1/0); .du32 f(X); .du32 [1/0]; .du32 [X]; MOVS R0, f(1); PUSH {R0, 1/0}; PUSH {R0, X}; X:", ".addr 0x100; .du32 {UNDEF9};",
	".addr 0x100; RSBS R0, R1, 1; RSBS R0, R1, X; BKPT 256; SVC 256; UDF.N 256; UDF.W 65536; SVC -1; BKPT X + 1; .const X, 255;", ".addr 0x100; ADD R0, R1, X; .const X, 1;", ".addr 0x100; ADD R0, SP, X; CMP R8, X; .const X, 4;",
	".addr 0x104; .align 1024; NOP;", ".addr 0x101; .align 256; .align 512; .du8 1; .align 0x300; NOP;", ".addr 0xFFFFFC01; .align 512; .align 1024;", ".addr 0x100; NOP; .addr 0x0; .du8 1; .align 512;",
	".addr 0x100; .dhex \"\u{e9}0\";", ".addr 0x100; .dhex \"0\\u{A0}1\";", ".addr 0x100; .dhex \"aAfF0\u{ff19}\";", ".addr 0x100; .dstr \"\u{e9}\\u{1F600}\";",
	".addr 0x100; .du8 256; MOVS R0, \"s\"; NOP R0; .du8 X; .du8 X; .global X; X:", ".addr 0x100; .global X; .du8 (X * 0) + Y; MOVS R0, Y + X; Y:", ".global X; .import X;", ".global X; .export X;",
	".addr 0x100; .global X; .const X, 1; .export X;", ".addr 0x100; .const X, 1; .export X; .global X;", ".addr 0x100; .const X, 1; .export X; .import X;",
	".addr 0x104; X: B Y; .addr 0x100; NOP; NOP; Y: .du8 1;", ".addr 0xFFFFFFFC; BL X; X: B X;", ".addr 0xFFFFFFFE; BL X; X:",
];

/// multi-file witnesses: include cycles (F21) in several spellings, a missing file, a directory
fn corpus_projects() -> Vec<Project>
{
	let f = |n: &str, s: &str| (n.to_string(), s.as_bytes().to_vec());
	// an include chain deeper than any fixed bound one might pick (71 files)
	let mut chain = vec![f("r.asm", ".addr 0x100; .include \"f0.asm\"; NOP;")];
	for k in 0..70 { chain.push(f(&format!("f{}.asm", k), &if k < 69 { format!(".include \"f{}.asm\"; .du8 {};", k + 1, k) } else { format!(".du8 {};", k) })); }
	let mut v = corpus_projects_fixed(f);
	v.push(Project{files: chain, root: "r.asm".into()});
	// an included file with the base name of its includer, in a sub-directory (not an inclusion of itself)
	v.push(Project{files: vec![f("r.asm", ".addr 0x100; .du8 1; .include \"boot/r.asm\"; .du8 3;"), f("boot/r.asm", ".du8 2;")], root: "r.asm".into()});
	// files in sub-directories: a name is resolved against the directory of the file that uses it (decoys at the root)
	v.push(Project{files: vec![f("r.asm", ".addr 0x100; .include \"sub/a.asm\"; .du8 9;"), f("sub/a.asm", ".du8 1; .include \"b.asm\"; .dfile \"blob.bin\"; .du8 5;"),
		f("sub/b.asm", ".du8 2;"), f("b.asm", ".du8 0xEE;"), ("sub/blob.bin".to_string(), vec![3, 4]), ("blob.bin".to_string(), vec![0xDD, 0xDD])], root: "r.asm".into()});
	v
}

fn corpus_projects_fixed(f: impl Fn(&str, &str) -> (String, Vec<u8>)) -> Vec<Project>
{
	vec![
		Project{files: vec![f("a.asm", ".addr 0x100;\n.include \"a.asm\";\n")], root: "a.asm".into()},
		Project{files: vec![f("a.asm", ".addr 0x100;\nNOP;\n.include \"./a.asm\";\n")], root: "a.asm".into()},
		Project{files: vec![f("b.asm", ".include \"c.asm\";\n"), f("c.asm", ".include \"b.asm\";\n")], root: "b.asm".into()},
		Project{files: vec![f("d.asm", ".addr 0x100;\n.include \"sub/e.asm\";\n"), f("sub/e.asm", "NOP;\n.include \"../d.asm\";\n")], root: "d.asm".into()},
		Project{files: vec![f("r.asm", ".addr 0x100;\n.include \"x.asm\";\n.include \"x.asm\";\n"), f("x.asm", "L: B L;\n")], root: "r.asm".into()},
		Project{files: vec![f("r.asm", ".addr 0x100;\n.include \"x.asm\";\nNOP;\n"), f("x.asm", "NOP;\n.include \"y.asm\";\n"), f("y.asm", ".include \"x.asm\";\n")], root: "r.asm".into()},
		Project{files: vec![f("r.asm", ".addr 0x100;\n.include \"sub\";\n"), f("sub/k.asm", "NOP;\n")], root: "r.asm".into()},
		Project{files: vec![f("r.asm", ".addr 0x100;\n.include \"missing.asm\";\n")], root: "r.asm".into()},
		Project{files: vec![f("r.asm", ".addr 0x100;\n.include \"x.asm\";\nNOP;\n"), f("x.asm", ".du8 256;\n")], root: "r.asm".into()},
		Project{files: vec![f("r.asm", ".addr 0x100;\n.include \"x.asm\";\nNOP;\n"), f("x.asm", "NOP;\nB UNDEF;\n")], root: "r.asm".into()},
		Project{files: vec![f("r.asm", ".addr 0x100;\n.include \"x.asm\";\nNOP;\n"), f("x.asm", "\"")], root: "r.asm".into()},
		Project{files: vec![f("r.asm", ".addr 0x100;\n.dfile \"x.bin\";\n.dfile \"x.bin\";\nL:\n.du32 L;\n"), f("x.bin", "\x00\x01\x02")], root: "r.asm".into()},
	]
}

// ------------------------------------------------------------------------------------------------ main

fn prog_case(p: &Prog, rng: &mut Rng, style: u64) -> (Project, Vec<Vec<(u32, u32)>>)
{
	let mut files = Vec::new();
	let mut poss = Vec::new();
	for (n, st) in &p.files { let (t, ps) = layout(st, rng, style); files.push((n.clone(), t.into_bytes())); poss.push(ps); }
	(Project{files, root: ROOT.to_string()}, poss)
}

fn case_text(p: &Project) -> String
{
	if p.files.len() == 1 && p.root == ROOT { format!("P {}", hex_bytes(&p.files[0].1)) } else { p.fmt_case() }
}

fn main()
{
	quiet_panics();
	enter_empty_dir();
	let mut out = Out::new();
	let (thorough, seed, shard, nshards) = match mode()
	{
		Mode::Replay => { for c in replay_cases() { let r = run_case(&c); out.line(&c, &r); } leave_empty_dir(); return; },
		Mode::Gen{thorough, seed, shard, nshards} => (thorough, seed, shard, nshards),
	};
	let mut sh = Shard{k: 0, shard, n: nshards};
	let mut g = G{rng: Rng::new(seed), uniq: 0};
	let mut emit = |case: String, out: &mut Out| { if sh.mine() { let r = run_case(&case); out.line(&case, &r); } };
	// stream "scope" (used by C14): multi-file programs and the invalid constructs that concern names and file scope only
	let scope_only = std::env::args().nth(6).as_deref() == Some("scope");
	if scope_only
	{
		const SCOPE: [&str; 8] = ["private_of_includer", "never_valued_import", "never_valued", "undefined", "duplicate", "reg_const", "reg_label", "reg_global"];
		let rounds = if thorough { 40_000 } else { 1_500 };
		for _ in 0..rounds
		{
			g.uniq = 0;
			let base = valid_prog(&mut g, true);
			let style = g.rng.below(6);
			let (proj, _) = prog_case(&base, &mut g.rng, style);
			let base_ok = { let r = if proj.files.len() == 1 { run_pipeline(&proj.files[0].1, ROOT) } else { proj.run() }; r.success() };
			emit(format!("{}{}", case_text(&proj), if base_ok { " VALID" } else { "" }), &mut out);
			for _ in 0..12
			{
				if let Some((p, class, fi, bad, expect)) = mutate_stmt(&mut g, &base)
				{
					if !SCOPE.contains(&class) { continue; }
					let style = g.rng.below(6);
					let (proj, poss) = prog_case(&p, &mut g.rng, style);
					let (l, c) = poss[fi][bad];
					let mut case = format!("{} {} CLASS {}", case_text(&proj), if expect { "EXPECT-DIAG" } else { "ILLTYPED" }, class);
					if base_ok && expect { case.push_str(&format!(" POS {} {} {}", hex_bytes(p.files[fi].0.as_bytes()), l, c)); }
					emit(case, &mut out);
				}
			}
		}
		drop(out);
		leave_empty_dir();
		return;
	}

	for s in CORPUS
	{
		emit(format!("P {}", hex_bytes(s.as_bytes())), &mut out);
	}
	for p in corpus_projects() { emit(p.fmt_case(), &mut out); }
	// every corner of 64-bit arithmetic, spelled as the tokenizer allows, in each way a value can reach the operator:
	// literally, through constants defined before, through constants defined after (the simplifier then works symbolically)
	{
		let min = "(0 - 9223372036854775807 - 1)"; let max = "9223372036854775807";
		let corners: Vec<(String, String, &str)> = vec![
			(min.into(), "(0 - 1)".into(), "%"), (min.into(), "(0 - 1)".into(), "/"), (min.into(), "(0 - 1)".into(), "*"), (min.into(), "1".into(), "-"), (max.into(), "1".into(), "+"),
			("0".into(), min.into(), "-"), ("1".into(), "63".into(), "<<"), ("1".into(), "64".into(), "<<"), ("(0 - 1)".into(), "64".into(), ">>"), ("1".into(), "(0 - 1)".into(), "<<"),
			(max.into(), max.into(), "*"), (min.into(), min.into(), "+"), ("5".into(), "0".into(), "/"), ("5".into(), "0".into(), "%"), (min.into(), "0".into(), "%"),
			("(1 << 63)".into(), "(0 - 1)".into(), "%"), ("(1 << 62)".into(), "2".into(), "*"), (min.into(), "2".into(), "/"), (max.into(), "(0 - 1)".into(), "%")];
		for (a, b, op) in corners.iter()
		{
			for slot in [".du32 {};", ".du8 {};", "MOVS r0, {};", "LDR r0, [r1 + ({})];", ".const ZZ9, {};", ".addr {};"]
			{
				let direct = format!(".addr 0x100; {}", slot.replace("{}", &format!("{} {} {}", a, op, b)));
				let before = format!(".addr 0x100; .const ca, {}; .const cb, {}; {}", a, b, slot.replace("{}", &format!("ca {} cb", op)));
				let after = format!(".addr 0x100; {} .const ca, {}; .const cb, {};", slot.replace("{}", &format!("ca {} cb", op)), a, b);
				let half = format!(".addr 0x100; .const ca, {}; {} .const cb, {};", a, slot.replace("{}", &format!("ca {} cb", op)), b);
				let neg = format!(".addr 0x100; {}", slot.replace("{}", &format!("-({} {} {})", a, op, b)));
				let reg = format!(".addr 0x100; {}", slot.replace("{}", &format!("(r1 + {}) {} {}", a, op, b)));
				for t in [direct, before, after, half, neg, reg] { emit(format!("P {}", hex_bytes(t.as_bytes())), &mut out); }
			}
		}
	}
	// every corpus text also with one structural byte inserted at every position (small texts: exhaustive)
	for s in CORPUS.iter().filter(|s| s.len() <= 24)
	{
		for at in 0..=s.len() { for b in STRUCT { let mut v = s.as_bytes().to_vec(); v.insert(at, *b); if !risky_align(&v) { emit(format!("P {}", hex_bytes(&v)), &mut out); } } }
	}

	let rounds = if thorough { 60_000 } else { 900 };
	let n_mut = if thorough { 10 } else { 8 };
	for round in 0..rounds
	{
		g.uniq = 0;
		let base = valid_prog(&mut g, round % 3 == 0);
		let style = g.rng.below(6);
		// (a)
		let (proj, _) = prog_case(&base, &mut g.rng, style);
		let base_ok = {
			// the base is run by every shard that needs to know whether it is clean (cheap), emitted by one
			let r = if proj.files.len() == 1 { run_pipeline(&proj.files[0].1, ROOT) } else { proj.run() };
			r.success()
		};
		emit(format!("{}{}", case_text(&proj), if base_ok { " VALID" } else { "" }), &mut out);
		let mut pool: Vec<Project> = vec![proj];
		// (b)
		for _ in 0..n_mut
		{
			if let Some((p, class, fi, bad, expect)) = mutate_stmt(&mut g, &base)
			{
				let style = g.rng.below(6);
				let (proj, poss) = prog_case(&p, &mut g.rng, style);
				let (l, c) = poss[fi][bad];
				let mut case = format!("{} {} CLASS {}", case_text(&proj), if expect { "EXPECT-DIAG" } else { "ILLTYPED" }, class);
				if base_ok && expect { case.push_str(&format!(" POS {} {} {}", hex_bytes(p.files[fi].0.as_bytes()), l, c)); }
				emit(case, &mut out);
				pool.push(proj);
			}
		}
		// (c)
		for proj in &pool
		{
			for _ in 0..(if thorough { 3 } else { 2 })
			{
				let mut q = proj.clone();
				let fi = g.rng.below(q.files.len() as u64) as usize;
				q.files[fi].1 = mutate_bytes(&q.files[fi].1, &mut g.rng);
				if q.files.iter().any(|(_, b)| risky_align(b)) { continue; }
				emit(format!("{} MUT", case_text(&q)), &mut out);
			}
		}
	}
	drop(out);
	leave_empty_dir();
}
