//! C15: MemoryMap as an address-to-byte dictionary.  Case form (see ocaml/drv_C15.ml):
//!   W <base> <n> ; put <addr> <hexbytes> ; rem <addr> ; rr <first> <last> ; clear ; ...
//! Result: `dbg=<0|1> | <tokens after op 1> | <tokens after op 2> | ...`; every token is key=value and names
//! its own query (fE@a, gB@a, cr@f-l, ...), so the driver re-asks exactly what was asked here.
use std::panic::AssertUnwindSafe;
use trion::asm::memory::MemoryRange;
use trion::asm::memory::map::{MemoryMap, PutError, Search};
use verif_harness::*;

const MAX: u64 = u32::MAX as u64;

fn seg_str(r: MemoryRange, d: &[u8]) -> String { format!("{:x}-{:x}:{}", r.get_first(), r.get_last(), hex_bytes(d)) }
fn segs_str(v: &[String]) -> String { if v.is_empty() { ".".to_string() } else { v.join(",") } }

fn observe(map: &MemoryMap, base: u64, n: u64, lo: u64, hi: u64, out: &mut String)
{
	let map = AssertUnwindSafe(map);
	let p = |r: Result<String, String>| r.unwrap_or_else(|_| "panic".to_string());
	out.push_str(&format!(" iter={}", p(catch(|| segs_str(&map.iter().map(|(r, d)| seg_str(r, d)).collect::<Vec<_>>())))));
	out.push_str(&format!(" len={:x}", map.len()));
	out.push_str(&format!(" count={}", p(catch(|| { let (a, c) = map.count(); format!("{:x}:{:x}", a, c) }))));
	// addresses
	let mut addrs: Vec<u64> = vec![0, MAX];
	if n <= 8 { for a in base.saturating_sub(1)..=(base + n + 3).min(MAX) { addrs.push(a); } }
	else
	{
		for a in [lo.saturating_sub(1), lo, lo + 1, hi.saturating_sub(1), hi, hi + 1, base, base + n - 1, (lo + hi) / 2, base + (lo * 7 + hi * 3) % n]
		{ addrs.push(a.min(MAX)); }
	}
	addrs.sort(); addrs.dedup();
	for &a in &addrs
	{
		let a32 = a as u32;
		for (tag, s) in [("E", Search::Exact), ("B", Search::Below), ("A", Search::Above)]
		{
			let r = p(catch(|| match map.find(a32, s) { None => "none".to_string(), Some(r) => format!("{:x}-{:x}", r.get_first(), r.get_last()) }));
			out.push_str(&format!(" f{}@{:x}={}", tag, a, r));
			let r = p(catch(|| match map.get(a32, s) { None => "none".to_string(), Some((r, d)) => seg_str(r, d) }));
			out.push_str(&format!(" g{}@{:x}={}", tag, a, r));
			// the mutable lookup (same contract as get; on a copy, nothing is written through it)
			let mut m2 = map.clone();
			let r = p(catch(std::panic::AssertUnwindSafe(|| match m2.get_mut(a32, s) { None => "none".to_string(), Some((r, d)) => seg_str(r, d) })));
			out.push_str(&format!(" m{}@{:x}={}", tag, a, r));
		}
	}
	// ranges
	let mut ranges: Vec<(u64, u64)> = vec![(0, MAX)];
	if n <= 8
	{
		for f in base..base + n { for l in f..base + n { ranges.push((f, l.min(MAX))); } }
		ranges.push((base, (base + n + 3).min(MAX)));
		ranges.push(((base + n - 1).min(MAX), (base + n + 3).min(MAX)));
		ranges.push((base.saturating_sub(1), (base + n).min(MAX)));
	}
	else
	{
		let hi = hi.min(MAX);
		ranges.push((lo.saturating_sub(1), (hi + 1).min(MAX)));
		ranges.push((lo, hi));
		if lo + 1 <= hi.saturating_sub(1) { ranges.push((lo + 1, hi - 1)); }
		ranges.push((base, (base + n - 1).min(MAX)));
		ranges.push((0, lo)); ranges.push((hi, MAX)); ranges.push((lo, lo)); ranges.push((hi, hi));
		let m = (lo + hi) / 2; ranges.push((m, (m + 3).min(MAX)));
		ranges.push((base + (lo * 5 + hi) % n, (base + n + 2).min(MAX)));
	}
	ranges.retain(|&(f, l)| f <= l && l <= MAX);
	ranges.sort(); ranges.dedup();
	for &(f, l) in &ranges
	{
		let rg = MemoryRange::new(f as u32, l as u32);
		let r = p(catch(|| { let (a, c) = map.count_range(rg); format!("{:x}:{:x}", a, c) }));
		out.push_str(&format!(" cr@{:x}-{:x}={}", f, l, r));
		let r = p(catch(|| segs_str(&map.iter_range(rg).map(|(r, d)| seg_str(r, d)).collect::<Vec<_>>())));
		out.push_str(&format!(" ir@{:x}-{:x}={}", f, l, r));
	}
}

fn run_case(case: &str) -> String
{
	let mut parts = case.split(" ; ");
	let w: Vec<&str> = parts.next().unwrap_or("").split_whitespace().collect();
	if w.len() != 3 || w[0] != "W" { return "bad-case".to_string(); }
	let base = u64::from_str_radix(w[1], 16).unwrap();
	let n = u64::from_str_radix(w[2], 16).unwrap().max(1);
	let mut map = MemoryMap::new();
	let mut out = format!("dbg={}", cfg!(debug_assertions) as u8);
	for op in parts
	{
		let t: Vec<&str> = op.split_whitespace().collect();
		out.push_str(" |");
		// touched addresses of this op (for the lookup sweep)
		let (lo, hi);
		let ret: Result<String, String> = match t[0]
		{
			"put" =>
			{
				let a = u32::from_str_radix(t[1], 16).unwrap();
				let data = parse_hex_bytes(t[2]);
				lo = a as u64; hi = (a as u64 + data.len() as u64).saturating_sub(1).min(MAX);
				let m = AssertUnwindSafe(&mut map);
				catch(move || { let m = m; match m.0.put(a, &data) { Ok(k) => format!("ok:{:x}", k), Err(PutError::Overflow{..}) => "err".to_string() } })
			},
			"rem" =>
			{
				let a = u32::from_str_radix(t[1], 16).unwrap();
				lo = a as u64; hi = a as u64;
				let m = AssertUnwindSafe(&mut map);
				catch(move || { let m = m; match m.0.remove(a) { None => "none".to_string(), Some((r, d)) => seg_str(r, &d) } })
			},
			"rr" =>
			{
				let f = u32::from_str_radix(t[1], 16).unwrap();
				let l = u32::from_str_radix(t[2], 16).unwrap();
				lo = (f as u64).min(l as u64); hi = (f as u64).max(l as u64);
				match catch(|| MemoryRange::new(f, l))
				{
					Err(_) => Ok("badrange".to_string()),
					Ok(rg) => { let m = AssertUnwindSafe(&mut map); catch(move || { let m = m; m.0.remove_range(rg); "unit".to_string() }) },
				}
			},
			"clear" => { lo = base; hi = (base + n - 1).min(MAX); map.clear(); Ok("unit".to_string()) },
			_ => return "bad-case".to_string(),
		};
		match ret
		{
			Err(_) => { out.push_str(" ret=panic"); break; },
			Ok(r) => { out.push_str(" ret="); out.push_str(&r); observe(&map, base, n, lo, hi, &mut out); },
		}
	}
	out
}

/// the operations of the exhaustive stream over a window of `n` addresses at `base`; `k` = position in the sequence
fn small_ops(base: u64, n: u64, k: usize) -> Vec<String>
{
	let mut v = Vec::new();
	v.push(format!("put {:x} -", base));
	for off in 0..n { for len in 1..=4u64
	{
		let data: Vec<u8> = (0..len).map(|j| (0x11 * (k as u64 + 1) + j) as u8).collect();
		v.push(format!("put {:x} {}", base + off, hex_bytes(&data)));
	} }
	for off in 0..n { v.push(format!("rem {:x}", base + off)); }
	for f in 0..n { for l in f..n { v.push(format!("rr {:x} {:x}", base + f, base + l)); } }
	v.push(format!("rr {:x} {:x}", base + 1, base));
	v.push("clear".to_string());
	v
}

fn random_case(rng: &mut Rng) -> String
{
	let n: u64 = 24;
	let base: u64 = match rng.below(6)
	{
		0 | 1 => 0,
		2 | 3 => (1u64 << 32) - n,
		4 => *rng.pick(&[1u64, 0x7FFF_FFF0, 0x8000_0000 - 12, 0xFFFF_FFFF - 30, 0x1000_0000, 0x2000_0000]),
		_ => rng.below((1u64 << 32) - n),
	};
	let nops = 1 + rng.below(20);
	let mut s = format!("W {:x} {:x}", base, n);
	let mut prev: (u64, u64) = (base + rng.below(n), 1);   // last put (addr, len)
	if rng.chance(2, 5)
	{
		// a comb of short segments, then one put that bridges several of them (merging 3+ segments)
		let stride = 2 + rng.below(3);
		let k = 3 + rng.below(4);
		let off = rng.below(4);
		for i in 0..k
		{
			let len = 1 + rng.below(stride - 1);
			let a = (base + off + i * stride).min(MAX);
			s.push_str(&format!(" ; put {:x} {}", a, hex_bytes(&rng.bytes(len as usize))));
		}
		let i0 = rng.below(k - 1); let i1 = i0 + 1 + rng.below(k - i0 - 1);
		let a = (base + off + i0 * stride + rng.below(stride + 1)).saturating_sub(rng.below(2)).min(MAX);
		let e = (base + off + i1 * stride + rng.below(stride + 1)).saturating_sub(rng.below(2)).max(a);
		let len = (e - a + 1).min(40);
		s.push_str(&format!(" ; put {:x} {}", a, hex_bytes(&rng.bytes(len as usize))));
		prev = (a, len);
	}
	for _ in 0..nops
	{
		let c = rng.below(100);
		if c < 58
		{
			let len = match rng.below(10) { 0..=4 => 1 + rng.below(3), 5..=7 => 3 + rng.below(6), 8 => 8 + rng.below(20), _ => rng.below(2) };
			let mut a = match rng.below(10)
			{
				0 | 1 => prev.0 + prev.1,                          // directly after the previous put
				2 => prev.0 + prev.1 + 1,                          // one address gap
				3 => prev.0.saturating_sub(len),                   // directly before
				4 => prev.0.saturating_sub(len + 1),               // one address gap before
				5 => prev.0 + rng.below(prev.1.max(1)),            // overlapping
				_ => base + rng.below(n),
			};
			if a > MAX { a = MAX; }
			if a < base.saturating_sub(2) { a = base; }
			let data = rng.bytes(len as usize);
			s.push_str(&format!(" ; put {:x} {}", a, hex_bytes(&data)));
			if len > 0 { prev = (a, len); }
		}
		else if c < 72 { s.push_str(&format!(" ; rem {:x}", (base + rng.below(n + 2)).saturating_sub(1).min(MAX))); }
		else if c < 95
		{
			let f = (base + rng.below(n + 2)).saturating_sub(1).min(MAX);
			let l = match rng.below(4) { 0 => f, 1 => (f + rng.below(3)).min(MAX), 2 => (f + rng.below(n)).min(MAX), _ => if rng.chance(1, 2) { MAX } else { (base + n).min(MAX) } };
			let (f, l) = if rng.chance(1, 12) { (if rng.chance(1, 2) { 0 } else { f }, MAX) } else { (f, l) };
			s.push_str(&format!(" ; rr {:x} {:x}", f, l.max(f)));
		}
		else if c < 98 { s.push_str(" ; clear"); }
		else { let f = base + 1 + rng.below(n - 1); s.push_str(&format!(" ; rr {:x} {:x}", f, f - 1)); }
	}
	s
}

fn main()
{
	quiet_panics();
	let mut out = Out::new();
	match mode()
	{
		Mode::Replay => for c in replay_cases() { let r = run_case(&c); out.line(&c, &r); },
		Mode::Gen { thorough, seed, shard, nshards } =>
		{
			let mut sh = Shard { k: 0, shard, n: nshards };
			let mut rng = Rng::new(seed);
			let mut emit = |c: String, out: &mut Out| { if sh.mine() { let r = run_case(&c); out.line(&c, &r); } };
			// fixed part: the scripts of src/asm/memory/map/test.rs and hand-made boundary cases
			let top = (1u64 << 32) - 6;
			for c in [
				"W 64 18 ; put 64 68656c6c6f ; put 78 776f726c64".to_string(),
				"W 0 6 ; put 0 6669727374 ; put fffffffc 6c617374".to_string(),
				"W 64 18 ; put 64 776f726c642068656c6c6f ; put 64 68656c6c6f20776f726c64 ; put 6a 206c617374 ; put 64 6669727374 ; put 69 5f5f ; put 60 66726f6d206669727374 ; put 6a 20746f206c617374".to_string(),
				"W 0 6 ; put 0 66 ; put ffffffff 74 ; put 0 6669727374 ; put fffffffc 6c617374".to_string(),
				"W 64 18 ; put 64 0102 ; put 68 0304 ; put 6c 0506 ; put 65 a1a2a3a4a5a6a7a8 ; rem 66".to_string(),
				"W 64 18 ; put 64 0102 ; put 68 0304 ; put 6c 0506 ; put 66 aaaa ; put 6a bbbb".to_string(),
				"W 64 18 ; put 64 0102030405060708 ; rr 66 68 ; rr 63 64 ; rr 6b 70 ; rem 65 ; rem 6a".to_string(),
				"W 64 18 ; put 64 01 ; put 66 02 ; put 68 03 ; put 6a 04 ; rr 65 69 ; rr 0 ffffffff".to_string(),
				format!("W {:x} 6 ; put ffffffff 01 ; put ffffffff 0102 ; put fffffffe 0102 ; put fffffffe 010203 ; rr ffffffff ffffffff ; rem fffffffe", top),
				format!("W {:x} 6 ; put fffffffc 01020304 ; put fffffffa 0a0b ; rr fffffffb fffffffd ; put fffffffd 010203 ; put fffffffd 01020304", top),
				"W 0 6 ; put 0 01 ; put 2 02 ; put 1 03 ; rr 0 0 ; put 0 - ; rem 1 ; clear ; rem 0".to_string(),
			] { emit(c, &mut out); }
			// (i) exhaustive: all sequences of <= depth operations over a 6-address window at 0 and at 2^32-6
			let depth = if thorough { 3 } else { 2 };
			for base in [0u64, top]
			{
				let ops: Vec<Vec<String>> = (0..3).map(|k| small_ops(base, 6, k)).collect();
				let hdr = format!("W {:x} 6", base);
				for a in &ops[0]
				{
					emit(format!("{} ; {}", hdr, a), &mut out);
					if depth >= 2 { for b in &ops[1]
					{
						emit(format!("{} ; {} ; {}", hdr, a, b), &mut out);
						if depth >= 3 { for c in &ops[2] { emit(format!("{} ; {} ; {} ; {}", hdr, a, b, c), &mut out); } }
					} }
				}
			}
			// (ii) random sequences of <= 20 operations on a 24-address window
			let nrand = if thorough { 400_000 } else { 40_000 };
			for _ in 0..nrand { let c = random_case(&mut rng); emit(c, &mut out); }
		},
	}
}
