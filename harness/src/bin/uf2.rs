//! C16: UF2 writer.  Case text (see ocaml/drv_C16.ml), all numbers hex:
//!   <S cap | V prelen> <family | -> <payload> <align> { <W|A> <addr> <noflash 0|1> <data hex | -> }*
//! `S cap`: Uf2Write::new on a cap-byte buffer pre-filled with 0xAA; `V prelen`: Uf2Write::new_vec on a Vec that
//! already holds prelen bytes 0xAA.  W = write, A = write_all.
//! Result: new=<ok|blocksize|alignment> r=<class>,<class>,... out=<destination bytes after drop | ?>
//! classes: ok (write), ok:<blocks> (write_all), overflow, alignment, address, blockcount, panic (stops the run).
use trion::uf2::write::{Uf2Write, NewError, WriteError};
use verif_harness::*;

const FILL: u8 = 0xAA;

#[derive(Clone)]
struct Op { all: bool, addr: u32, nf: bool, data: Vec<u8> }

#[derive(Clone)]
struct Case { slice: bool, size: usize, fam: Option<u32>, bs: usize, align: usize, ops: Vec<Op> }

fn fmt_case(c: &Case) -> String
{
	let mut s = format!("{} {:x} {} {:x} {:x}", if c.slice { "S" } else { "V" }, c.size,
		match c.fam { None => "-".to_string(), Some(f) => format!("{:x}", f) }, c.bs, c.align);
	for o in &c.ops
	{
		s.push_str(&format!(" {} {:x} {} {}", if o.all { "A" } else { "W" }, o.addr, o.nf as u8, hex_bytes(&o.data)));
	}
	s
}

fn parse_case(text: &str) -> Option<Case>
{
	let t: Vec<&str> = text.split_whitespace().collect();
	if t.len() < 5 || (t.len() - 5) % 4 != 0 { return None; }
	let slice = match t[0] { "S" => true, "V" => false, _ => return None };
	let size = usize::from_str_radix(t[1], 16).ok()?;
	let fam = if t[2] == "-" { None } else { Some(u32::from_str_radix(t[2], 16).ok()?) };
	let bs = usize::from_str_radix(t[3], 16).ok()?;
	let align = usize::from_str_radix(t[4], 16).ok()?;
	let mut ops = Vec::new();
	for q in t[5..].chunks(4)
	{
		let all = match q[0] { "A" => true, "W" => false, _ => return None };
		ops.push(Op { all, addr: u32::from_str_radix(q[1], 16).ok()?, nf: q[2] == "1", data: parse_hex_bytes(q[3]) });
	}
	Some(Case { slice, size, fam, bs, align, ops })
}

fn werr_class(e: &WriteError) -> &'static str
{
	match e
	{
		WriteError::Overflow{..} => "overflow",
		WriteError::Alignment{..} => "alignment",
		WriteError::Address{..} => "address",
		WriteError::BlockCount{..} => "blockcount",
	}
}

fn drive(w: Result<Uf2Write, NewError>, ops: &[Op], res: &mut Vec<String>) -> &'static str
{
	match w
	{
		Err(NewError::BlockSize(..)) => "blocksize",
		Err(NewError::Alignment{..}) => "alignment",
		Ok(mut w) =>
		{
			for o in ops
			{
				res.push("panic".to_string()); // replaced when the call returns
				let r = if o.all
				{
					match w.write_all(o.addr, &o.data, o.nf) { Ok(n) => format!("ok:{:x}", n), Err(e) => werr_class(&e).to_string() }
				}
				else
				{
					match w.write(o.addr, &o.data, o.nf) { Ok(()) => "ok".to_string(), Err(e) => werr_class(&e).to_string() }
				};
				*res.last_mut().unwrap() = r;
			}
			drop(w);
			"ok"
		},
	}
}

/// runs the case on the implementation; returns (result text, destination length)
fn run(c: &Case) -> (String, usize)
{
	let mut buf: Vec<u8> = vec![FILL; c.size];
	let mut res: Vec<String> = Vec::new();
	let newr =
	{
		let bufr = &mut buf;
		let resr = &mut res;
		catch(std::panic::AssertUnwindSafe(move ||
		{
			if c.slice { drive(Uf2Write::new(c.fam, c.bs, c.align, bufr.as_mut_slice()), &c.ops, resr) }
			else { drive(Uf2Write::new_vec(c.fam, c.bs, c.align, bufr), &c.ops, resr) }
		}))
	};
	let rs = if res.is_empty() { "-".to_string() } else { res.join(",") };
	match newr
	{
		Ok(n) => (format!("new={} r={} out={}", n, rs, hex_bytes(&buf)), buf.len()),
		// a panic (in a call: its class is still "panic"; or in drop: appended) ends the observation
		Err(_) => (format!("new=ok r={} out=?", if res.last().map(|s| s == "panic").unwrap_or(false) { rs } else { format!("{},panic", rs) }), buf.len()),
	}
}

fn run_case(text: &str) -> String
{
	match parse_case(text) { Some(c) => run(&c).0, None => "bad-case".to_string() }
}

const PAYLOADS: [usize; 10] = [0, 1, 2, 3, 4, 255, 256, 475, 476, 477];
const FAMS: [Option<u32>; 3] = [None, Some(0), Some(0xE48BFF56)];

fn aligns_for(p: usize) -> Vec<usize>
{
	let mut v: Vec<usize> = (1..=p.max(1)).filter(|a| p % a == 0).collect();   // every divisor (p = 0: just 1)
	for a in [0, 7, p + 1, 2 * p] { if !v.contains(&a) { v.push(a); } } // non-divisors, 0
	v
}

fn lens_for(p: usize) -> Vec<usize>
{
	let q = p.max(1);
	let mut v = vec![0, 1, q - 1, q, q + 1, 2 * q, 2 * q + 1, 3 * q - 1];
	v.sort(); v.dedup(); v
}

fn addrs_for(len: usize) -> Vec<u32>
{
	let top = 1u64 << 32;
	let l = len as u64;
	let mut v = vec![0u32, 0x1000_0000];
	for a in [top - l - 1, top - l, top - l + 1] { if a < top { v.push(a as u32); } else { v.push((top - 1) as u32); } }
	v.dedup(); v
}

fn data_for(rng: &mut Rng, len: usize) -> Vec<u8>
{
	// mostly non-zero bytes (so zero fill is distinguishable), sometimes zero at the ends
	let mut d: Vec<u8> = (0..len).map(|_| 1 + rng.below(255) as u8).collect();
	if len > 0 && rng.chance(1, 8) { d[len - 1] = 0; }
	if len > 0 && rng.chance(1, 16) { d[0] = 0; }
	d
}

/// capacity choices for a slice destination, given the byte count the sequence produces on a vector
fn caps_for(exact: usize) -> Vec<usize>
{
	let mut v = vec![0, 511, 512, 1024, exact, exact.saturating_sub(1), exact + 512, exact + 7];
	v.sort(); v.dedup(); v
}

fn exact_len(c: &Case) -> usize
{
	let mut v = c.clone(); v.slice = false; v.size = 0;
	run(&v).1
}

fn main()
{
	quiet_panics();
	let mut out = Out::new();
	match mode()
	{
		Mode::Replay => for c in replay_cases() { let r = run_case(&c); out.line(&c, &r); },
		Mode::Gen { thorough, seed, shard, nshards } =>
		{
			let mut sh = Shard { k: 0, shard, n: nshards };
			let mut rng = Rng::new(seed);
			let mut emit = |c: &Case, out: &mut Out| { if sh.mine() { let t = fmt_case(c); let r = run(c).0; out.line(&t, &r); } };
			// ---- corpus: the repaired defect (F20) and the shapes around it
			for text in [
				"V 0 - 4 4 W 0 0 0102030405060708",                 // write longer than the payload: was accepted and truncated
				"S 400 - 4 4 W 0 0 0102030405060708 W 8 0 01020304",
				"V 0 e48bff56 100 100 A 10000000 0 01 W 10000100 0 0102",
			]
			{ let c = parse_case(text).unwrap(); emit(&c, &mut out); }
			{
				// write of 480 bytes with payload 4: was a slice-range panic inside encode
				let c = Case { slice: false, size: 0, fam: None, bs: 4, align: 4, ops: vec![Op { all: false, addr: 0, nf: false, data: vec![7; 480] }] };
				emit(&c, &mut out);
				let c = Case { slice: true, size: 1024, fam: Some(0), bs: 4, align: 1, ops: vec![Op { all: false, addr: 0, nf: true, data: vec![7; 477] },
					Op { all: false, addr: 0, nf: true, data: vec![7; 481] }, Op { all: false, addr: 0, nf: true, data: vec![7; 4] }] };
				emit(&c, &mut out);
			}
			// ---- audit: payload sizes / alignments outside the PAYLOADS list (12/4, 30/5, 100/25, 128/64, 300/150, 476/119),
			//      a vector that already holds 700 bytes, address bounds measured from the ALIGNED length
			{
				let seq = |n: usize| -> Vec<u8> { (0..n).map(|k| (k % 251) as u8 + 1).collect() };
				let op = |all: bool, addr: u32, nf: bool, n: usize| Op { all, addr, nf, data: seq(n) };
				let cases = [
					Case { slice: false, size: 700, fam: None, bs: 12, align: 4, ops: vec![op(true, 0xFFFF_FFF4, false, 13), op(true, 0xFFFF_FFF0, false, 13), op(true, 0xFFFF_FFF1, true, 13)] },
					Case { slice: true, size: 4096, fam: Some(0xE48BFF56), bs: 100, align: 25, ops: vec![op(true, 0x1000_0000, true, 130), op(false, 0, false, 75), op(false, 0, false, 76), op(false, 0, false, 125)] },
					Case { slice: true, size: 1536, fam: Some(0), bs: 30, align: 5, ops: vec![op(false, 0, false, 30), op(true, 0xFFFF_FFE2, false, 30), op(true, 0xFFFF_FFE3, false, 30), op(true, 0xFFFF_FFDD, false, 31)] },
					Case { slice: false, size: 5, fam: Some(0xFFFF_FFFF), bs: 128, align: 64, ops: vec![op(true, 0, false, 200), op(false, 0x100, true, 64), op(false, 0x200, false, 65), op(false, 0x300, false, 128)] },
					Case { slice: true, size: 1535, fam: None, bs: 300, align: 150, ops: vec![op(true, 0x2000_0000, false, 451), op(true, 0x2000_0400, false, 1)] },
					Case { slice: false, size: 0, fam: None, bs: 476, align: 119, ops: vec![op(true, 0xFFFF_FC48, false, 952), op(true, 0xFFFF_FC47, false, 834), op(true, 0xFFFF_FC49, false, 834)] },
				];
				for c in cases.iter() { emit(c, &mut out); }
				// large writes: more than 64 KiB of data, below / across / at the top of the address space (a write that starts far
				// below 2^32 can still run past it), whole pages and one byte more
				let big = [
					Case { slice: false, size: 0, fam: Some(0xE48BFF56), bs: 256, align: 256, ops: vec![op(true, 0xFFFE_FF00, false, 0x1_0200), op(true, 0x2000_0000, false, 16)] },
					Case { slice: false, size: 0, fam: None, bs: 256, align: 256, ops: vec![op(true, 0xFFFE_FF00, false, 0x1_0100), op(true, 0xFFFE_FF00, true, 0x1_0101)] },
					Case { slice: false, size: 0, fam: Some(1), bs: 476, align: 4, ops: vec![op(true, 0x1000_0000, false, 0x1_0001)] },
					Case { slice: true, size: 0x4_2000, fam: None, bs: 256, align: 256, ops: vec![op(true, 0xFFFD_0000, false, 0x2_0000), op(true, 0xFFFF_0000, false, 0x1_0001)] },
				];
				for c in big.iter() { emit(c, &mut out); }
			}
			// ---- deterministic grid: every configuration x one call x every length x every address x both calls;
			//      destination: vector, and for slices every capacity class (cycled through the family ids)
			let mut k = 0usize;
			for &p in &PAYLOADS
			{
				for &al in &aligns_for(p)
				{
					for &len in &lens_for(p)
					{
						for &addr in &addrs_for(len)
						{
							for all in [false, true]
							{
								k += 1;
								let fam = FAMS[k % 3];
								let ops = vec![Op { all, addr, nf: k % 5 == 0, data: data_for(&mut rng, len) }];
								let base = Case { slice: false, size: if k % 7 == 0 { 5 } else { 0 }, fam, bs: p, align: al, ops };
								emit(&base, &mut out);
								// big payloads have dozens of alignments: thin the slice variants there in the quick tier
								if !thorough && p > 4 && k % 4 != 0 { continue; }
								let exact = exact_len(&Case { size: 0, ..base.clone() });
								for cap in caps_for(exact)
								{
									emit(&Case { slice: true, size: cap, ..base.clone() }, &mut out);
								}
							}
						}
					}
				}
			}
			// ---- random sequences of up to 6 calls
			let nseq = if thorough { 400000 } else { 24000 };
			for _ in 0..nseq
			{
				let p = if rng.chance(1, 10) { *rng.pick(&[0usize, 477]) } else { *rng.pick(&PAYLOADS[1..9]) };
				let als = aligns_for(p);
				let ndiv = (1..=p.max(1)).filter(|a| p % a == 0).count();
				let al = if rng.chance(1, 10) { *rng.pick(&als) } else { als[rng.below(ndiv as u64) as usize] };
				let fam = *rng.pick(&FAMS);
				let nops = 1 + rng.below(6) as usize;
				let mut ops = Vec::new();
				for _ in 0..nops
				{
					let lens = lens_for(p);
					let mut len = *rng.pick(&lens);
					// bias towards lengths the alignment accepts
					if al > 0 && rng.chance(1, 2) { len -= len % al; }
					if rng.chance(1, 12) { len = rng.below(3 * p.max(1) as u64) as usize; }
					let addr = if rng.chance(1, 2) { *rng.pick(&addrs_for(len)) } else { (rng.next() as u32) & 0xFFFF_FF00 };
					ops.push(Op { all: rng.chance(1, 2), addr, nf: rng.chance(1, 4), data: data_for(&mut rng, len) });
				}
				let base = Case { slice: false, size: *rng.pick(&[0usize, 0, 0, 3, 512]), fam, bs: p, align: al, ops };
				if rng.chance(1, 2) { emit(&base, &mut out); }
				else
				{
					let exact = exact_len(&Case { size: 0, ..base.clone() });
					let caps = caps_for(exact);
					emit(&Case { slice: true, size: *rng.pick(&caps), ..base.clone() }, &mut out);
				}
			}
		},
	}
}
