//! C13 / C05 (and the shared project runner for C06 / C14): whole-pipeline runs of generated projects.
//!
//! case  = `<stream> F <hexname> <hexbytes> ; F ... ; ROOT <hexname> [| <expectation> ...]`
//!         (files are written into a private directory $VERIF_TMP, the process runs inside it, so every path is a
//!          plain relative file name; the directory is removed afterwards)
//! result= `dbg=<0|1> status=<success|failure|close-error|panic> regions=<base:hex,...|-> diags=<class@file:line:col,...|->`
//!         class = constructor chain of the error value (downcasts; never message text), file = base name.
//! Expectations (generator-side oracle, independent of the Coq model; checked by ocaml/drv_C13.ml on the
//! implementation's result):
//!   C13:  `V ok|occupied|overflow` then `S <addr> <hexbytes> <i|d>` per statement placed before the first violation
//!         (i = written immediately, d = deferred: placeholder first, resolved bytes at the end of the file)
//!   C05:  none — the driver evaluates Asm/LayoutSpec.v on the parsed program.
use std::collections::BTreeMap;
use std::error::Error;
use std::path::PathBuf;
use trion::arm6m::asm::{ImmReg, Instruction};
use trion::arm6m::reg::Register;
use trion::arm6m::{Arm6M, AsmError};
use trion::asm::directive::addr::AddrError;
use trion::asm::directive::align::AlignError;
use trion::asm::directive::constant::ConstError;
use trion::asm::directive::data::DataError;
use trion::asm::directive::global::GlobalError;
use trion::asm::directive::include::IncludeError;
use trion::asm::directive::{DirectiveErrorKind, DirectiveList};
use trion::asm::instr::InstrErrorKind;
use trion::asm::simplify::EvalError;
use trion::asm::{AsmErrorKind, ConstantError, Context, SegmentError};
use verif_harness::codec::*;
use verif_harness::stmtgen::*;
use verif_harness::*;
#[path = "../exprgen.rs"]
mod exprgen;
use exprgen::{Ex, Leaves, TEMPL};

// ------------------------------------------------------------------ projects
#[derive(Clone, Debug)]
struct Project { files: Vec<(String, Vec<u8>)>, root: String }

fn hexs(s: &str) -> String { hex_bytes(s.as_bytes()) }

fn project_text(p: &Project) -> String
{
	let mut v: Vec<String> = p.files.iter().map(|(n, d)| format!("F {} {}", hexs(n), hex_bytes(d))).collect();
	v.push(format!("ROOT {}", hexs(&p.root)));
	v.join(" ; ")
}

fn parse_project(s: &str) -> Project
{
	let mut p = Project{files: vec![], root: String::new()};
	for part in s.split(" ; ")
	{
		let t: Vec<&str> = part.split_whitespace().collect();
		match t.as_slice()
		{
			["F", n, d] => p.files.push((String::from_utf8_lossy(&parse_hex_bytes(n)).into_owned(), parse_hex_bytes(d))),
			["ROOT", n] => p.root = String::from_utf8_lossy(&parse_hex_bytes(n)).into_owned(),
			_ => {},
		}
	}
	p
}

fn plain_name(n: &str) -> bool { !n.is_empty() && !n.contains('/') && !n.contains('\\') && n != "." && n != ".." && !n.contains('\0') }

// ------------------------------------------------------------------ diagnostics: constructor chain
fn seg_class(e: &SegmentError) -> &'static str
{
	match e { SegmentError::Write(..) => "seg_write", SegmentError::Occupied(..) => "seg_occupied", SegmentError::Overflow{..} => "seg_overflow" }
}

fn sub_class(e: &(dyn Error + 'static)) -> String
{
	if let Some(c) = e.downcast_ref::<ConstantError>()
	{
		return match c
		{
			ConstantError::NotFound{..} => "const_notfound", ConstantError::Reserved(..) => "const_reserved", ConstantError::Duplicate{..} => "const_duplicate",
			ConstantError::Range{..} => "range", ConstantError::Alignment{..} => "alignment",
		}.into();
	}
	if e.is::<EvalError>() { return "eval".into(); }
	if let Some(a) = e.downcast_ref::<AddrError>() { return match a { AddrError::Range(..) => "addr_range".into(), AddrError::Segment(s) => seg_class(s).into() }; }
	if let Some(a) = e.downcast_ref::<AlignError>()
	{
		return match a { AlignError::Inactive => "align_inactive".into(), AlignError::Range(..) => "align_range".into(), AlignError::Overflow{..} => "align_overflow".into(), AlignError::Write(s) => seg_class(s).into() };
	}
	if let Some(d) = e.downcast_ref::<DataError>()
	{
		return match d
		{
			DataError::Inactive => "data_inactive".into(), DataError::Range{..} => "data_range".into(), DataError::HexChar{..} => "hex_char".into(),
			DataError::HexEof => "hex_eof".into(), DataError::File(..) => "file".into(), DataError::Write(s) => seg_class(s).into(),
		};
	}
	if let Some(c) = e.downcast_ref::<ConstError>() { return match c { ConstError::Duplicate(..) => "const_dup".into() }; }
	if let Some(g) = e.downcast_ref::<GlobalError>()
	{
		return match g { GlobalError::NotFound{..} => "g_notfound", GlobalError::Deferred{..} => "g_deferred", GlobalError::Duplicate{..} => "g_duplicate" }.into();
	}
	if let Some(i) = e.downcast_ref::<IncludeError>()
	{
		return match i { IncludeError::NoSuchFile{..} => "inc_nofile", IncludeError::FileRead{..} => "inc_read", IncludeError::Recursive{..} => "inc_recursive", IncludeError::AssemblyFailed{..} => "inc_failed" }.into();
	}
	if let Some(a) = e.downcast_ref::<AsmError>()
	{
		return match a { AsmError::ValueRange{..} => "value_range".into(), AsmError::NoSuchRegister{..} => "no_register".into(), AsmError::Encode(..) => "encode".into(), AsmError::Write(s) => seg_class(s).into() };
	}
	"other".into()
}

fn coarse_class(e: &(dyn Error + 'static)) -> String
{
	if let Some(k) = e.downcast_ref::<AsmErrorKind>() { return match k { AsmErrorKind::Parse(..) => "parse", AsmErrorKind::Inactive => "inactive" }.into(); }
	if let Some(c) = e.downcast_ref::<ConstantError>()
	{
		return match c { ConstantError::Reserved(..) => "const_reserved", ConstantError::Duplicate{..} => "const_duplicate", _ => "const_other" }.into();
	}
	if let Some(d) = e.downcast_ref::<DirectiveErrorKind>()
	{
		return match d
		{
			DirectiveErrorKind::NotFound(..) => "dir_notfound".into(), DirectiveErrorKind::TooManyArguments{..} => "dir_toomany".into(),
			DirectiveErrorKind::NotEnoughArguments{..} => "dir_notenough".into(), DirectiveErrorKind::ArgumentType{..} => "dir_argtype".into(),
			DirectiveErrorKind::Apply{source, ..} => format!("apply:{}", sub_class(source.as_ref())),
		};
	}
	if let Some(i) = e.downcast_ref::<InstrErrorKind>()
	{
		return match i
		{
			InstrErrorKind::NotFound(..) => "instr_notfound".into(), InstrErrorKind::TooManyArguments{..} => "instr_toomany".into(),
			InstrErrorKind::NotEnoughArguments{..} => "instr_notenough".into(), InstrErrorKind::ArgumentType{..} => "instr_argtype".into(),
			InstrErrorKind::Assemble(source) => format!("asm:{}", sub_class(source.as_ref())),
		};
	}
	"other".into()
}

// ------------------------------------------------------------------ running a project
struct Obs { status: &'static str, regions: Vec<(u32, Vec<u8>)>, diags: Vec<String>, panic: String }

static IN_IMPL: std::sync::atomic::AtomicBool = std::sync::atomic::AtomicBool::new(false);

fn run_root(src: Vec<u8>, root: String) -> Obs
{
	IN_IMPL.store(true, std::sync::atomic::Ordering::SeqCst);
	let res = catch(move ||
	{
		let directives = DirectiveList::generate();
		let mut ctx = Context::new(&Arm6M, &directives);
		drop(ctx.assemble(&src, PathBuf::from(root)));
		let close_err = ctx.close_segment().is_err();
		let finalize_ok = if close_err { false } else { ctx.finalize() };
		let diags: Vec<String> = ctx.get_errors().iter().map(|e|
		{
			let v: &(dyn Error + 'static) = &e.value;
			let name = e.name.as_ref();
			let base = name.rsplit('/').next().unwrap_or(name).replace(' ', "_");
			format!("{}@{}:{}:{}", coarse_class(v), base, e.line, e.col)
		}).collect();
		let regions = ctx.output().iter().map(|(r, d)| (r.get_first(), d.to_vec())).collect();
		(if close_err { "close-error" } else if finalize_ok { "success" } else { "failure" }, regions, diags)
	});
	IN_IMPL.store(false, std::sync::atomic::Ordering::SeqCst);
	match res
	{
		Ok((status, regions, diags)) => Obs{status, regions, diags, panic: String::new()},
		Err(m) => Obs{status: "panic", regions: vec![], diags: vec![], panic: m},
	}
}

fn fmt_obs(o: &Obs) -> String
{
	let regions = if o.regions.is_empty() { "-".to_string() } else { o.regions.iter().map(|(a, d)| format!("{:x}:{}", a, hex_bytes(d))).collect::<Vec<_>>().join(",") };
	let diags = if o.diags.is_empty() { "-".to_string() } else { o.diags.join(",") };
	format!("dbg={} status={} regions={} diags={}{}", if cfg!(debug_assertions) { 1 } else { 0 }, o.status, regions, diags, if o.panic.is_empty() { String::new() } else { format!(" panic={}", o.panic.replace(' ', "_").replace('\n', "_")) })
}

/// the files go into the (already current) private directory; names that are not plain file names are not written
fn run_project(p: &Project) -> String
{
	let mut written = vec![];
	for (n, d) in &p.files
	{
		// plain names, or relative paths of plain components below the private directory (sub/a.asm)
		if n.split('/').all(plain_name)
		{
			if let Some(parent) = std::path::Path::new(n).parent() { if !parent.as_os_str().is_empty() { let _ = std::fs::create_dir_all(parent); } }
			if std::fs::write(n, d).is_ok() { written.push(n.clone()); }
		}
	}
	let src = p.files.iter().find(|(n, _)| *n == p.root).map(|(_, d)| d.clone()).unwrap_or_default();
	let o = run_root(src, p.root.clone());
	for n in written
	{
		let _ = std::fs::remove_file(&n);
		if let Some(parent) = std::path::Path::new(&n).parent() { if !parent.as_os_str().is_empty() { let _ = std::fs::remove_dir(parent); } }
	}
	fmt_obs(&o)
}

fn run_case(case: &str) -> String
{
	let body = match case.find(' ') { Some(i) => &case[i + 1..], None => "" };
	let proj = match body.find(" | ") { Some(i) => &body[..i], None => body };
	run_project(&parse_project(proj))
}

// ------------------------------------------------------------------ C13: histories
#[derive(Clone, Debug)]
struct Placed { addr: u64, bytes: Vec<u8>, deferred: bool }

struct Hist
{
	text: String,
	files: Vec<(String, Vec<u8>)>,
	owner: BTreeMap<u64, u8>,
	cur: Option<u64>,
	placed: Vec<Placed>,
	verdict: Option<&'static str>,
	pending: Vec<(String, i64, Option<usize>)>, // forward symbols still to define: (name, value, index of a .du32 that may be resolved by a label)
	uniq: u32,
}

const TOP: u64 = 1 << 32;

impl Hist
{
	fn new() -> Self { Hist{text: String::new(), files: vec![], owner: BTreeMap::new(), cur: None, placed: vec![], verdict: None, pending: vec![], uniq: 0} }
	fn done(&self) -> bool { self.verdict.is_some() }
	fn addr(&mut self, a: u32)
	{
		if self.done() { return; }
		self.text.push_str(&format!(".addr 0x{:X};\n", a));
		if self.owner.contains_key(&(a as u64)) { self.verdict = Some("occupied"); return; }
		self.cur = Some(a as u64);
	}
	/// place `bytes` at the current address (text already appended by the caller)
	fn place(&mut self, bytes: Vec<u8>, deferred: bool)
	{
		if self.done() { return; }
		let cur = self.cur.unwrap();
		for k in 0..bytes.len() as u64
		{
			if cur + k >= TOP || self.owner.contains_key(&(cur + k)) { self.verdict = Some("overflow"); return; }
		}
		for (k, b) in bytes.iter().enumerate() { self.owner.insert(cur + k as u64, *b); }
		self.placed.push(Placed{addr: cur, bytes: bytes.clone(), deferred});
		self.cur = Some(cur + bytes.len() as u64);
	}
	fn fresh(&mut self, p: &str) -> String { self.uniq += 1; format!("{}{}", p, self.uniq) }
}

fn enc(i: &Instruction) -> Vec<u8> { let mut b = [0u8; 4]; let n = i.encode(&mut b).unwrap(); b[..n].to_vec() }

/// one random write statement; `allow_def`: deferred forms allowed
fn c13_stmt(h: &mut Hist, rng: &mut Rng, allow_def: bool)
{
	if h.done() || h.cur.is_none() { return; }
	let cur = h.cur.unwrap();
	let deferred = allow_def && rng.chance(1, 3);
	match rng.below(10)
	{
		0 | 1 =>
		{
			// 2-byte instruction
			if deferred
			{
				let v = rng.below(256) as i64; let name = h.fresh("F");
				h.text.push_str(&format!("MOVS R{}, {};\n", 1, name));
				h.pending.push((name, v, None));
				h.place(enc(&Instruction::Mov{flags: true, dst: reg(1), src: ImmReg::Immediate(v as i32)}), true);
			}
			else
			{
				let (t, i) = match rng.below(3) { 0 => ("NOP;", Instruction::Nop), 1 => ("MOVS R2, 7;", Instruction::Mov{flags: true, dst: reg(2), src: ImmReg::Immediate(7)}), _ => ("BX LR;", Instruction::Bx{off: reg(14)}) };
				h.text.push_str(t); h.text.push('\n');
				h.place(enc(&i), false);
			}
		},
		2 =>
		{
			// 4-byte instruction
			let tgt = cur as i64 + 4 + 2 * rng.range(-3, 6);
			if deferred && cur < TOP && tgt >= 0 && tgt <= 0xFFFF_FFFF
			{
				// BL to a forward symbol whose value is an address at an even distance
				let name = h.fresh("T");
				h.text.push_str(&format!("BL {};\n", name));
				h.pending.push((name, tgt, None));
				h.place(enc(&Instruction::Bl{off: (tgt - (cur as i64 + 4)) as i32}), true);
			}
			else
			{
				h.text.push_str("DMB SY;\n");
				h.place(enc(&Instruction::Dmb), false);
			}
		},
		3 | 4 | 5 =>
		{
			let (d, size, max) = *rng.pick(&[("du8", 1usize, 0xFFu64), ("du16", 2, 0xFFFF), ("du32", 4, 0xFFFF_FFFF)]);
			let v = rng.next() & max;
			if deferred
			{
				let name = h.fresh("L");
				h.text.push_str(&format!(".{} {};\n", d, name));
				// resolved by a label when the value fits a plausible address, by a .const otherwise
				let idx = if size == 4 && rng.chance(1, 2) { Some(h.placed.len()) } else { None };
				h.pending.push((name, v as i64, idx));
			}
			else { h.text.push_str(&format!(".{} 0x{:X};\n", d, v)); }
			let before = h.placed.len();
			h.place(v.to_le_bytes()[..size].to_vec(), deferred);
			if deferred && h.placed.len() == before { h.pending.pop(); }
		},
		6 =>
		{
			let n = rng.below(6) as usize;
			// also multi-byte characters: the room a string needs is its length in BYTES
			let s: String = (0..n).map(|_| if rng.chance(1, 3) { *rng.pick(&['é', '€', '😀', 'ß']) } else { (b'a' + rng.below(26) as u8) as char }).collect();
			h.text.push_str(&format!(".dstr \"{}\";\n", s));
			h.place(s.into_bytes(), false);
		},
		7 =>
		{
			let nb = rng.below(6) as usize; let b = rng.bytes(nb);
			let mut t = String::new();
			for x in &b { t.push_str(&format!("{:02X}", x)); if rng.chance(1, 3) { t.push(' '); } }
			h.text.push_str(&format!(".dhex \"{}\";\n", t));
			h.place(b, false);
		},
		8 =>
		{
			let nb = rng.below(7) as usize; let b = rng.bytes(nb);
			let name = format!("{}.bin", h.fresh("d"));
			h.text.push_str(&format!(".dfile \"{}\";\n", name));
			h.files.push((name, b.clone()));
			h.place(b, false);
		},
		_ =>
		{
			if cur >= TOP { return; }
			// any alignment, not only powers of two (even non-powers of two, odd values, more than one 256-byte chunk)
			let mut k = *rng.pick(&[1u64, 2, 4, 8, 16, 2, 4, 3, 5, 6, 7, 10, 12, 24, 48, 100, 255, 256, 257, 1000]);
			if cur + k >= TOP { k = *rng.pick(&[1u64, 2, 4]); }
			h.text.push_str(&format!(".align {};\n", k));
			let pad = ((k - cur % k) % k) as usize;
			h.place(vec![0xBE; pad], false);
		},
	}
}

/// define pending forward symbols (labels when `as_label` and an active region with the right address, else .const)
fn c13_resolve(h: &mut Hist)
{
	let pend = std::mem::take(&mut h.pending);
	for (name, v, idx) in pend { c13_define(h, name, v, idx); }
}

fn c13_define(h: &mut Hist, name: String, v: i64, idx: Option<usize>)
{
	match (idx, h.cur)
	{
		(Some(i), Some(cur)) if !h.done() && cur < TOP =>
		{
			// a label: its value is the address of the next byte
			h.text.push_str(&format!("{}:\n", name));
			h.placed[i].bytes = (cur as u32).to_le_bytes().to_vec();
		},
		_ => h.text.push_str(&format!(".const {}, {};\n", name, v)),
	}
}

fn c13_history(rng: &mut Rng) -> (Project, String)
{
	let mut h = Hist::new();
	let win: u64 = *rng.pick(&[0x100u64, 0x2000_0000, 0xFFFF_FFE0, 0xFFFF_FFF0, 0, 0x1000_00F0]);
	let span: u64 = if win >= 0xFFFF_FFF0 { 16 } else { 32 };
	let pattern = rng.below(10);
	let rnd_addr = |rng: &mut Rng| (win + rng.below(span)) as u32;
	match pattern
	{
		0 =>
		{
			// forced: deferred statement first in region 1; region 2 filled exactly up to it (or one statement more); then resolve
			let a1 = (win + span / 2) as u32 & !3;
			h.addr(a1);
			let before = h.placed.len();
			while h.placed.len() == before && !h.done() { c13_stmt_forced_deferred(&mut h, rng); }
			for _ in 0..rng.below(3) { c13_stmt(&mut h, rng, true); }
			let n = 1 + rng.below(6);
			if (a1 as u64) >= win + n
			{
				h.addr(a1 - n as u32);
				// fill exactly n bytes
				let mut left = n;
				while left > 0 && !h.done()
				{
					let take = if left >= 4 && rng.chance(1, 3) { 4 } else if left >= 2 && rng.chance(1, 2) { 2 } else { 1 };
					let v = rng.next();
					match take { 4 => h.text.push_str(&format!(".du32 0x{:X};\n", v as u32)), 2 => h.text.push_str("NOP;\n"), _ => h.text.push_str(&format!(".du8 0x{:X};\n", v as u8)) }
					let bytes = match take { 4 => (v as u32).to_le_bytes().to_vec(), 2 => enc(&Instruction::Nop), _ => vec![v as u8] };
					h.place(bytes, false);
					left -= take;
				}
				if rng.chance(1, 3) { c13_stmt(&mut h, rng, true); }
			}
		},
		1 =>
		{
			// .addr of the active base before / after writing, .addr inside the active region
			let a = rnd_addr(rng);
			h.addr(a);
			if rng.chance(1, 2) { h.addr(a); }
			for _ in 0..1 + rng.below(3) { c13_stmt(&mut h, rng, true); }
			let inside = h.cur.map(|c| c.saturating_sub(1 + rng.below(3))).unwrap_or(a as u64).max(a as u64).min(0xFFFF_FFFF) as u32;
			match rng.below(3) { 0 => h.addr(a), 1 => h.addr(inside), _ => { let c = h.cur.unwrap_or(a as u64); if c < TOP { h.addr(c as u32) } } }
			for _ in 0..rng.below(3) { c13_stmt(&mut h, rng, true); }
		},
		2 =>
		{
			// adjacent: a2 + len = a1
			let a1 = (win + span / 2) as u32;
			h.addr(a1);
			for _ in 0..1 + rng.below(2) { c13_stmt(&mut h, rng, true); }
			let n = 1 + rng.below(8);
			if (a1 as u64) >= win + n { h.addr(a1 - n as u32); }
			for _ in 0..1 + rng.below(5) { c13_stmt(&mut h, rng, true); }
		},
		_ =>
		{
			let nops = 2 + rng.below(11);
			h.addr(rnd_addr(rng));
			for _ in 0..nops
			{
				if rng.chance(1, 4) { h.addr(rnd_addr(rng)); }
				else if rng.chance(1, 6) && !h.pending.is_empty() { let (n, v, i) = h.pending.remove(0); c13_define(&mut h, n, v, i); }
				else { c13_stmt(&mut h, rng, true); }
			}
		},
	}
	if !h.done() && rng.chance(1, 6) && !h.pending.is_empty()
	{
		// leave one symbol undefined: the statement keeps its placeholder and is reported
		h.pending.pop();
		h.verdict = Some("undefined");
	}
	c13_resolve(&mut h);
	let verdict = h.verdict.unwrap_or("ok");
	let mut exp = format!("V {}", verdict);
	for p in &h.placed { exp.push_str(&format!(" | S {:x} {} {}", p.addr, hex_bytes(&p.bytes), if p.deferred { "d" } else { "i" })); }
	let mut files = vec![("root.asm".to_string(), h.text.into_bytes())];
	files.extend(h.files);
	(Project{files, root: "root.asm".into()}, exp)
}

fn c13_stmt_forced_deferred(h: &mut Hist, rng: &mut Rng)
{
	if h.done() { return; }
	let cur = h.cur.unwrap();
	match rng.below(3)
	{
		0 =>
		{
			let v = rng.below(256) as i64; let name = h.fresh("F");
			h.text.push_str(&format!("MOVS R1, {};\n", name));
			h.pending.push((name, v, None));
			h.place(enc(&Instruction::Mov{flags: true, dst: reg(1), src: ImmReg::Immediate(v as i32)}), true);
		},
		1 =>
		{
			let tgt = cur as i64 + 4 + 2 * rng.range(-3, 6);
			if tgt < 0 || tgt > 0xFFFF_FFFF { return; }
			let name = h.fresh("T");
			h.text.push_str(&format!("B {};\n", name));
			h.pending.push((name, tgt, None));
			h.place(enc(&Instruction::B{cond: cond(14), off: (tgt - (cur as i64 + 4)) as i32}), true);
		},
		_ =>
		{
			let v = rng.next() as u32; let name = h.fresh("L");
			h.text.push_str(&format!(".du32 {};\n", name));
			h.pending.push((name, v as i64, None));
			h.place(v.to_le_bytes().to_vec(), true);
		},
	}
}

// ------------------------------------------------------------------ C05: programs
fn random_instr16(rng: &mut Rng) -> Instruction
{
	loop
	{
		let h = rng.next() as u16;
		if let Ok((2, i)) = Instruction::decode(&h.to_le_bytes()) { return i; }
	}
}

fn is_pcrel(i: &Instruction) -> bool
{
	matches!(i, Instruction::Adr{..} | Instruction::B{..} | Instruction::Bl{..} | Instruction::Ldr{addr: Register::PC, off: ImmReg::Immediate(_), ..})
}

struct Prog { text: String, files: Vec<(String, Vec<u8>)>, uniq: u32, cur: u64, labels: Vec<(String, u64)> }

fn c05_stmt(p: &mut Prog, rng: &mut Rng, fwd_labels: &mut Vec<String>)
{
	let cur = p.cur;
	match rng.below(14)
	{
		0 | 1 | 2 | 3 =>
		{
			// instruction in a random spelling; PC-relative ones get a target that fits
			let i = if rng.chance(1, 6) { *rng.pick(&[Instruction::Dmb, Instruction::Dsb, Instruction::Isb, Instruction::Bl{off: 0}, Instruction::Udfw{info: 0x1234}]) } else { random_instr16(rng) };
			let target = match i
			{
				Instruction::B{off, ..} => cur as i64 + 4 + off as i64,
				Instruction::Bl{..} => cur as i64 + 4 + 2 * rng.range(-40, 40),
				Instruction::Adr{off, ..} => (cur & !3) as i64 + 4 + off as i64,
				Instruction::Ldr{addr: Register::PC, off: ImmReg::Immediate(off), ..} => (cur & !3) as i64 + 4 + off as i64,
				_ => 0,
			};
			if is_pcrel(&i) && (target < 0 || target > 0xFFFF_FFFF) { return; }
			let r = render(&i, target, rng, true, &mut p.uniq);
			let len = if let Instruction::Bl{..} = i { 4 } else { let mut b = [0u8; 4]; match i.encode(&mut b) { Ok(n) => n, Err(..) => return } };
			p.text.push_str(&r.pre); p.text.push_str(&r.stmt); p.text.push('\n'); p.text.push_str(&r.post);
			p.cur += len as u64;
		},
		4 | 5 =>
		{
			// data value: literal, expression over constants / labels (backward or forward)
			let (d, size) = *rng.pick(&[("du8", 1u64), ("du16", 2), ("du32", 4)]);
			let e = match rng.below(6)
			{
				0 | 1 => format!("0x{:X}", rng.next() & if size == 1 { 0xFF } else if size == 2 { 0xFFFF } else { 0xFFFF_FFFF }),
				2 if size == 4 && !p.labels.is_empty() => rng.pick(&p.labels).0.clone(),
				3 if size == 4 => { let n = format!("fl{}", { p.uniq += 1; p.uniq }); fwd_labels.push(n.clone()); if rng.chance(1, 3) { n } else { fwd_expr(rng, &n, (0, 0xFFFF_FFFF), 0xFFFF_FFFF) } },
				4 if size == 4 && !p.labels.is_empty() => format!("{} + {}", rng.pick(&p.labels).0, rng.below(9)),
				_ => { p.uniq += 1; let n = format!("C{}", p.uniq); let v = rng.below(200); if rng.chance(1, 2) { p.text.push_str(&format!(".const {}, {};\n", n, v)); format!("{} + 1", n) } else { fwd_consts_push(p, &n, v); if rng.chance(1, 3) { format!("{} & 0xFF", n) } else { fwd_expr(rng, &n, (v as i128, v as i128), if size == 1 { 0xFF } else if size == 2 { 0xFFFF } else { 0xFFFF_FFFF }) } } },
			};
			p.text.push_str(&format!(".{} {};\n", d, e));
			p.cur += size;
		},
		6 =>
		{
			let n = rng.below(9) as usize;
			let s: String = (0..n).map(|_| *rng.pick(&['a', 'Z', '0', ' ', '_', 'x'])).collect();
			p.text.push_str(&format!(".dstr \"{}\";\n", s));
			p.cur += n as u64;
		},
		7 =>
		{
			let nb = rng.below(7) as usize; let b = rng.bytes(nb);
			let t: String = b.iter().map(|x| if rng.chance(1, 2) { format!("{:02x} ", x) } else { format!("{:02X}", x) }).collect();
			p.text.push_str(&format!(".dhex \"{}\";\n", t));
			p.cur += b.len() as u64;
		},
		8 =>
		{
			let nb = rng.below(20) as usize; let b = rng.bytes(nb);
			p.uniq += 1; let name = format!("blob{}.bin", p.uniq);
			p.text.push_str(&format!(".dfile \"{}\";\n", name));
			p.cur += b.len() as u64;
			p.files.push((name, b));
		},
		9 | 10 =>
		{
			let k = *rng.pick(&[1u64, 2, 4, 8, 256, 2, 4, 3, 6, 10, 12, 24, 100, 257]);
			p.text.push_str(&format!(".align {};\n", k));
			p.cur += (k - cur % k) % k;
		},
		11 | 12 =>
		{
			// label: a pending forward label if any, else a new one
			let name = if !fwd_labels.is_empty() && rng.chance(2, 3) { fwd_labels.remove(0) } else { p.uniq += 1; format!("lb{}", p.uniq) };
			p.text.push_str(&format!("{}:\n", name));
			p.labels.push((name, cur));
		},
		_ =>
		{
			p.uniq += 1;
			let n = format!("K{}", p.uniq);
			let e = if !p.labels.is_empty() && rng.chance(1, 2) { format!("{} - {}", rng.pick(&p.labels).0, rng.below(4)) } else { format!("{}", rng.below(100000)) };
			p.text.push_str(&format!(".const {}, {};\n", n, e));
		},
	}
}

/// an expression (all operators, nesting up to 4) over one name that is defined later; `iv`: what the generator knows of its value
fn fwd_expr(rng: &mut Rng, name: &str, iv: exprgen::Iv, mask: i64) -> String
{
	let names = vec![(Ex::Name(name.to_string()), iv)];
	let depth = 1 + rng.below(4) as u32;
	let (e, (lo, hi)) = exprgen::gen_with(rng, depth, &Leaves{names: &names, kmask: i64::MAX}, &[name.to_string()]);
	let e = if lo >= 0 && hi <= mask as i128 { e } else { exprgen::close_mask(e, mask, 0) };
	let minimal = rng.chance(1, 2);
	exprgen::show(&e, rng, minimal)
}

thread_local! { static FWD_CONSTS: std::cell::RefCell<Vec<(String, u64)>> = std::cell::RefCell::new(vec![]); }
fn fwd_consts_push(_p: &mut Prog, n: &str, v: u64) { FWD_CONSTS.with(|f| f.borrow_mut().push((n.to_string(), v))); }

fn c05_program(rng: &mut Rng) -> Project
{
	FWD_CONSTS.with(|f| f.borrow_mut().clear());
	let mut p = Prog{text: String::new(), files: vec![], uniq: 0, cur: 0, labels: vec![]};
	let nregions = 1 + rng.below(4);
	// distinct bases far enough apart (a region stays below 0x800 bytes), in random order
	let mut bases: Vec<u64> = vec![];
	while (bases.len() as u64) < nregions
	{
		let b = *rng.pick(&[0x0u64, 0x1000_0000, 0x2000_0000, 0x2000_1000, 0xFFFF_0000, 0x0800_0000]) + 0x1000 * rng.below(4) + *rng.pick(&[0u64, 0, 1, 2, 3, 0x80]);
		if !bases.iter().any(|x| x.abs_diff(b) < 0x1000) { bases.push(b); }
	}
	let mut fwd_labels: Vec<String> = vec![];
	let forced = rng.chance(1, 8);
	for (k, b) in bases.iter().enumerate()
	{
		p.text.push_str(&format!(".addr 0x{:X};\n", b));
		p.cur = *b;
		if forced && k == 0 && nregions > 1
		{
			// forward reference, then region switch, then definition
			p.uniq += 1; let n = format!("fl{}", p.uniq); fwd_labels.push(n.clone());
			p.text.push_str(&format!(".du32 {};\n", n)); p.cur += 4;
			continue;
		}
		for _ in 0..1 + rng.below(10) { c05_stmt(&mut p, rng, &mut fwd_labels); if p.cur - b > 0x700 { break; } }
	}
	// pending forward labels and constants are defined at the end (the last region is still active)
	for n in fwd_labels.drain(..) { p.text.push_str(&format!("{}:\n", n)); }
	FWD_CONSTS.with(|f| for (n, v) in f.borrow().iter() { p.text.push_str(&format!(".const {}, {};\n", n, v)); });
	let mut files = vec![("root.asm".to_string(), p.text.into_bytes())];
	files.extend(p.files);
	Project{files, root: "root.asm".into()}
}

// ------------------------------------------------------------------ C05: deferred statements over the whole expression language
// Every `.du8/.du16/.du32` value and every instruction operand of these programs is an expression (all operators, unary
// `-` and `!`, nesting up to 4) over constants and names that are NOT YET KNOWN where the statement stands:
//   (a) plain forward references (label / `.const` defined later in the file),
//   (b) names declared by `.global n;` before the use (in an included file: `.import n;` of a name the includer has only
//       declared) that get their value later (label / `.const` later in the file, for an import: in the includer).
// The program is laid out first (sizes are syntactic), so every name has its final value before the expressions are
// drawn; the values are kept in range by `& mask` or by adding the constant that yields a chosen value.  The same
// statement is placed again AFTER all definitions (second region / second included file): C05's order independence.
// The oracle is Asm/LayoutSpecExt.v in the driver; nothing computed here is an expectation.
struct Hole { file: usize, templ: usize, addr: u64, unknown: Vec<String>, known: Vec<String>, same_as: Option<usize> }
#[derive(Clone)]
struct XName { name: String, is_label: bool, cval: i64, declared: bool }
struct XG { files: Vec<(String, String)>, holes: Vec<Hole>, vals: std::collections::HashMap<String, i64>, uniq: u32, cur: u64 }

impl XG
{
	fn fresh(&mut self, p: &str) -> String { self.uniq += 1; format!("{}{}", p, self.uniq) }
	fn hole(&mut self, fi: usize, templ: usize, unknown: &[String], known: &[String], same_as: Option<usize>) -> usize
	{
		let id = self.holes.len();
		let t = &TEMPL[templ];
		self.files[fi].1.push_str(&t.text.replace("{}", &format!("@{}@", id)));
		self.files[fi].1.push_str(";\n");
		self.holes.push(Hole{file: fi, templ, addr: self.cur, unknown: unknown.to_vec(), known: known.to_vec(), same_as});
		self.cur += t.size;
		id
	}
	fn filler(&mut self, fi: usize, rng: &mut Rng)
	{
		let cur = self.cur;
		let (t, n): (String, u64) = match rng.below(6)
		{
			0 | 1 => ("NOP;".into(), 2),
			2 => (format!(".du8 0x{:X};", rng.below(256)), 1),
			3 => (".dstr \"ab\";".into(), 2),
			4 => (".align 4;".into(), (4 - cur % 4) % 4),
			_ => (".align 2;".into(), cur % 2),
		};
		self.files[fi].1.push_str(&t); self.files[fi].1.push('\n');
		self.cur += n;
	}
	fn define(&mut self, fi: usize, n: &XName)
	{
		if n.is_label { self.files[fi].1.push_str(&format!("{}:\n", n.name)); self.vals.insert(n.name.clone(), self.cur as i64); }
		else
		{
			let v = if n.cval < 0 { format!("-{}", -n.cval) } else if n.cval % 3 == 0 { format!("0x{:X}", n.cval) } else { format!("{}", n.cval) };
			self.files[fi].1.push_str(&format!(".const {}, {};\n", n.name, v));
			self.vals.insert(n.name.clone(), n.cval);
		}
	}
}

fn xcval(rng: &mut Rng) -> i64
{
	match rng.below(8) { 0 | 1 => rng.below(300) as i64, 2 => rng.below(0x1_0000_0000) as i64, 3 => -(rng.below(200) as i64) - 1, 4 => 1 << rng.below(20), 5 => 0x1000 + 4 * rng.below(0x400) as i64, 6 => rng.below(0x10000) as i64, _ => 2 + rng.below(60) as i64 }
}

fn names_of(v: &[XName]) -> Vec<String> { v.iter().map(|n| n.name.clone()).collect() }

fn c05x_program(rng: &mut Rng) -> Project
{
	let mut x = XG{files: vec![("root.asm".into(), String::new())], holes: vec![], vals: std::collections::HashMap::new(), uniq: 0, cur: 0};
	let mut bases: Vec<u64> = vec![];
	while bases.len() < 2
	{
		let b = *rng.pick(&[0x0u64, 0x1000_0000, 0x2000_0000, 0x2000_1000, 0xFFFF_0000, 0x0800_0000]) + 0x1000 * rng.below(3) + *rng.pick(&[0u64, 0, 0, 1, 2, 3, 0x80]);
		if !bases.iter().any(|y| y.abs_diff(b) < 0x2000) { bases.push(b); }
	}
	let mut pending: Vec<XName> = vec![];
	let mut known: Vec<String> = vec![];
	let ng = if rng.chance(1, 8) { 0 } else { 1 + rng.below(3) };
	let addr_first = rng.chance(1, 2);
	if addr_first { x.files[0].1.push_str(&format!(".addr 0x{:X};\n", bases[0])); }
	for _ in 0..ng
	{
		let n = XName{name: x.fresh("g"), is_label: rng.chance(1, 2), cval: xcval(rng), declared: true};
		x.files[0].1.push_str(&format!(".global {};\n", n.name));
		pending.push(n);
	}
	if !addr_first { x.files[0].1.push_str(&format!(".addr 0x{:X};\n", bases[0])); }
	x.cur = bases[0];
	let mut child: Option<(Vec<String>, Vec<usize>)> = None;   // (imported names, holes of the child that use imported names only)
	let n1 = 3 + rng.below(8);
	for step in 0..n1
	{
		match if step == 0 { 0 } else { rng.below(13) }
		{
			0..=5 =>
			{
				if pending.is_empty() || rng.chance(1, 3) { let n = XName{name: x.fresh("f"), is_label: rng.chance(1, 2), cval: xcval(rng), declared: false}; pending.push(n); }
				let t = rng.below(TEMPL.len() as u64) as usize;
				x.hole(0, t, &names_of(&pending), &known, None);
			},
			6 => x.filler(0, rng),
			7 => { let n = XName{name: x.fresh("b"), is_label: true, cval: 0, declared: false}; x.define(0, &n); known.push(n.name); },
			8 => if !pending.is_empty() { let n = pending.remove(rng.below(pending.len() as u64) as usize); x.define(0, &n); known.push(n.name); },
			9 => { let n = XName{name: x.fresh("c"), is_label: false, cval: xcval(rng), declared: false}; x.define(0, &n); known.push(n.name); },
			10 | 11 if child.is_none() && (pending.iter().any(|n| n.declared) || !known.is_empty()) =>
			{
				// an included file that imports names the root has declared (value still to come) or already defined
				let fi = x.files.len();
				x.files.push(("c1.asm".into(), String::new()));
				let mut imp_pending: Vec<String> = vec![];
				let mut imp_known: Vec<String> = vec![];
				for n in pending.iter().filter(|n| n.declared) { if rng.chance(3, 4) { imp_pending.push(n.name.clone()); } }
				for n in known.iter() { if rng.chance(1, 4) { imp_known.push(n.clone()); } }
				if imp_pending.is_empty() && imp_known.is_empty() { match pending.iter().find(|n| n.declared) { Some(n) => imp_pending.push(n.name.clone()), None => imp_known.push(known[0].clone()) } }
				for n in imp_pending.iter().chain(imp_known.iter()) { x.files[fi].1.push_str(&format!(".import {};\n", n)); }
				let mut cpend: Vec<XName> = vec![];
				let mut cknown: Vec<String> = imp_known.clone();
				// the other direction: a name the root uses as a plain forward reference is declared (`.global`) and valued in the included file
				let mut handed: Vec<String> = vec![];
				let mut exported: Vec<String> = vec![];
				if rng.chance(1, 3)
				{
					if let Some(pos) = pending.iter().position(|n| !n.declared)
					{
						let n = pending.remove(pos);
						// handed up either by `.global` in the included file, or - the root declares the name before the include -
						// by `.export` once the included file has defined it
						if rng.chance(1, 2) { x.files[fi].1.push_str(&format!(".global {};
", n.name)); }
						else { x.files[0].1.push_str(&format!(".global {};
", n.name)); exported.push(n.name.clone()); }
						handed.push(n.name.clone());
						cpend.push(n);
					}
				}
				let mut own_holes: Vec<usize> = vec![];
				let mut imp_only: Vec<usize> = vec![];
				let mut shadow: Vec<String> = vec![];   // names private to the included file; the root may hold private constants of the same names
				for _ in 0..2 + rng.below(4)
				{
					match rng.below(8)
					{
						0..=4 =>
						{
							let t = rng.below(TEMPL.len() as u64) as usize;
							if rng.chance(1, 2) && !imp_pending.is_empty() { let h = x.hole(fi, t, &imp_pending, &imp_known, None); imp_only.push(h); own_holes.push(h); }
							else
							{
								if (cpend.is_empty() && imp_pending.is_empty()) || rng.chance(1, 3) { let n = XName{name: x.fresh("cf"), is_label: rng.chance(1, 2), cval: xcval(rng), declared: false}; shadow.push(n.name.clone()); cpend.push(n); }
								let mut unk = imp_pending.clone(); unk.extend(names_of(&cpend));
								let h = x.hole(fi, t, &unk, &cknown, None); own_holes.push(h);
							}
						},
						5 => x.filler(fi, rng),
						6 => { let n = XName{name: x.fresh("cb"), is_label: true, cval: 0, declared: false}; x.define(fi, &n); shadow.push(n.name.clone()); cknown.push(n.name); },
						_ => if !cpend.is_empty() { let n = cpend.remove(0); x.define(fi, &n); cknown.push(n.name); },
					}
				}
				for n in cpend.drain(..) { x.define(fi, &n); }
				for n in exported.iter() { x.files[fi].1.push_str(&format!(".export {};
", n)); }
				// the same statements once more inside the file (its own names are defined now, the imported ones may still be open)
				for h in own_holes { if TEMPL[x.holes[h].templ].kind == 0 && rng.chance(1, 2) { let t = x.holes[h].templ; x.hole(fi, t, &[], &[], Some(h)); } }
				// file scope: private constants of the root with the names (and other values) of the included file's private names
				let before = rng.chance(1, 2);
				let mut decoys = String::new();
				for n in shadow.iter() { if rng.chance(2, 3) { decoys.push_str(&format!(".const {}, {};\n", n, 0x5A5A00 + rng.below(200))); } }
				if before { x.files[0].1.push_str(&decoys); }
				x.files[0].1.push_str(".include \"c1.asm\";\n");
				if !before { x.files[0].1.push_str(&decoys); }
				known.extend(handed);
				let mut imps = imp_pending; imps.extend(imp_known);
				child = Some((imps, imp_only));
			},
			_ => x.filler(0, rng),
		}
	}
	let first: Vec<usize> = (0..x.holes.len()).filter(|&h| x.holes[h].file == 0 && x.holes[h].same_as.is_none()).collect();
	if rng.chance(3, 4) { x.files[0].1.push_str(&format!(".addr 0x{:X};\n", bases[1])); x.cur = bases[1]; }
	while !pending.is_empty()
	{
		if rng.chance(1, 3) { x.filler(0, rng); }
		let n = pending.remove(rng.below(pending.len() as u64) as usize);
		x.define(0, &n); known.push(n.name);
	}
	// second region: the same statements after all definitions
	if rng.chance(1, 2) { x.filler(0, rng); }
	for h in first
	{
		let t = x.holes[h].templ;
		if TEMPL[t].kind == 0 { x.hole(0, t, &[], &[], Some(h)); }
		else if rng.chance(1, 2) { x.hole(0, t, &[], &known, None); }
	}
	if let Some((imps, imp_only)) = child
	{
		if !imp_only.is_empty() && rng.chance(3, 4)
		{
			let fi = x.files.len();
			x.files.push(("c2.asm".into(), String::new()));
			for n in imps.iter() { x.files[fi].1.push_str(&format!(".import {};\n", n)); }
			for h in imp_only { let t = x.holes[h].templ; if TEMPL[t].kind == 0 { x.hole(fi, t, &[], &[], Some(h)); } else { x.hole(fi, t, &[], &imps, None); } }
			x.files[0].1.push_str(".include \"c2.asm\";\n");
		}
	}
	// the expressions, now that every name has its final value
	let mut texts: Vec<String> = vec![];
	for h in 0..x.holes.len()
	{
		let hole = &x.holes[h];
		if let Some(o) = hole.same_as { let t = texts[o].clone(); texts.push(t); continue; }
		let t = &TEMPL[hole.templ];
		let iv = |n: &String| { let v = *x.vals.get(n).expect("name without value") as i128; (Ex::Name(n.clone()), (v, v)) };
		let mut names: Vec<(Ex, exprgen::Iv)> = vec![];
		for n in hole.unknown.iter() { for _ in 0..3 { names.push(iv(n)); } }
		for n in hole.known.iter() { names.push(iv(n)); }
		let lv = Leaves{names: &names, kmask: i64::MAX};
		let must: Vec<String> = if hole.unknown.is_empty() { hole.known.clone() } else { hole.unknown.clone() };
		// the wanted value of a PC-relative operand: a target in range of the instruction
		let a = hole.addr as i64;
		let mut want: Option<i64> = None;
		while t.kind != 0
		{
			let w = match t.kind
			{
				1 => a + 4 + 2 * rng.range(-1024, 1023),
				2 => a + 4 + 2 * rng.range(-128, 127),
				3 => a + 4 + 2 * rng.range(-0x8000, 0x8000),
				_ => (a & !3) + 4 + 4 * rng.range(0, 255),
			};
			if w >= 0 && w <= 0xFFFF_FFFF { want = Some(w); break; }
		}
		let mut done: Option<Ex> = None;
		for attempt in 0..10
		{
			let depth = if attempt < 8 { 1 + rng.below(4) as u32 } else { 1 };
			let (e, (lo, hi)) = exprgen::gen_with(rng, depth, &lv, &must);
			if lo != hi { continue; }
			let v = lo as i64;
			let closed = match want
			{
				Some(w) => exprgen::close_exact(e, v, w, rng),
				None =>
				{
					let fits = v >= t.plus && v <= t.plus + t.mask && ((v - t.plus) & t.mask) == v - t.plus;
					if fits && rng.chance(2, 3) { Some(e) }
					else if rng.chance(1, 2) { Some(exprgen::close_mask(e, t.mask, t.plus)) }
					else { let w = t.plus + (rng.next() as i64 & t.mask); exprgen::close_exact(e.clone(), v, w, rng).or(Some(exprgen::close_mask(e, t.mask, t.plus))) }
				},
			};
			if closed.is_some() { done = closed; break; }
		}
		let e = done.unwrap_or_else(|| Ex::Num(want.unwrap_or(t.plus)));
		let minimal = rng.chance(1, 2);
		texts.push(exprgen::show(&e, rng, minimal));
	}
	let mut files: Vec<(String, Vec<u8>)> = vec![];
	for (n, text) in x.files.iter()
	{
		let mut s = text.clone();
		for h in (0..texts.len()).rev() { s = s.replace(&format!("@{}@", h), &texts[h]); }
		files.push((n.clone(), s.into_bytes()));
	}
	Project{files, root: "root.asm".into()}
}

/// moves every file but the root into the directory `sub/` (the root then names them `sub/<name>`, they keep naming each
/// other by the bare name, which must resolve against THEIR directory) and leaves a decoy of each at the old place
fn into_subdir(p: &mut Project)
{
	if p.files.len() < 2 || p.files.iter().any(|(n, _)| n.contains('/')) { return; }
	let root = p.root.clone();
	let children: Vec<String> = p.files.iter().map(|(n, _)| n.clone()).filter(|n| *n != root).collect();
	let ri = match p.files.iter().position(|(n, _)| *n == root) { Some(i) => i, None => return };
	let mut text = String::from_utf8_lossy(&p.files[ri].1).into_owned();
	for c in &children { text = text.replace(&format!("\"{}\"", c), &format!("\"sub/{}\"", c)); }
	p.files[ri].1 = text.into_bytes();
	let mut decoys = vec![];
	for (n, _) in p.files.iter_mut()
	{
		if *n != root
		{
			decoys.push((n.clone(), if n.ends_with(".asm") { b".du8 0xEE;\n".to_vec() } else { vec![0xDD; 3] }));
			*n = format!("sub/{}", n);
		}
	}
	p.files.extend(decoys);
}

// ------------------------------------------------------------------ fixed cases
fn single(src: &str) -> Project { Project{files: vec![("root.asm".into(), src.as_bytes().to_vec())], root: "root.asm".into()} }

fn corpus_c13() -> Vec<(Project, String)>
{
	vec![
		// F12: write_at capacity
		(single(".addr 0x20000010; NOP; .addr 0x2000000E; NOP; NOP;"), "V overflow | S 20000010 00bf i | S 2000000e 00bf i".into()),
		(single(".addr 0xFFFFFFFE; .du32 1;"), "V overflow".into()),
		(single(".addr 0x20000010; NOP; .addr 0x2000000E; .du32 5;"), "V overflow | S 20000010 00bf i".into()),
		// F13: .addr of the active base
		(single(".addr 0x100; NOP; .addr 0x100; NOP;"), "V occupied | S 100 00bf i".into()),
		(single(".addr 0x100; .addr 0x100; NOP;"), "V ok | S 100 00bf i".into()),
		// full region at the top of the address space
		(single(".addr 0xFFFFFFFF; .du8 1; .du8 2;"), "V overflow | S ffffffff 01 i".into()),
		(single(".addr 0xFFFFFFFE; NOP; NOP;"), "V overflow | S fffffffe 00bf i".into()),
		(single(".addr 0xFFFFFFFC; .du32 later; .const later, 7;"), "V ok | S fffffffc 07000000 d".into()),
		(single(".addr 0xFFFFFFFF; .du8 later; .const later, 7;"), "V ok | S ffffffff 07 d".into()),
		// F14: deferred statement where another region ends
		(single(".addr 0x20000010; B later; NOP; .addr 0x2000000E; NOP; later:"), "V ok | S 20000010 fee7 d | S 20000012 00bf i | S 2000000e 00bf i".into()),
		(single(".addr 0x20000010; .du32 later; NOP; .addr 0x2000000C; .du32 1; later:"), "V ok | S 20000010 10000020 d | S 20000014 00bf i | S 2000000c 01000000 i".into()),
		(single(".addr 0x20000010; B later; NOP; .addr 0x2000000E; NOP; NOP; later:"), "V overflow | S 20000010 fee7 d | S 20000012 00bf i | S 2000000e 00bf i".into()),
		(single(".addr 0x20000010; NOP; .addr 0x20000011; NOP;"), "V occupied | S 20000010 00bf i".into()),
		(single(".addr 0x20000010; NOP; .addr 0x2000000F; .align 4;"), "V ok | S 20000010 00bf i | S 2000000f be i".into()),
		// audit-C: padding longer than one 256-byte chunk of align.rs (no generated history pads more than 255 bytes)
		(single(".addr 0x104; .align 1024; NOP;"), format!("V ok | S 104 {} i | S 400 00bf i", "be".repeat(764))),
		(single(".addr 0x101; .align 512; .du8 1; .align 0x300; NOP;"), format!("V ok | S 101 {} i | S 200 01 i | S 201 {} i | S 300 00bf i", "be".repeat(255), "be".repeat(255))),
		(single(".addr 0x300; NOP; .addr 0x0; .du8 1; .align 1024;"), "V overflow | S 300 00bf i | S 0 01 i".into()),
		(single(".addr 0xFFFFFC01; .align 512; .align 1024;"), format!("V ok | S fffffc01 {} i | S fffffe00 {} i", "be".repeat(511), "be".repeat(512))),
		// a string whose character count fits the room before the next region but whose bytes do not
		(single(".addr 0x108; .dstr \"NEXT\"; .addr 0x100; .dstr \"\u{e9}\u{e9}\u{e9}\u{e9}\u{e9}\";"), "V overflow | S 108 4e455854 i".into()),
		(single(".addr 0x108; .dstr \"NEXT\"; .addr 0x100; .dstr \"\u{e9}\u{e9}\u{e9}\u{e9}\";"), "V ok | S 108 4e455854 i | S 100 c3a9c3a9c3a9c3a9 i".into()),
		(single(".addr 0xFFFFFFFC; .dstr \"\u{e9}\u{e9}\u{e9}\";"), "V overflow".into()),
		// a region of more than 64 KiB (and of 128 KiB), then a fresh region: the next byte goes to the selected address
		(single(".addr 0x20000001; .du8 0x55; .align 0x20000; .addr 0x10000000; .du8 0xA1; .du8 0xA2;"), format!("V ok | S 20000001 55 i | S 20000002 {} i | S 10000000 a1 i | S 10000001 a2 i", "be".repeat(0x1fffe))),
		(single(".addr 0x30000000; .align 0x10000; .du8 1; .align 0x10000; .addr 0x30000000 - 2; .du16 0x0302; .addr 0x40000000; .du8 4;"), format!("V ok | S 30000000 01 i | S 30000001 {} i | S 2ffffffe 0203 i | S 40000000 04 i", "be".repeat(0xffff))),
	]
}

/// projects with sub-directories, with the image they must produce (a name is resolved against the file that uses it)
fn corpus_c05_subdir() -> Vec<(Project, String)>
{
	let f = |n: &str, s: &str| (n.to_string(), s.as_bytes().to_vec());
	vec![
		(Project{files: vec![f("root.asm", ".addr 0x100; .include \"sub/a.asm\"; .du8 9;"), f("sub/a.asm", ".du8 1; .include \"b.asm\"; .dfile \"blob.bin\"; .du8 5;"),
			f("sub/b.asm", ".du8 2;"), f("b.asm", ".du8 0xEE;"), ("sub/blob.bin".into(), vec![3, 4]), ("blob.bin".into(), vec![0xDD, 0xDD])], root: "root.asm".into()},
			"IMG 100:010203040509".to_string()),
		(Project{files: vec![f("root.asm", ".addr 0x200; .include \"x/y/deep.asm\"; L: .du8 L & 0xFF;"), f("x/y/deep.asm", ".dfile \"d.bin\"; .include \"z/leaf.asm\";"),
			f("x/y/z/leaf.asm", ".du16 0x1234;"), ("x/y/d.bin".into(), vec![7]), ("d.bin".into(), vec![0xDD]), f("z/leaf.asm", ".du8 0xEE;")], root: "root.asm".into()},
			"IMG 200:07341203".into()),
		// an included file with the base name of the file that includes it, in another directory
		(Project{files: vec![f("root.asm", ".addr 0x300; .du8 1; .include \"boot/root.asm\"; .du8 3;"), f("boot/root.asm", ".du8 2; .include \"inner/root.asm\";"), f("boot/inner/root.asm", ".du8 0x22;")], root: "root.asm".into()},
			"IMG 300:01022203".into()),
	]
}

fn corpus_c05() -> Vec<Project>
{
	let mut v = corpus_c05_fixed();
	// .dfile around the 1024-byte read chunk (and multiples of it), a label behind it
	for n in [1023usize, 1024, 1025, 2047, 2048, 2049, 3000, 4096]
	{
		let data: Vec<u8> = (0..n).map(|k| (k * 7 + k / 256) as u8).collect();
		v.push(Project{files: vec![("root.asm".into(), b".addr 0x20000000; .du8 1; .dfile \"big.bin\"; after: .du32 after; .dfile \"big.bin\"; .du8 2;".to_vec()), ("big.bin".into(), data)], root: "root.asm".into()});
	}
	v
}

fn corpus_c05_fixed() -> Vec<Project>
{
	vec![
		single(".addr 0x100; B later; NOP; later: NOP;"),
		single(".addr 0x100; B later; .addr 0x200; NOP; later: NOP;"),
		single(".addr 0x20000010; .du32 later; NOP; .addr 0x2000000C; .du32 1; later:"),
		single(".const A, 5; .addr 0x100 + A; x: .du32 x + A; .align 8; y: .du16 y - x; .dstr \"hi\"; .dhex \"0a 0B\"; .align 256; z: .du8 z & 0xFF;"),
		Project{files: vec![("root.asm".into(), b".addr 0x10000000; start: LDR R0, lit; .dfile \"b.bin\"; .align 4; lit: .du32 start;".to_vec()), ("b.bin".into(), vec![1, 2, 3])], root: "root.asm".into()},
	]
}

fn main()
{
	// panics of the implementation are observations; panics of the generator are bugs and stay loud
	std::panic::set_hook(Box::new(|info| { if !IN_IMPL.load(std::sync::atomic::Ordering::SeqCst) { eprintln!("harness panic: {}", info); } }));
	let tmp = std::env::var("VERIF_TMP").unwrap_or_else(|_| format!("/verif/.build/tmp/ctx_{}", std::process::id()));
	std::fs::create_dir_all(&tmp).expect("tmp dir");
	std::env::set_current_dir(&tmp).expect("chdir");
	let mut out = Out::new();
	match mode()
	{
		Mode::Replay => { for c in replay_cases() { let r = run_case(&c); out.line(&c, &r); } },
		Mode::Gen{thorough, seed, shard, nshards} =>
		{
			let stream = std::env::args().nth(6).unwrap_or_else(|| "c13".into());
			let mut sh = Shard{k: 0, shard, n: nshards};
			let mut rng = Rng::new(seed ^ if stream == "c05" { 0x5555 } else { 0x1313 });
			if stream == "c14"
			{
				// C14's share of the layout stream: multi-file projects only (names handed down by .import, up by .global,
				// private names reused across files, deferred expressions over them), judged against the multi-file reference
				for (p, e) in corpus_c05_subdir() { if sh.mine() { let c = format!("C05 {} | {}", project_text(&p), e); let r = run_project(&p); out.line(&c, &r); } }
				let mut rng = Rng::new(seed ^ 0x1414_0505);
				let n = if thorough { 120_000 } else { 4_000 };
				for _ in 0..n
				{
					let mut p = c05x_program(&mut rng);
					if p.files.len() < 2 { continue; }
					if rng.chance(1, 6) { into_subdir(&mut p); }
					if sh.mine() { let c = format!("C05 {}", project_text(&p)); let r = run_project(&p); out.line(&c, &r); }
				}
			}
			else if stream == "c05"
			{
				for p in corpus_c05() { if sh.mine() { let c = format!("C05 {}", project_text(&p)); let r = run_project(&p); out.line(&c, &r); } }
				for (p, e) in corpus_c05_subdir() { if sh.mine() { let c = format!("C05 {} | {}", project_text(&p), e); let r = run_project(&p); out.line(&c, &r); } }
				let n = if thorough { 100_000 } else { 3_000 };
				for _ in 0..n
				{
					let mut p = c05_program(&mut rng);
					if p.files.len() > 1 && rng.chance(1, 6) { into_subdir(&mut p); }
					if sh.mine() { let c = format!("C05 {}", project_text(&p)); let r = run_project(&p); out.line(&c, &r); }
				}
				let mut rng = Rng::new(seed ^ 0x0505_0505);
				let n = if thorough { 100_000 } else { 3_000 };
				for _ in 0..n
				{
					let mut p = c05x_program(&mut rng);
					if p.files.len() > 1 && rng.chance(1, 6) { into_subdir(&mut p); }
					if sh.mine() { let c = format!("C05 {}", project_text(&p)); let r = run_project(&p); out.line(&c, &r); }
				}
			}
			else
			{
				for (p, e) in corpus_c13() { if sh.mine() { let c = format!("C13 {} | {}", project_text(&p), e); let r = run_project(&p); out.line(&c, &r); } }
				let n = if thorough { 2_000_000 } else { 20_000 };
				for _ in 0..n
				{
					let (p, e) = c13_history(&mut rng);
					if sh.mine() { let c = format!("C13 {} | {}", project_text(&p), e); let r = run_project(&p); out.line(&c, &r); }
				}
			}
		},
	}
	drop(out);
	let _ = std::env::set_current_dir("/");
	let _ = std::fs::remove_dir_all(&tmp);
}
