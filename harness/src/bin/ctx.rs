//! C13 / C05 (and the shared project runner for C06 / C14): whole-pipeline runs of generated projects.
//!
//! case  = `<stream> F <hexname> <hexbytes> ; F ... ; ROOT <hexname> [| <expectation> ...]`
//!         (files are written into a private directory $VERIF_TMP, the process runs inside it, so every path is a
//!          plain relative file name; the directory is removed afterwards)
//! result= `dbg=<0|1> status=<success|failure|close-error|panic> regions=<base:hex,...|-> diags=<class@file:line:col,...|->`
//!         class = constructor chain of the error value (downcasts; never message text), file = base name.
//! Expectations (generator-side oracle, independent of the Coq model; checked by ocaml/drv_C13.ml on the
//! implementation's result):
//!   C13:  `V ok|occupied|overflow` then `S <addr> <hexbytes> <i|d>` per statement placed before the first violation
//!         (i = written immediately, d = deferred: placeholder first, resolved bytes at the end of the file)
//!   C05:  none — the driver evaluates Asm/LayoutSpec.v on the parsed program.
use std::collections::BTreeMap;
use std::error::Error;
use std::path::PathBuf;
use trion::arm6m::asm::{ImmReg, Instruction};
use trion::arm6m::reg::Register;
use trion::arm6m::{Arm6M, AsmError};
use trion::asm::directive::addr::AddrError;
use trion::asm::directive::align::AlignError;
use trion::asm::directive::constant::ConstError;
use trion::asm::directive::data::DataError;
use trion::asm::directive::global::GlobalError;
use trion::asm::directive::include::IncludeError;
use trion::asm::directive::{DirectiveErrorKind, DirectiveList};
use trion::asm::instr::InstrErrorKind;
use trion::asm::simplify::EvalError;
use trion::asm::{AsmErrorKind, ConstantError, Context, SegmentError};
use verif_harness::codec::*;
use verif_harness::stmtgen::*;
use verif_harness::*;

// ------------------------------------------------------------------ projects
#[derive(Clone, Debug)]
struct Project { files: Vec<(String, Vec<u8>)>, root: String }

fn hexs(s: &str) -> String { hex_bytes(s.as_bytes()) }

fn project_text(p: &Project) -> String
{
	let mut v: Vec<String> = p.files.iter().map(|(n, d)| format!("F {} {}", hexs(n), hex_bytes(d))).collect();
	v.push(format!("ROOT {}", hexs(&p.root)));
	v.join(" ; ")
}

fn parse_project(s: &str) -> Project
{
	let mut p = Project{files: vec![], root: String::new()};
	for part in s.split(" ; ")
	{
		let t: Vec<&str> = part.split_whitespace().collect();
		match t.as_slice()
		{
			["F", n, d] => p.files.push((String::from_utf8_lossy(&parse_hex_bytes(n)).into_owned(), parse_hex_bytes(d))),
			["ROOT", n] => p.root = String::from_utf8_lossy(&parse_hex_bytes(n)).into_owned(),
			_ => {},
		}
	}
	p
}

fn plain_name(n: &str) -> bool { !n.is_empty() && !n.contains('/') && !n.contains('\\') && n != "." && n != ".." && !n.contains('\0') }

// ------------------------------------------------------------------ diagnostics: constructor chain
fn seg_class(e: &SegmentError) -> &'static str
{
	match e { SegmentError::Write(..) => "seg_write", SegmentError::Occupied(..) => "seg_occupied", SegmentError::Overflow{..} => "seg_overflow" }
}

fn sub_class(e: &(dyn Error + 'static)) -> String
{
	if let Some(c) = e.downcast_ref::<ConstantError>()
	{
		return match c
		{
			ConstantError::NotFound{..} => "const_notfound", ConstantError::Reserved(..) => "const_reserved", ConstantError::Duplicate{..} => "const_duplicate",
			ConstantError::Range{..} => "range", ConstantError::Alignment{..} => "alignment",
		}.into();
	}
	if e.is::<EvalError>() { return "eval".into(); }
	if let Some(a) = e.downcast_ref::<AddrError>() { return match a { AddrError::Range(..) => "addr_range".into(), AddrError::Segment(s) => seg_class(s).into() }; }
	if let Some(a) = e.downcast_ref::<AlignError>()
	{
		return match a { AlignError::Inactive => "align_inactive".into(), AlignError::Range(..) => "align_range".into(), AlignError::Overflow{..} => "align_overflow".into(), AlignError::Write(s) => seg_class(s).into() };
	}
	if let Some(d) = e.downcast_ref::<DataError>()
	{
		return match d
		{
			DataError::Inactive => "data_inactive".into(), DataError::Range{..} => "data_range".into(), DataError::HexChar{..} => "hex_char".into(),
			DataError::HexEof => "hex_eof".into(), DataError::File(..) => "file".into(), DataError::Write(s) => seg_class(s).into(),
		};
	}
	if let Some(c) = e.downcast_ref::<ConstError>() { return match c { ConstError::Duplicate(..) => "const_dup".into() }; }
	if let Some(g) = e.downcast_ref::<GlobalError>()
	{
		return match g { GlobalError::NotFound{..} => "g_notfound", GlobalError::Deferred{..} => "g_deferred", GlobalError::Duplicate{..} => "g_duplicate" }.into();
	}
	if let Some(i) = e.downcast_ref::<IncludeError>()
	{
		return match i { IncludeError::NoSuchFile{..} => "inc_nofile", IncludeError::FileRead{..} => "inc_read", IncludeError::Recursive{..} => "inc_recursive", IncludeError::AssemblyFailed{..} => "inc_failed" }.into();
	}
	if let Some(a) = e.downcast_ref::<AsmError>()
	{
		return match a { AsmError::ValueRange{..} => "value_range".into(), AsmError::NoSuchRegister{..} => "no_register".into(), AsmError::Encode(..) => "encode".into(), AsmError::Write(s) => seg_class(s).into() };
	}
	"other".into()
}

fn coarse_class(e: &(dyn Error + 'static)) -> String
{
	if let Some(k) = e.downcast_ref::<AsmErrorKind>() { return match k { AsmErrorKind::Parse(..) => "parse", AsmErrorKind::Inactive => "inactive" }.into(); }
	if let Some(c) = e.downcast_ref::<ConstantError>()
	{
		return match c { ConstantError::Reserved(..) => "const_reserved", ConstantError::Duplicate{..} => "const_duplicate", _ => "const_other" }.into();
	}
	if let Some(d) = e.downcast_ref::<DirectiveErrorKind>()
	{
		return match d
		{
			DirectiveErrorKind::NotFound(..) => "dir_notfound".into(), DirectiveErrorKind::TooManyArguments{..} => "dir_toomany".into(),
			DirectiveErrorKind::NotEnoughArguments{..} => "dir_notenough".into(), DirectiveErrorKind::ArgumentType{..} => "dir_argtype".into(),
			DirectiveErrorKind::Apply{source, ..} => format!("apply:{}", sub_class(source.as_ref())),
		};
	}
	if let Some(i) = e.downcast_ref::<InstrErrorKind>()
	{
		return match i
		{
			InstrErrorKind::NotFound(..) => "instr_notfound".into(), InstrErrorKind::TooManyArguments{..} => "instr_toomany".into(),
			InstrErrorKind::NotEnoughArguments{..} => "instr_notenough".into(), InstrErrorKind::ArgumentType{..} => "instr_argtype".into(),
			InstrErrorKind::Assemble(source) => format!("asm:{}", sub_class(source.as_ref())),
		};
	}
	"other".into()
}

// ------------------------------------------------------------------ running a project
struct Obs { status: &'static str, regions: Vec<(u32, Vec<u8>)>, diags: Vec<String>, panic: String }

static IN_IMPL: std::sync::atomic::AtomicBool = std::sync::atomic::AtomicBool::new(false);

fn run_root(src: Vec<u8>, root: String) -> Obs
{
	IN_IMPL.store(true, std::sync::atomic::Ordering::SeqCst);
	let res = catch(move ||
	{
		let directives = DirectiveList::generate();
		let mut ctx = Context::new(&Arm6M, &directives);
		drop(ctx.assemble(&src, PathBuf::from(root)));
		let close_err = ctx.close_segment().is_err();
		let finalize_ok = if close_err { false } else { ctx.finalize() };
		let diags: Vec<String> = ctx.get_errors().iter().map(|e|
		{
			let v: &(dyn Error + 'static) = &e.value;
			let name = e.name.as_ref();
			let base = name.rsplit('/').next().unwrap_or(name).replace(' ', "_");
			format!("{}@{}:{}:{}", coarse_class(v), base, e.line, e.col)
		}).collect();
		let regions = ctx.output().iter().map(|(r, d)| (r.get_first(), d.to_vec())).collect();
		(if close_err { "close-error" } else if finalize_ok { "success" } else { "failure" }, regions, diags)
	});
	IN_IMPL.store(false, std::sync::atomic::Ordering::SeqCst);
	match res
	{
		Ok((status, regions, diags)) => Obs{status, regions, diags, panic: String::new()},
		Err(m) => Obs{status: "panic", regions: vec![], diags: vec![], panic: m},
	}
}

fn fmt_obs(o: &Obs) -> String
{
	let regions = if o.regions.is_empty() { "-".to_string() } else { o.regions.iter().map(|(a, d)| format!("{:x}:{}", a, hex_bytes(d))).collect::<Vec<_>>().join(",") };
	let diags = if o.diags.is_empty() { "-".to_string() } else { o.diags.join(",") };
	format!("dbg={} status={} regions={} diags={}{}", if cfg!(debug_assertions) { 1 } else { 0 }, o.status, regions, diags, if o.panic.is_empty() { String::new() } else { format!(" panic={}", o.panic.replace(' ', "_").replace('\n', "_")) })
}

/// the files go into the (already current) private directory; names that are not plain file names are not written
fn run_project(p: &Project) -> String
{
	let mut written = vec![];
	for (n, d) in &p.files
	{
		if plain_name(n) { if std::fs::write(n, d).is_ok() { written.push(n.clone()); } }
	}
	let src = p.files.iter().find(|(n, _)| *n == p.root).map(|(_, d)| d.clone()).unwrap_or_default();
	let o = run_root(src, p.root.clone());
	for n in written { let _ = std::fs::remove_file(n); }
	fmt_obs(&o)
}

fn run_case(case: &str) -> String
{
	let body = match case.find(' ') { Some(i) => &case[i + 1..], None => "" };
	let proj = match body.find(" | ") { Some(i) => &body[..i], None => body };
	run_project(&parse_project(proj))
}

// ------------------------------------------------------------------ C13: histories
#[derive(Clone, Debug)]
struct Placed { addr: u64, bytes: Vec<u8>, deferred: bool }

struct Hist
{
	text: String,
	files: Vec<(String, Vec<u8>)>,
	owner: BTreeMap<u64, u8>,
	cur: Option<u64>,
	placed: Vec<Placed>,
	verdict: Option<&'static str>,
	pending: Vec<(String, i64, Option<usize>)>, // forward symbols still to define: (name, value, index of a .du32 that may be resolved by a label)
	uniq: u32,
}

const TOP: u64 = 1 << 32;

impl Hist
{
	fn new() -> Self { Hist{text: String::new(), files: vec![], owner: BTreeMap::new(), cur: None, placed: vec![], verdict: None, pending: vec![], uniq: 0} }
	fn done(&self) -> bool { self.verdict.is_some() }
	fn addr(&mut self, a: u32)
	{
		if self.done() { return; }
		self.text.push_str(&format!(".addr 0x{:X};\n", a));
		if self.owner.contains_key(&(a as u64)) { self.verdict = Some("occupied"); return; }
		self.cur = Some(a as u64);
	}
	/// place `bytes` at the current address (text already appended by the caller)
	fn place(&mut self, bytes: Vec<u8>, deferred: bool)
	{
		if self.done() { return; }
		let cur = self.cur.unwrap();
		for k in 0..bytes.len() as u64
		{
			if cur + k >= TOP || self.owner.contains_key(&(cur + k)) { self.verdict = Some("overflow"); return; }
		}
		for (k, b) in bytes.iter().enumerate() { self.owner.insert(cur + k as u64, *b); }
		self.placed.push(Placed{addr: cur, bytes: bytes.clone(), deferred});
		self.cur = Some(cur + bytes.len() as u64);
	}
	fn fresh(&mut self, p: &str) -> String { self.uniq += 1; format!("{}{}", p, self.uniq) }
}

fn enc(i: &Instruction) -> Vec<u8> { let mut b = [0u8; 4]; let n = i.encode(&mut b).unwrap(); b[..n].to_vec() }

/// one random write statement; `allow_def`: deferred forms allowed
fn c13_stmt(h: &mut Hist, rng: &mut Rng, allow_def: bool)
{
	if h.done() || h.cur.is_none() { return; }
	let cur = h.cur.unwrap();
	let deferred = allow_def && rng.chance(1, 3);
	match rng.below(10)
	{
		0 | 1 =>
		{
			// 2-byte instruction
			if deferred
			{
				let v = rng.below(256) as i64; let name = h.fresh("F");
				h.text.push_str(&format!("MOVS R{}, {};\n", 1, name));
				h.pending.push((name, v, None));
				h.place(enc(&Instruction::Mov{flags: true, dst: reg(1), src: ImmReg::Immediate(v as i32)}), true);
			}
			else
			{
				let (t, i) = match rng.below(3) { 0 => ("NOP;", Instruction::Nop), 1 => ("MOVS R2, 7;", Instruction::Mov{flags: true, dst: reg(2), src: ImmReg::Immediate(7)}), _ => ("BX LR;", Instruction::Bx{off: reg(14)}) };
				h.text.push_str(t); h.text.push('\n');
				h.place(enc(&i), false);
			}
		},
		2 =>
		{
			// 4-byte instruction
			let tgt = cur as i64 + 4 + 2 * rng.range(-3, 6);
			if deferred && cur < TOP && tgt >= 0 && tgt <= 0xFFFF_FFFF
			{
				// BL to a forward symbol whose value is an address at an even distance
				let name = h.fresh("T");
				h.text.push_str(&format!("BL {};\n", name));
				h.pending.push((name, tgt, None));
				h.place(enc(&Instruction::Bl{off: (tgt - (cur as i64 + 4)) as i32}), true);
			}
			else
			{
				h.text.push_str("DMB SY;\n");
				h.place(enc(&Instruction::Dmb), false);
			}
		},
		3 | 4 | 5 =>
		{
			let (d, size, max) = *rng.pick(&[("du8", 1usize, 0xFFu64), ("du16", 2, 0xFFFF), ("du32", 4, 0xFFFF_FFFF)]);
			let v = rng.next() & max;
			if deferred
			{
				let name = h.fresh("L");
				h.text.push_str(&format!(".{} {};\n", d, name));
				// resolved by a label when the value fits a plausible address, by a .const otherwise
				let idx = if size == 4 && rng.chance(1, 2) { Some(h.placed.len()) } else { None };
				h.pending.push((name, v as i64, idx));
			}
			else { h.text.push_str(&format!(".{} 0x{:X};\n", d, v)); }
			let before = h.placed.len();
			h.place(v.to_le_bytes()[..size].to_vec(), deferred);
			if deferred && h.placed.len() == before { h.pending.pop(); }
		},
		6 =>
		{
			let n = rng.below(6) as usize;
			let s: String = (0..n).map(|_| (b'a' + rng.below(26) as u8) as char).collect();
			h.text.push_str(&format!(".dstr \"{}\";\n", s));
			h.place(s.into_bytes(), false);
		},
		7 =>
		{
			let nb = rng.below(6) as usize; let b = rng.bytes(nb);
			let mut t = String::new();
			for x in &b { t.push_str(&format!("{:02X}", x)); if rng.chance(1, 3) { t.push(' '); } }
			h.text.push_str(&format!(".dhex \"{}\";\n", t));
			h.place(b, false);
		},
		8 =>
		{
			let nb = rng.below(7) as usize; let b = rng.bytes(nb);
			let name = format!("{}.bin", h.fresh("d"));
			h.text.push_str(&format!(".dfile \"{}\";\n", name));
			h.files.push((name, b.clone()));
			h.place(b, false);
		},
		_ =>
		{
			if cur >= TOP { return; }
			let k = *rng.pick(&[1u64, 2, 4, 8, 16]);
			h.text.push_str(&format!(".align {};\n", k));
			let pad = ((k - cur % k) % k) as usize;
			h.place(vec![0xBE; pad], false);
		},
	}
}

/// define pending forward symbols (labels when `as_label` and an active region with the right address, else .const)
fn c13_resolve(h: &mut Hist)
{
	let pend = std::mem::take(&mut h.pending);
	for (name, v, idx) in pend { c13_define(h, name, v, idx); }
}

fn c13_define(h: &mut Hist, name: String, v: i64, idx: Option<usize>)
{
	match (idx, h.cur)
	{
		(Some(i), Some(cur)) if !h.done() && cur < TOP =>
		{
			// a label: its value is the address of the next byte
			h.text.push_str(&format!("{}:\n", name));
			h.placed[i].bytes = (cur as u32).to_le_bytes().to_vec();
		},
		_ => h.text.push_str(&format!(".const {}, {};\n", name, v)),
	}
}

fn c13_history(rng: &mut Rng) -> (Project, String)
{
	let mut h = Hist::new();
	let win: u64 = *rng.pick(&[0x100u64, 0x2000_0000, 0xFFFF_FFE0, 0xFFFF_FFF0, 0, 0x1000_00F0]);
	let span: u64 = if win >= 0xFFFF_FFF0 { 16 } else { 32 };
	let pattern = rng.below(10);
	let rnd_addr = |rng: &mut Rng| (win + rng.below(span)) as u32;
	match pattern
	{
		0 =>
		{
			// forced: deferred statement first in region 1; region 2 filled exactly up to it (or one statement more); then resolve
			let a1 = (win + span / 2) as u32 & !3;
			h.addr(a1);
			let before = h.placed.len();
			while h.placed.len() == before && !h.done() { c13_stmt_forced_deferred(&mut h, rng); }
			for _ in 0..rng.below(3) { c13_stmt(&mut h, rng, true); }
			let n = 1 + rng.below(6);
			if (a1 as u64) >= win + n
			{
				h.addr(a1 - n as u32);
				// fill exactly n bytes
				let mut left = n;
				while left > 0 && !h.done()
				{
					let take = if left >= 4 && rng.chance(1, 3) { 4 } else if left >= 2 && rng.chance(1, 2) { 2 } else { 1 };
					let v = rng.next();
					match take { 4 => h.text.push_str(&format!(".du32 0x{:X};\n", v as u32)), 2 => h.text.push_str("NOP;\n"), _ => h.text.push_str(&format!(".du8 0x{:X};\n", v as u8)) }
					let bytes = match take { 4 => (v as u32).to_le_bytes().to_vec(), 2 => enc(&Instruction::Nop), _ => vec![v as u8] };
					h.place(bytes, false);
					left -= take;
				}
				if rng.chance(1, 3) { c13_stmt(&mut h, rng, true); }
			}
		},
		1 =>
		{
			// .addr of the active base before / after writing, .addr inside the active region
			let a = rnd_addr(rng);
			h.addr(a);
			if rng.chance(1, 2) { h.addr(a); }
			for _ in 0..1 + rng.below(3) { c13_stmt(&mut h, rng, true); }
			let inside = h.cur.map(|c| c.saturating_sub(1 + rng.below(3))).unwrap_or(a as u64).max(a as u64).min(0xFFFF_FFFF) as u32;
			match rng.below(3) { 0 => h.addr(a), 1 => h.addr(inside), _ => { let c = h.cur.unwrap_or(a as u64); if c < TOP { h.addr(c as u32) } } }
			for _ in 0..rng.below(3) { c13_stmt(&mut h, rng, true); }
		},
		2 =>
		{
			// adjacent: a2 + len = a1
			let a1 = (win + span / 2) as u32;
			h.addr(a1);
			for _ in 0..1 + rng.below(2) { c13_stmt(&mut h, rng, true); }
			let n = 1 + rng.below(8);
			if (a1 as u64) >= win + n { h.addr(a1 - n as u32); }
			for _ in 0..1 + rng.below(5) { c13_stmt(&mut h, rng, true); }
		},
		_ =>
		{
			let nops = 2 + rng.below(11);
			h.addr(rnd_addr(rng));
			for _ in 0..nops
			{
				if rng.chance(1, 4) { h.addr(rnd_addr(rng)); }
				else if rng.chance(1, 6) && !h.pending.is_empty() { let (n, v, i) = h.pending.remove(0); c13_define(&mut h, n, v, i); }
				else { c13_stmt(&mut h, rng, true); }
			}
		},
	}
	if !h.done() && rng.chance(1, 6) && !h.pending.is_empty()
	{
		// leave one symbol undefined: the statement keeps its placeholder and is reported
		h.pending.pop();
		h.verdict = Some("undefined");
	}
	c13_resolve(&mut h);
	let verdict = h.verdict.unwrap_or("ok");
	let mut exp = format!("V {}", verdict);
	for p in &h.placed { exp.push_str(&format!(" | S {:x} {} {}", p.addr, hex_bytes(&p.bytes), if p.deferred { "d" } else { "i" })); }
	let mut files = vec![("root.asm".to_string(), h.text.into_bytes())];
	files.extend(h.files);
	(Project{files, root: "root.asm".into()}, exp)
}

fn c13_stmt_forced_deferred(h: &mut Hist, rng: &mut Rng)
{
	if h.done() { return; }
	let cur = h.cur.unwrap();
	match rng.below(3)
	{
		0 =>
		{
			let v = rng.below(256) as i64; let name = h.fresh("F");
			h.text.push_str(&format!("MOVS R1, {};\n", name));
			h.pending.push((name, v, None));
			h.place(enc(&Instruction::Mov{flags: true, dst: reg(1), src: ImmReg::Immediate(v as i32)}), true);
		},
		1 =>
		{
			let tgt = cur as i64 + 4 + 2 * rng.range(-3, 6);
			if tgt < 0 || tgt > 0xFFFF_FFFF { return; }
			let name = h.fresh("T");
			h.text.push_str(&format!("B {};\n", name));
			h.pending.push((name, tgt, None));
			h.place(enc(&Instruction::B{cond: cond(14), off: (tgt - (cur as i64 + 4)) as i32}), true);
		},
		_ =>
		{
			let v = rng.next() as u32; let name = h.fresh("L");
			h.text.push_str(&format!(".du32 {};\n", name));
			h.pending.push((name, v as i64, None));
			h.place(v.to_le_bytes().to_vec(), true);
		},
	}
}

// ------------------------------------------------------------------ C05: programs
fn random_instr16(rng: &mut Rng) -> Instruction
{
	loop
	{
		let h = rng.next() as u16;
		if let Ok((2, i)) = Instruction::decode(&h.to_le_bytes()) { return i; }
	}
}

fn is_pcrel(i: &Instruction) -> bool
{
	matches!(i, Instruction::Adr{..} | Instruction::B{..} | Instruction::Bl{..} | Instruction::Ldr{addr: Register::PC, off: ImmReg::Immediate(_), ..})
}

struct Prog { text: String, files: Vec<(String, Vec<u8>)>, uniq: u32, cur: u64, labels: Vec<(String, u64)> }

fn c05_stmt(p: &mut Prog, rng: &mut Rng, fwd_labels: &mut Vec<String>)
{
	let cur = p.cur;
	match rng.below(14)
	{
		0 | 1 | 2 | 3 =>
		{
			// instruction in a random spelling; PC-relative ones get a target that fits
			let i = if rng.chance(1, 6) { *rng.pick(&[Instruction::Dmb, Instruction::Dsb, Instruction::Isb, Instruction::Bl{off: 0}, Instruction::Udfw{info: 0x1234}]) } else { random_instr16(rng) };
			let target = match i
			{
				Instruction::B{off, ..} => cur as i64 + 4 + off as i64,
				Instruction::Bl{..} => cur as i64 + 4 + 2 * rng.range(-40, 40),
				Instruction::Adr{off, ..} => (cur & !3) as i64 + 4 + off as i64,
				Instruction::Ldr{addr: Register::PC, off: ImmReg::Immediate(off), ..} => (cur & !3) as i64 + 4 + off as i64,
				_ => 0,
			};
			if is_pcrel(&i) && (target < 0 || target > 0xFFFF_FFFF) { return; }
			let r = render(&i, target, rng, true, &mut p.uniq);
			let len = if let Instruction::Bl{..} = i { 4 } else { let mut b = [0u8; 4]; match i.encode(&mut b) { Ok(n) => n, Err(..) => return } };
			p.text.push_str(&r.pre); p.text.push_str(&r.stmt); p.text.push('\n'); p.text.push_str(&r.post);
			p.cur += len as u64;
		},
		4 | 5 =>
		{
			// data value: literal, expression over constants / labels (backward or forward)
			let (d, size) = *rng.pick(&[("du8", 1u64), ("du16", 2), ("du32", 4)]);
			let e = match rng.below(6)
			{
				0 | 1 => format!("0x{:X}", rng.next() & if size == 1 { 0xFF } else if size == 2 { 0xFFFF } else { 0xFFFF_FFFF }),
				2 if size == 4 && !p.labels.is_empty() => rng.pick(&p.labels).0.clone(),
				3 if size == 4 => { let n = format!("fl{}", { p.uniq += 1; p.uniq }); fwd_labels.push(n.clone()); n },
				4 if size == 4 && !p.labels.is_empty() => format!("{} + {}", rng.pick(&p.labels).0, rng.below(9)),
				_ => { p.uniq += 1; let n = format!("C{}", p.uniq); let v = rng.below(200); if rng.chance(1, 2) { p.text.push_str(&format!(".const {}, {};\n", n, v)); format!("{} + 1", n) } else { fwd_consts_push(p, &n, v); format!("{} & 0xFF", n) } },
			};
			p.text.push_str(&format!(".{} {};\n", d, e));
			p.cur += size;
		},
		6 =>
		{
			let n = rng.below(9) as usize;
			let s: String = (0..n).map(|_| *rng.pick(&['a', 'Z', '0', ' ', '_', 'x'])).collect();
			p.text.push_str(&format!(".dstr \"{}\";\n", s));
			p.cur += n as u64;
		},
		7 =>
		{
			let nb = rng.below(7) as usize; let b = rng.bytes(nb);
			let t: String = b.iter().map(|x| if rng.chance(1, 2) { format!("{:02x} ", x) } else { format!("{:02X}", x) }).collect();
			p.text.push_str(&format!(".dhex \"{}\";\n", t));
			p.cur += b.len() as u64;
		},
		8 =>
		{
			let nb = rng.below(20) as usize; let b = rng.bytes(nb);
			p.uniq += 1; let name = format!("blob{}.bin", p.uniq);
			p.text.push_str(&format!(".dfile \"{}\";\n", name));
			p.cur += b.len() as u64;
			p.files.push((name, b));
		},
		9 | 10 =>
		{
			let k = *rng.pick(&[1u64, 2, 4, 8, 256, 2, 4]);
			p.text.push_str(&format!(".align {};\n", k));
			p.cur += (k - cur % k) % k;
		},
		11 | 12 =>
		{
			// label: a pending forward label if any, else a new one
			let name = if !fwd_labels.is_empty() && rng.chance(2, 3) { fwd_labels.remove(0) } else { p.uniq += 1; format!("lb{}", p.uniq) };
			p.text.push_str(&format!("{}:\n", name));
			p.labels.push((name, cur));
		},
		_ =>
		{
			p.uniq += 1;
			let n = format!("K{}", p.uniq);
			let e = if !p.labels.is_empty() && rng.chance(1, 2) { format!("{} - {}", rng.pick(&p.labels).0, rng.below(4)) } else { format!("{}", rng.below(100000)) };
			p.text.push_str(&format!(".const {}, {};\n", n, e));
		},
	}
}

thread_local! { static FWD_CONSTS: std::cell::RefCell<Vec<(String, u64)>> = std::cell::RefCell::new(vec![]); }
fn fwd_consts_push(_p: &mut Prog, n: &str, v: u64) { FWD_CONSTS.with(|f| f.borrow_mut().push((n.to_string(), v))); }

fn c05_program(rng: &mut Rng) -> Project
{
	FWD_CONSTS.with(|f| f.borrow_mut().clear());
	let mut p = Prog{text: String::new(), files: vec![], uniq: 0, cur: 0, labels: vec![]};
	let nregions = 1 + rng.below(4);
	// distinct bases far enough apart (a region stays below 0x800 bytes), in random order
	let mut bases: Vec<u64> = vec![];
	while (bases.len() as u64) < nregions
	{
		let b = *rng.pick(&[0x0u64, 0x1000_0000, 0x2000_0000, 0x2000_1000, 0xFFFF_0000, 0x0800_0000]) + 0x1000 * rng.below(4) + *rng.pick(&[0u64, 0, 1, 2, 3, 0x80]);
		if !bases.iter().any(|x| x.abs_diff(b) < 0x1000) { bases.push(b); }
	}
	let mut fwd_labels: Vec<String> = vec![];
	let forced = rng.chance(1, 8);
	for (k, b) in bases.iter().enumerate()
	{
		p.text.push_str(&format!(".addr 0x{:X};\n", b));
		p.cur = *b;
		if forced && k == 0 && nregions > 1
		{
			// forward reference, then region switch, then definition
			p.uniq += 1; let n = format!("fl{}", p.uniq); fwd_labels.push(n.clone());
			p.text.push_str(&format!(".du32 {};\n", n)); p.cur += 4;
			continue;
		}
		for _ in 0..1 + rng.below(10) { c05_stmt(&mut p, rng, &mut fwd_labels); if p.cur - b > 0x700 { break; } }
	}
	// pending forward labels and constants are defined at the end (the last region is still active)
	for n in fwd_labels.drain(..) { p.text.push_str(&format!("{}:\n", n)); }
	FWD_CONSTS.with(|f| for (n, v) in f.borrow().iter() { p.text.push_str(&format!(".const {}, {};\n", n, v)); });
	let mut files = vec![("root.asm".to_string(), p.text.into_bytes())];
	files.extend(p.files);
	Project{files, root: "root.asm".into()}
}

// ------------------------------------------------------------------ fixed cases
fn single(src: &str) -> Project { Project{files: vec![("root.asm".into(), src.as_bytes().to_vec())], root: "root.asm".into()} }

fn corpus_c13() -> Vec<(Project, String)>
{
	vec![
		// F12: write_at capacity
		(single(".addr 0x20000010; NOP; .addr 0x2000000E; NOP; NOP;"), "V overflow | S 20000010 00bf i | S 2000000e 00bf i".into()),
		(single(".addr 0xFFFFFFFE; .du32 1;"), "V overflow".into()),
		(single(".addr 0x20000010; NOP; .addr 0x2000000E; .du32 5;"), "V overflow | S 20000010 00bf i".into()),
		// F13: .addr of the active base
		(single(".addr 0x100; NOP; .addr 0x100; NOP;"), "V occupied | S 100 00bf i".into()),
		(single(".addr 0x100; .addr 0x100; NOP;"), "V ok | S 100 00bf i".into()),
		// full region at the top of the address space
		(single(".addr 0xFFFFFFFF; .du8 1; .du8 2;"), "V overflow | S ffffffff 01 i".into()),
		(single(".addr 0xFFFFFFFE; NOP; NOP;"), "V overflow | S fffffffe 00bf i".into()),
		(single(".addr 0xFFFFFFFC; .du32 later; .const later, 7;"), "V ok | S fffffffc 07000000 d".into()),
		(single(".addr 0xFFFFFFFF; .du8 later; .const later, 7;"), "V ok | S ffffffff 07 d".into()),
		// F14: deferred statement where another region ends
		(single(".addr 0x20000010; B later; NOP; .addr 0x2000000E; NOP; later:"), "V ok | S 20000010 fee7 d | S 20000012 00bf i | S 2000000e 00bf i".into()),
		(single(".addr 0x20000010; .du32 later; NOP; .addr 0x2000000C; .du32 1; later:"), "V ok | S 20000010 10000020 d | S 20000014 00bf i | S 2000000c 01000000 i".into()),
		(single(".addr 0x20000010; B later; NOP; .addr 0x2000000E; NOP; NOP; later:"), "V overflow | S 20000010 fee7 d | S 20000012 00bf i | S 2000000e 00bf i".into()),
		(single(".addr 0x20000010; NOP; .addr 0x20000011; NOP;"), "V occupied | S 20000010 00bf i".into()),
		(single(".addr 0x20000010; NOP; .addr 0x2000000F; .align 4;"), "V ok | S 20000010 00bf i | S 2000000f be i".into()),
	]
}

fn corpus_c05() -> Vec<Project>
{
	vec![
		single(".addr 0x100; B later; NOP; later: NOP;"),
		single(".addr 0x100; B later; .addr 0x200; NOP; later: NOP;"),
		single(".addr 0x20000010; .du32 later; NOP; .addr 0x2000000C; .du32 1; later:"),
		single(".const A, 5; .addr 0x100 + A; x: .du32 x + A; .align 8; y: .du16 y - x; .dstr \"hi\"; .dhex \"0a 0B\"; .align 256; z: .du8 z & 0xFF;"),
		Project{files: vec![("root.asm".into(), b".addr 0x10000000; start: LDR R0, lit; .dfile \"b.bin\"; .align 4; lit: .du32 start;".to_vec()), ("b.bin".into(), vec![1, 2, 3])], root: "root.asm".into()},
	]
}

fn main()
{
	// panics of the implementation are observations; panics of the generator are bugs and stay loud
	std::panic::set_hook(Box::new(|info| { if !IN_IMPL.load(std::sync::atomic::Ordering::SeqCst) { eprintln!("harness panic: {}", info); } }));
	let tmp = std::env::var("VERIF_TMP").unwrap_or_else(|_| format!("/verif/.build/tmp/ctx_{}", std::process::id()));
	std::fs::create_dir_all(&tmp).expect("tmp dir");
	std::env::set_current_dir(&tmp).expect("chdir");
	let mut out = Out::new();
	match mode()
	{
		Mode::Replay => { for c in replay_cases() { let r = run_case(&c); out.line(&c, &r); } },
		Mode::Gen{thorough, seed, shard, nshards} =>
		{
			let stream = std::env::args().nth(6).unwrap_or_else(|| "c13".into());
			let mut sh = Shard{k: 0, shard, n: nshards};
			let mut rng = Rng::new(seed ^ if stream == "c05" { 0x5555 } else { 0x1313 });
			if stream == "c05"
			{
				for p in corpus_c05() { if sh.mine() { let c = format!("C05 {}", project_text(&p)); let r = run_project(&p); out.line(&c, &r); } }
				let n = if thorough { 100_000 } else { 3_000 };
				for _ in 0..n
				{
					let p = c05_program(&mut rng);
					if sh.mine() { let c = format!("C05 {}", project_text(&p)); let r = run_project(&p); out.line(&c, &r); }
				}
			}
			else
			{
				for (p, e) in corpus_c13() { if sh.mine() { let c = format!("C13 {} | {}", project_text(&p), e); let r = run_project(&p); out.line(&c, &r); } }
				let n = if thorough { 2_000_000 } else { 20_000 };
				for _ in 0..n
				{
					let (p, e) = c13_history(&mut rng);
					if sh.mine() { let c = format!("C13 {} | {}", project_text(&p), e); let r = run_project(&p); out.line(&c, &r); }
				}
			}
		},
	}
	drop(out);
	let _ = std::env::set_current_dir("/");
	let _ = std::fs::remove_dir_all(&tmp);
}
