//! Runs trion's whole assembly pipeline (assemble, close the last region, finalize) the way
//! src/bin/assembler.rs does, under a panic boundary, and reports a canonical observation.
use std::path::PathBuf;
use trion::arm6m::Arm6M;
use trion::asm::directive::DirectiveList;
use trion::asm::Context;

#[derive(Debug, Clone)]
pub struct Diag { pub file: String, pub line: u32, pub col: u32, pub class: String }

#[derive(Debug, Clone)]
pub struct RunResult
{
	pub panic: Option<String>,
	pub close_err: bool,
	pub finalize_ok: bool,
	pub diags: Vec<Diag>,
	/// output regions (first address, bytes), ascending
	pub regions: Vec<(u32, Vec<u8>)>,
}

/// coarse class of a diagnostic: the chain of message heads (text up to the first digit, quote,
/// brace or parenthesis of every error in the source chain) — stable under rewording of details
pub fn classify(err: &dyn std::error::Error) -> String
{
	fn head(s: &str) -> String
	{
		let cut = s.find(|c: char| c.is_ascii_digit() || c == '"' || c == '(' || c == '{' || c == '\'' || c == '#').unwrap_or(s.len());
		s[..cut].trim().replace(' ', "_")
	}
	let mut parts = vec![head(&err.to_string())];
	let mut src = err.source();
	while let Some(s) = src { parts.push(head(&s.to_string())); src = s.source(); }
	parts.join("/")
}

pub fn run_pipeline(source: &[u8], path: &str) -> RunResult
{
	let src = source.to_vec();
	let path = PathBuf::from(path);
	let res = crate::catch(move ||
	{
		let directives = DirectiveList::generate();
		let mut ctx = Context::new(&Arm6M, &directives);
		drop(ctx.assemble(&src, path));
		let close_err = ctx.close_segment().is_err();
		let finalize_ok = if close_err { false } else { ctx.finalize() };
		let diags = ctx.get_errors().iter().map(|e|
			Diag{file: e.name.as_ref().clone(), line: e.line, col: e.col, class: { let v: &dyn std::error::Error = &e.value; classify(v) }}).collect();
		let regions = ctx.output().iter().map(|(r, d)| (r.get_first(), d.to_vec())).collect();
		RunResult{panic: None, close_err, finalize_ok, diags, regions}
	});
	match res
	{
		Ok(r) => r,
		Err(msg) => RunResult{panic: Some(msg), close_err: false, finalize_ok: false, diags: vec![], regions: vec![]},
	}
}

impl RunResult
{
	pub fn success(&self) -> bool { self.panic.is_none() && !self.close_err && self.finalize_ok }
	/// bytes at [addr, addr+len) if completely present in one region
	pub fn bytes_at(&self, addr: u32, len: usize) -> Option<Vec<u8>>
	{
		for (base, data) in &self.regions
		{
			if addr >= *base && ((addr - *base) as usize) + len <= data.len()
			{
				let o = (addr - *base) as usize;
				return Some(data[o..o + len].to_vec());
			}
		}
		None
	}
	pub fn fmt_regions(&self) -> String
	{
		if self.regions.is_empty() { return "-".into(); }
		self.regions.iter().map(|(a, d)| format!("{:x}:{}", a, crate::hex_bytes(d))).collect::<Vec<_>>().join(",")
	}
	pub fn fmt_diags(&self) -> String
	{
		if self.diags.is_empty() { return "-".into(); }
		self.diags.iter().map(|d| format!("{}@{}:{}:{}", d.class, d.file.replace(' ', "_"), d.line, d.col)).collect::<Vec<_>>().join(",")
	}
	pub fn fmt_status(&self) -> &'static str
	{
		if self.panic.is_some() { "panic" } else if self.close_err { "close-error" } else if self.finalize_ok { "success" } else { "failure" }
	}
}
