//! Shared helpers for the per-property harness binaries (generators + implementation runners).
//! Every random choice derives from one SplitMix64 state.
pub mod codec;
pub mod argtext;
pub mod asmrun;
pub mod stmtgen;
use std::io::{self, BufRead, Write};

pub struct Rng(pub u64);

impl Rng
{
	pub fn new(seed: u64) -> Self { Rng(seed ^ 0x9E3779B97F4A7C15) }
	pub fn next(&mut self) -> u64
	{
		self.0 = self.0.wrapping_add(0x9E3779B97F4A7C15);
		let mut z = self.0;
		z = (z ^ (z >> 30)).wrapping_mul(0xBF58476D1CE4E5B9);
		z = (z ^ (z >> 27)).wrapping_mul(0x94D049BB133111EB);
		z ^ (z >> 31)
	}
	pub fn below(&mut self, n: u64) -> u64 { if n == 0 { 0 } else { self.next() % n } }
	pub fn range(&mut self, lo: i64, hi: i64) -> i64 { lo.wrapping_add(self.below((hi - lo + 1) as u64) as i64) }
	pub fn chance(&mut self, num: u64, den: u64) -> bool { self.below(den) < num }
	pub fn pick<'a, T>(&mut self, xs: &'a [T]) -> &'a T { &xs[self.below(xs.len() as u64) as usize] }
	pub fn bytes(&mut self, n: usize) -> Vec<u8> { (0..n).map(|_| self.next() as u8).collect() }
}

/// Command line shared by all harness binaries:
///   <bin> gen <tier> <seed> <shard> <nshards>     write "case => result" lines
///   <bin> replay                                  read case lines (text before " => ") from stdin, re-run them
pub enum Mode { Gen { thorough: bool, seed: u64, shard: u64, nshards: u64 }, Replay }

pub fn mode() -> Mode
{
	let a: Vec<String> = std::env::args().collect();
	match a.get(1).map(|s| s.as_str())
	{
		Some("gen") =>
		{
			let thorough = a.get(2).map(|s| s == "thorough").unwrap_or(false);
			let seed = a.get(3).and_then(|s| s.parse().ok()).unwrap_or(1);
			let shard = a.get(4).and_then(|s| s.parse().ok()).unwrap_or(0);
			let nshards = a.get(5).and_then(|s| s.parse().ok()).unwrap_or(1);
			Mode::Gen { thorough, seed, shard, nshards }
		},
		Some("replay") => Mode::Replay,
		_ => { eprintln!("usage: gen <quick|thorough> <seed> <shard> <nshards> | replay"); std::process::exit(2) },
	}
}

pub fn replay_cases() -> Vec<String>
{
	let stdin = io::stdin();
	stdin.lock().lines().map(|l| l.unwrap()).filter(|l| !l.is_empty() && !l.starts_with('#'))
		.map(|l| match l.find(" => ") { Some(i) => l[..i].to_string(), None => l }).collect()
}

pub fn hex_bytes(b: &[u8]) -> String
{
	if b.is_empty() { return "-".to_string(); }
	let mut s = String::with_capacity(b.len() * 2);
	for x in b { s.push_str(&format!("{:02x}", x)); }
	s
}

pub fn parse_hex_bytes(s: &str) -> Vec<u8>
{
	if s == "-" { return Vec::new(); }
	(0..s.len() / 2).map(|i| u8::from_str_radix(&s[2 * i..2 * i + 2], 16).unwrap()).collect()
}

/// signed hex as used on the wire ("-1f")
pub fn hex_i64(v: i64) -> String
{
	if v < 0 { format!("-{:x}", (v as i128).unsigned_abs()) } else { format!("{:x}", v) }
}
pub fn parse_hex_i64(s: &str) -> i64
{
	if let Some(r) = s.strip_prefix('-') { (-(i128::from_str_radix(r, 16).unwrap())) as i64 } else { i128::from_str_radix(s, 16).unwrap() as i64 }
}

pub struct Out(pub io::BufWriter<io::Stdout>);
impl Out
{
	pub fn new() -> Self { Out(io::BufWriter::with_capacity(1 << 20, io::stdout())) }
	pub fn line(&mut self, case: &str, result: &str) { let _ = writeln!(self.0, "{} => {}", case, result); }
}

/// Sharding helper: case number k belongs to this shard?
pub struct Shard { pub k: u64, pub shard: u64, pub n: u64 }
impl Shard
{
	pub fn mine(&mut self) -> bool { let r = self.k % self.n == self.shard; self.k += 1; r }
}

/// Run a closure, turning a panic into Err(message). The default panic hook is silenced once.
pub fn quiet_panics() { std::panic::set_hook(Box::new(|_| {})); }
pub fn catch<T>(f: impl FnOnce() -> T + std::panic::UnwindSafe) -> Result<T, String>
{
	std::panic::catch_unwind(f).map_err(|e|
	{
		if let Some(s) = e.downcast_ref::<&str>() { s.to_string() }
		else if let Some(s) = e.downcast_ref::<String>() { s.clone() }
		else { "panic".to_string() }
	})
}
