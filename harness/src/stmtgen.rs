//! Renders an `Instruction` as an assembler statement in the documented syntax, in a chosen spelling
//! variant (letter case, register aliases, immediate forms, address operand order).  Used by the
//! C04 / C05 / C06 generators.  PC-relative operands are written as absolute targets.
use trion::arm6m::asm::{ImmReg, Instruction};
use trion::arm6m::cond::Condition;
use trion::arm6m::reg::Register;
use crate::Rng;

pub struct Variant { pub seed: u64 }

fn case_mix(s: &str, rng: &mut Rng, style: u64) -> String
{
	match style % 4
	{
		0 => s.to_string(),
		1 => s.to_lowercase(),
		2 => s.chars().map(|c| if rng.chance(1, 2) { c.to_ascii_lowercase() } else { c.to_ascii_uppercase() }).collect(),
		_ => { let mut it = s.chars(); match it.next() { Some(f) => f.to_ascii_uppercase().to_string() + &it.as_str().to_lowercase(), None => String::new() } },
	}
}

pub fn reg_name(r: Register, rng: &mut Rng, style: u64) -> String
{
	let n = u8::from(r);
	let base = match n
	{
		13 => if rng.chance(1, 2) { "SP".to_string() } else { "R13".to_string() },
		14 => if rng.chance(1, 2) { "LR".to_string() } else { "R14".to_string() },
		15 => if rng.chance(1, 2) { "PC".to_string() } else { "R15".to_string() },
		_ => format!("R{}", n),
	};
	case_mix(&base, rng, style)
}

/// an expression text whose value is `v`; may add `.const` lines to `pre` (defined before) or `post` (defined after the statement)
pub fn imm_text(v: i64, rng: &mut Rng, pre: &mut String, post: &mut String, allow_forward: bool, uniq: &mut u32) -> String
{
	let lit = |v: i64, rng: &mut Rng| -> String
	{
		if v < 0 { return format!("-{}", (v as i128).unsigned_abs()); }
		match rng.below(5)
		{
			0 => format!("0x{:X}", v), 1 => format!("0x{:x}", v), 2 => format!("0b{:b}", v), 3 => format!("0o{:o}", v), _ => format!("{}", v),
		}
	};
	match rng.below(10)
	{
		0 | 1 | 2 | 3 => lit(v, rng),
		4 => if v >= 0x20 && v < 0x7F && v != 0x27 && v != 0x5C { format!("'{}'", (v as u8) as char) } else { lit(v, rng) },
		5 => match v.checked_add(1) { Some(w) => format!("({} - 1)", lit(w, rng)), None => lit(v, rng) },
		6 => match v.checked_mul(2) { Some(w) => format!("{} / 2", lit(w, rng)), None => lit(v, rng) },
		7 => { *uniq += 1; let name = format!("K{}", uniq); pre.push_str(&format!(".const {}, {};\n", name, lit(v, rng))); name },
		8 => if allow_forward { *uniq += 1; let name = format!("F{}", uniq); post.push_str(&format!(".const {}, {};\n", name, lit(v, rng))); name } else { lit(v, rng) },
		_ => { *uniq += 1; let name = format!("k_{}", uniq); pre.push_str(&format!(".const {}, {};\n", name, lit(v.wrapping_sub(3), rng))); if v.checked_sub(3).is_some() { format!("{} + 3", name) } else { pre.truncate(pre.rfind(".const").unwrap()); lit(v, rng) } },
	}
}

pub struct Rendered { pub pre: String, pub stmt: String, pub post: String }

fn cond_mnemonic(c: Condition, rng: &mut Rng) -> &'static str
{
	match c
	{
		Condition::Equal => "BEQ", Condition::NonEqual => "BNE",
		Condition::CarrySet => if rng.chance(1, 2) { "BCS" } else { "BHS" },
		Condition::CarryClear => if rng.chance(1, 2) { "BCC" } else { "BLO" },
		Condition::Minus => "BMI", Condition::Plus => "BPL", Condition::Overflow => "BVS", Condition::NoOverflow => "BVC",
		Condition::Higher => "BHI", Condition::LowerEqual => "BLS", Condition::GreaterEqual => "BGE", Condition::Less => "BLT",
		Condition::Greater => "BGT", Condition::LessEqual => "BLE", Condition::Always => "B",
	}
}

/// `target`: absolute target for PC-relative instructions (ADR, B, BL, LDR literal), ignored otherwise
pub fn render(i: &Instruction, target: i64, rng: &mut Rng, allow_forward: bool, uniq: &mut u32) -> Rendered
{
	render_biased(i, target, rng, allow_forward, uniq, 0).0
}

/// like `render`, but every immediate / target value v is written as v + bias (a value the instruction cannot
/// hold, e.g. v + 2^32: the statement must then be diagnosed, never assembled as if it were v);
/// returns the number of operands the bias was applied to
pub fn render_biased(i: &Instruction, target: i64, rng: &mut Rng, allow_forward: bool, uniq: &mut u32, bias: i64) -> (Rendered, usize)
{
	render_full(i, target, rng, allow_forward, uniq, bias, 0)
}

/// `arity`: 0 = the documented operand list; 1 / 2 / 3 = one operand too many (a register / a number / the last operand
/// again); -1 = the last operand left out.  Every mnemonic has exactly one operand count, so any other must be diagnosed.
pub fn render_full(i: &Instruction, target: i64, rng: &mut Rng, allow_forward: bool, uniq: &mut u32, bias: i64, arity: i8) -> (Rendered, usize)
{
	use Instruction::*;
	let style = rng.below(4);
	let mut pre = String::new();
	let mut post = String::new();
	let r = |x: Register, rng: &mut Rng| reg_name(x, rng, style);
	let sep = |rng: &mut Rng| match rng.below(3) { 0 => ", ", 1 => ",", _ => " , " }.to_string();
	let biased = std::cell::Cell::new(0usize);
	let mut imm = |v: i64, rng: &mut Rng| { if bias != 0 { biased.set(biased.get() + 1); } imm_text(v.wrapping_add(bias), rng, &mut pre, &mut post, allow_forward, uniq) };
	let (mn, ops): (String, Vec<String>) = match *i
	{
		Adc{dst, rhs} => ("ADCS".into(), vec![r(dst, rng), r(rhs, rng)]),
		Add{flags, dst, lhs, rhs} => (if flags { "ADDS" } else { "ADD" }.into(), vec![r(dst, rng), r(lhs, rng), match rhs { ImmReg::Immediate(v) => imm(v as i64, rng), ImmReg::Register(x) => r(x, rng) }]),
		Sub{flags, dst, lhs, rhs} => (if flags { "SUBS" } else { "SUB" }.into(), vec![r(dst, rng), r(lhs, rng), match rhs { ImmReg::Immediate(v) => imm(v as i64, rng), ImmReg::Register(x) => r(x, rng) }]),
		Adr{dst, ..} => ("ADR".into(), vec![r(dst, rng), imm(target, rng)]),
		And{dst, rhs} => ("ANDS".into(), vec![r(dst, rng), r(rhs, rng)]),
		Asr{dst, value, shift} => ("ASRS".into(), vec![r(dst, rng), r(value, rng), match shift { ImmReg::Immediate(v) => imm(v as i64, rng), ImmReg::Register(x) => r(x, rng) }]),
		Lsl{dst, value, shift} => ("LSLS".into(), vec![r(dst, rng), r(value, rng), match shift { ImmReg::Immediate(v) => imm(v as i64, rng), ImmReg::Register(x) => r(x, rng) }]),
		Lsr{dst, value, shift} => ("LSRS".into(), vec![r(dst, rng), r(value, rng), match shift { ImmReg::Immediate(v) => imm(v as i64, rng), ImmReg::Register(x) => r(x, rng) }]),
		B{cond, ..} => (cond_mnemonic(cond, rng).into(), vec![imm(target, rng)]),
		Bic{dst, rhs} => (if rng.chance(1, 2) { "BICS" } else { "BIC" }.into(), vec![r(dst, rng), r(rhs, rng)]),
		Bkpt{info} => ("BKPT".into(), vec![imm(info as i64, rng)]),
		Bl{..} => ("BL".into(), vec![imm(target, rng)]),
		Blx{off} => ("BLX".into(), vec![r(off, rng)]),
		Bx{off} => ("BX".into(), vec![r(off, rng)]),
		Cmn{lhs, rhs} => ("CMN".into(), vec![r(lhs, rng), r(rhs, rng)]),
		Cmp{lhs, rhs} => ("CMP".into(), vec![r(lhs, rng), match rhs { ImmReg::Immediate(v) => imm(v as i64, rng), ImmReg::Register(x) => r(x, rng) }]),
		Mov{flags, dst, src} => (if flags { "MOVS" } else { "MOV" }.into(), vec![r(dst, rng), match src { ImmReg::Immediate(v) => imm(v as i64, rng), ImmReg::Register(x) => r(x, rng) }]),
		Cps{enable} => (if enable { "CPSIE" } else { "CPSID" }.into(), vec![if rng.chance(1, 2) { "i".into() } else { "I".into() }]),
		Dmb => ("DMB".into(), vec![case_mix("SY", rng, style)]),
		Dsb => ("DSB".into(), vec![case_mix("SY", rng, style)]),
		Isb => ("ISB".into(), vec![case_mix("SY", rng, style)]),
		Eor{dst, rhs} => ("EORS".into(), vec![r(dst, rng), r(rhs, rng)]),
		Ldm{addr, registers} => ("LDM".into(), vec![r(addr, rng), reglist(registers.get_bits(), rng, style)]),
		Stm{addr, registers} => ("STM".into(), vec![r(addr, rng), reglist(registers.get_bits(), rng, style)]),
		Pop{registers} => ("POP".into(), vec![reglist(registers.get_bits(), rng, style)]),
		Push{registers} => ("PUSH".into(), vec![reglist(registers.get_bits(), rng, style)]),
		Ldr{dst, addr: Register::PC, off: ImmReg::Immediate(_)} => ("LDR".into(), vec![r(dst, rng), imm(target, rng)]),
		Ldr{dst, addr, off} => ("LDR".into(), vec![r(dst, rng), memop(addr, off, rng, style, &mut imm)]),
		Ldrb{dst, addr, off} => ("LDRB".into(), vec![r(dst, rng), memop(addr, off, rng, style, &mut imm)]),
		Ldrh{dst, addr, off} => ("LDRH".into(), vec![r(dst, rng), memop(addr, off, rng, style, &mut imm)]),
		Str{src, addr, off} => ("STR".into(), vec![r(src, rng), memop(addr, off, rng, style, &mut imm)]),
		Strb{src, addr, off} => ("STRB".into(), vec![r(src, rng), memop(addr, off, rng, style, &mut imm)]),
		Strh{src, addr, off} => ("STRH".into(), vec![r(src, rng), memop(addr, off, rng, style, &mut imm)]),
		Ldrsb{dst, addr, off} => ("LDRSB".into(), vec![r(dst, rng), memop(addr, ImmReg::Register(off), rng, style, &mut imm)]),
		Ldrsh{dst, addr, off} => ("LDRSH".into(), vec![r(dst, rng), memop(addr, ImmReg::Register(off), rng, style, &mut imm)]),
		Mrs{dst, src} => ("MRS".into(), vec![r(dst, rng), case_mix(&format!("{:?}", src), rng, style)]),
		Msr{dst, src} => ("MSR".into(), vec![case_mix(&format!("{:?}", dst), rng, style), r(src, rng)]),
		Mul{dst, rhs} => ("MULS".into(), vec![r(dst, rng), r(rhs, rng)]),
		Mvn{dst, value} => ("MVNS".into(), vec![r(dst, rng), r(value, rng)]),
		Nop => ("NOP".into(), vec![]), Sev => ("SEV".into(), vec![]), Wfe => ("WFE".into(), vec![]), Wfi => ("WFI".into(), vec![]), Yield => ("YIELD".into(), vec![]),
		Orr{dst, rhs} => ("ORRS".into(), vec![r(dst, rng), r(rhs, rng)]),
		Rev{dst, value} => ("REV".into(), vec![r(dst, rng), r(value, rng)]),
		Rev16{dst, value} => ("REV16".into(), vec![r(dst, rng), r(value, rng)]),
		Revsh{dst, value} => ("REVSH".into(), vec![r(dst, rng), r(value, rng)]),
		Ror{dst, rhs} => ("RORS".into(), vec![r(dst, rng), r(rhs, rng)]),
		Rsb{dst, lhs} => ("RSBS".into(), vec![r(dst, rng), r(lhs, rng), imm(0, rng)]),
		Sbc{dst, rhs} => ("SBCS".into(), vec![r(dst, rng), r(rhs, rng)]),
		Svc{info} => ("SVC".into(), vec![imm(info as i64, rng)]),
		Sxtb{dst, value} => ("SXTB".into(), vec![r(dst, rng), r(value, rng)]),
		Sxth{dst, value} => ("SXTH".into(), vec![r(dst, rng), r(value, rng)]),
		Tst{lhs, rhs} => ("TST".into(), vec![r(lhs, rng), r(rhs, rng)]),
		Udf{info} => ("UDF.N".into(), vec![imm(info as i64, rng)]),
		Udfw{info} => ("UDF.W".into(), vec![imm(info as i64, rng)]),
		Uxtb{dst, value} => ("UXTB".into(), vec![r(dst, rng), r(value, rng)]),
		Uxth{dst, value} => ("UXTH".into(), vec![r(dst, rng), r(value, rng)]),
	};
	let mut ops = ops;
	match arity
	{
		1 => ops.push(reg_name(Register::try_from(1u8).unwrap(), rng, style)),
		2 => ops.push("1".into()),
		3 => { let l = ops.last().cloned().unwrap_or("R0".into()); ops.push(l) },
		-1 => { ops.pop(); },
		_ => (),
	}
	let mstyle = rng.below(4);
	let mn = case_mix(&mn, rng, mstyle);
	let mut stmt = mn;
	for (k, o) in ops.iter().enumerate() { if k == 0 { stmt.push(' '); } else { stmt.push_str(&sep(rng)); } stmt.push_str(o); }
	stmt.push(';');
	let n = biased.get();
	(Rendered{pre, stmt, post}, n)
}

fn reglist(bits: u16, rng: &mut Rng, style: u64) -> String
{
	let mut regs: Vec<u8> = (0..16u8).filter(|k| bits & (1 << k) != 0).collect();
	// any order, occasional duplicates
	for k in (1..regs.len()).rev() { let j = rng.below(k as u64 + 1) as usize; regs.swap(k, j); }
	if !regs.is_empty() && rng.chance(1, 4) { let d = regs[rng.below(regs.len() as u64) as usize]; regs.push(d); }
	let names: Vec<String> = regs.iter().map(|&k| reg_name(Register::try_from(k).unwrap(), rng, style)).collect();
	format!("{{{}}}", names.join(", "))
}

fn memop(addr: Register, off: ImmReg, rng: &mut Rng, style: u64, imm: &mut dyn FnMut(i64, &mut Rng) -> String) -> String
{
	let a = reg_name(addr, rng, style);
	match off
	{
		ImmReg::Register(o) => format!("[{} + {}]", a, reg_name(o, rng, style)),
		ImmReg::Immediate(0) if rng.chance(1, 2) => format!("[{}]", a),
		ImmReg::Immediate(v) =>
		{
			let t = imm(v as i64, rng);
			// a compound expression as the offset must be parenthesised to stay one operand of `+`
			let t = if t.contains(' ') && !t.starts_with('(') { format!("({})", t) } else { t };
			if rng.chance(1, 2) { format!("[{} + {}]", a, t) } else { format!("[{} + {}]", t, a) }
		},
	}
}
