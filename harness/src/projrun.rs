#![allow(dead_code)]
//! Multi-file projects for the C06 / C14 streams (included by `#[path]` from bin/pipe.rs and bin/scope.rs;
//! not part of the library so that lib.rs stays untouched).
//!
//! Case text:   F <hexname> <hexbytes> ; F <hexname> <hexbytes> ; ... ; ROOT <hexname> [tags...]
//! The files are written into a private directory below $VERIF_TMP (default /verif/.build/tmp), the root file is
//! assembled through `asmrun::run_pipeline` with its absolute path (so `.include` finds its siblings) and the
//! directory is removed again.  Diagnostics are reported with the base name of their file only.
use std::path::{Component, Path, PathBuf};
use std::sync::atomic::{AtomicU64, Ordering};
use std::error::Error;
use trion::arm6m::{Arm6M, AsmError};
use trion::asm::directive::addr::AddrError;
use trion::asm::directive::align::AlignError;
use trion::asm::directive::constant::ConstError;
use trion::asm::directive::data::DataError;
use trion::asm::directive::global::GlobalError;
use trion::asm::directive::include::IncludeError;
use trion::asm::directive::{DirectiveErrorKind, DirectiveList};
use trion::asm::instr::InstrErrorKind;
use trion::asm::simplify::EvalError;
use trion::asm::{AsmErrorKind, ConstantError, Context, SegmentError};
use verif_harness::asmrun::{Diag, RunResult};
use verif_harness::{hex_bytes, parse_hex_bytes};

// ---------------------------------------------------------------- diagnostics: constructor chain of the error value
// (same names as harness/src/bin/ctx.rs and ocaml/drv_C13.ml: downcasts, never message text)
fn seg_class(e: &SegmentError) -> &'static str
{
	match e { SegmentError::Write(..) => "seg_write", SegmentError::Occupied(..) => "seg_occupied", SegmentError::Overflow{..} => "seg_overflow" }
}

fn sub_class(e: &(dyn Error + 'static)) -> String
{
	if let Some(c) = e.downcast_ref::<ConstantError>()
	{
		return match c
		{
			ConstantError::NotFound{..} => "const_notfound", ConstantError::Reserved(..) => "const_reserved", ConstantError::Duplicate{..} => "const_duplicate",
			ConstantError::Range{..} => "range", ConstantError::Alignment{..} => "alignment",
		}.into();
	}
	if e.is::<EvalError>() { return "eval".into(); }
	if let Some(a) = e.downcast_ref::<AddrError>() { return match a { AddrError::Range(..) => "addr_range".into(), AddrError::Segment(s) => seg_class(s).into() }; }
	if let Some(a) = e.downcast_ref::<AlignError>()
	{
		return match a { AlignError::Inactive => "align_inactive".into(), AlignError::Range(..) => "align_range".into(), AlignError::Overflow{..} => "align_overflow".into(), AlignError::Write(s) => seg_class(s).into() };
	}
	if let Some(d) = e.downcast_ref::<DataError>()
	{
		return match d
		{
			DataError::Inactive => "data_inactive".into(), DataError::Range{..} => "data_range".into(), DataError::HexChar{..} => "hex_char".into(),
			DataError::HexEof => "hex_eof".into(), DataError::File(..) => "file".into(), DataError::Write(s) => seg_class(s).into(),
		};
	}
	if let Some(c) = e.downcast_ref::<ConstError>() { return match c { ConstError::Duplicate(..) => "const_dup".into() }; }
	if let Some(g) = e.downcast_ref::<GlobalError>()
	{
		return match g { GlobalError::NotFound{..} => "g_notfound", GlobalError::Deferred{..} => "g_deferred", GlobalError::Duplicate{..} => "g_duplicate" }.into();
	}
	if let Some(i) = e.downcast_ref::<IncludeError>()
	{
		return match i { IncludeError::NoSuchFile{..} => "inc_nofile", IncludeError::FileRead{..} => "inc_read", IncludeError::Recursive{..} => "inc_recursive", IncludeError::AssemblyFailed{..} => "inc_failed" }.into();
	}
	if let Some(a) = e.downcast_ref::<AsmError>()
	{
		return match a { AsmError::ValueRange{..} => "value_range".into(), AsmError::NoSuchRegister{..} => "no_register".into(), AsmError::Encode(..) => "encode".into(), AsmError::Write(s) => seg_class(s).into() };
	}
	"other".into()
}

fn coarse_class(e: &(dyn Error + 'static)) -> String
{
	if let Some(k) = e.downcast_ref::<AsmErrorKind>() { return match k { AsmErrorKind::Parse(..) => "parse", AsmErrorKind::Inactive => "inactive" }.into(); }
	if let Some(c) = e.downcast_ref::<ConstantError>()
	{
		return match c { ConstantError::Reserved(..) => "const_reserved", ConstantError::Duplicate{..} => "const_duplicate", _ => "const_other" }.into();
	}
	if let Some(d) = e.downcast_ref::<DirectiveErrorKind>()
	{
		return match d
		{
			DirectiveErrorKind::NotFound(..) => "dir_notfound".into(), DirectiveErrorKind::TooManyArguments{..} => "dir_toomany".into(),
			DirectiveErrorKind::NotEnoughArguments{..} => "dir_notenough".into(), DirectiveErrorKind::ArgumentType{..} => "dir_argtype".into(),
			DirectiveErrorKind::Apply{source, ..} => format!("apply:{}", sub_class(source.as_ref())),
		};
	}
	if let Some(i) = e.downcast_ref::<InstrErrorKind>()
	{
		return match i
		{
			InstrErrorKind::NotFound(..) => "instr_notfound".into(), InstrErrorKind::TooManyArguments{..} => "instr_toomany".into(),
			InstrErrorKind::NotEnoughArguments{..} => "instr_notenough".into(), InstrErrorKind::ArgumentType{..} => "instr_argtype".into(),
			InstrErrorKind::Assemble(source) => format!("asm:{}", sub_class(source.as_ref())),
		};
	}
	"other".into()
}

/// the pipeline of src/bin/assembler.rs (assemble, close the last region, finalize) under a panic boundary, like
/// asmrun::run_pipeline but with the diagnostic class taken from the error VALUE; the file is reported by its base name
pub fn run_pipeline(source: &[u8], path: &str) -> RunResult
{
	let src = source.to_vec();
	let path = PathBuf::from(path);
	let res = verif_harness::catch(move ||
	{
		let directives = DirectiveList::generate();
		let mut ctx = Context::new(&Arm6M, &directives);
		drop(ctx.assemble(&src, path));
		let close_err = ctx.close_segment().is_err();
		let finalize_ok = if close_err { false } else { ctx.finalize() };
		let diags = ctx.get_errors().iter().map(|e|
		{
			let v: &(dyn Error + 'static) = &e.value;
			let file = Path::new(e.name.as_ref()).file_name().map(|f| f.to_string_lossy().into_owned()).unwrap_or_default();
			Diag{file, line: e.line, col: e.col, class: coarse_class(v)}
		}).collect();
		let regions = ctx.output().iter().map(|(r, d)| (r.get_first(), d.to_vec())).collect();
		RunResult{panic: None, close_err, finalize_ok, diags, regions}
	});
	match res
	{
		Ok(r) => r,
		Err(msg) => RunResult{panic: Some(msg), close_err: false, finalize_ok: false, diags: vec![], regions: vec![]},
	}
}

#[derive(Clone, Debug)]
pub struct Project
{
	pub files: Vec<(String, Vec<u8>)>,
	pub root: String,
}

static COUNTER: AtomicU64 = AtomicU64::new(0);

fn tmp_base() -> PathBuf
{
	PathBuf::from(std::env::var("VERIF_TMP").unwrap_or_else(|_| "/verif/.build/tmp".to_string()))
}

/// a relative path without `..`, root or prefix components (so that nothing is written outside the private directory)
fn safe_rel(name: &str) -> bool
{
	let p = Path::new(name);
	!name.is_empty() && !name.contains('\0') && p.components().all(|c| matches!(c, Component::Normal(_) | Component::CurDir))
		&& p.components().any(|c| matches!(c, Component::Normal(_)))
}

impl Project
{
	pub fn single(name: &str, src: &[u8]) -> Self { Project{files: vec![(name.to_string(), src.to_vec())], root: name.to_string()} }

	pub fn fmt_case(&self) -> String
	{
		let mut s = String::new();
		for (n, b) in &self.files { s.push_str(&format!("F {} {} ; ", hex_bytes(n.as_bytes()), hex_bytes(b))); }
		s.push_str(&format!("ROOT {}", hex_bytes(self.root.as_bytes())));
		s
	}

	/// parses the project part of a case; returns the project and the remaining tokens (tags)
	pub fn parse_case(case: &str) -> Option<(Project, Vec<String>)>
	{
		let t: Vec<&str> = case.split_whitespace().collect();
		let mut files = Vec::new();
		let mut i = 0;
		loop
		{
			match t.get(i)
			{
				Some(&"F") =>
				{
					let n = String::from_utf8_lossy(&parse_hex_bytes(t.get(i + 1)?)).into_owned();
					let b = parse_hex_bytes(t.get(i + 2)?);
					if t.get(i + 3) != Some(&";") { return None; }
					files.push((n, b));
					i += 4;
				},
				Some(&"ROOT") =>
				{
					let root = String::from_utf8_lossy(&parse_hex_bytes(t.get(i + 1)?)).into_owned();
					let tags = t[i + 2..].iter().map(|s| s.to_string()).collect();
					return Some((Project{files, root}, tags));
				},
				_ => return None,
			}
		}
	}

	/// materialises the project, runs the real pipeline on the root file, removes the files again
	pub fn run(&self) -> RunResult
	{
		let dir = tmp_base().join(format!("p{}_{}", std::process::id(), COUNTER.fetch_add(1, Ordering::Relaxed)));
		let _ = std::fs::remove_dir_all(&dir);
		std::fs::create_dir_all(&dir).expect("VERIF_TMP not writable");
		for (n, b) in &self.files
		{
			if !safe_rel(n) { continue; }
			let p = dir.join(n);
			if let Some(parent) = p.parent() { let _ = std::fs::create_dir_all(parent); }
			let _ = std::fs::write(&p, b);
		}
		let root_src = self.files.iter().find(|(n, _)| *n == self.root).map(|(_, b)| b.clone()).unwrap_or_default();
		let root_path = if safe_rel(&self.root) { dir.join(&self.root) } else { dir.join("root.asm") };
		let r = run_pipeline(&root_src, &root_path.to_string_lossy());
		let _ = std::fs::remove_dir_all(&dir);
		r
	}
}

/// `dbg=<0|1> status=<..> diags=<class@hexfile:line:col,...|-> regions=<addr:hex,...|->`; a panic message is not part of the observation
pub fn fmt_result(r: &RunResult) -> String
{
	let diags = if r.diags.is_empty() { "-".to_string() } else
	{
		r.diags.iter().map(|d| format!("{}@{}:{}:{}", d.class, hex_bytes(d.file.as_bytes()), d.line, d.col)).collect::<Vec<_>>().join(",")
	};
	let total: usize = r.regions.iter().map(|(_, d)| d.len()).sum();
	let regions = if total > 8192 { format!("big:{}", total) } else { r.fmt_regions() };
	format!("dbg={} status={} diags={} regions={}", if cfg!(debug_assertions) { 1 } else { 0 }, r.fmt_status(), diags, regions)
}

/// a private empty working directory for single-file runs (relative `.include` / `.dfile` names then name nothing)
pub fn enter_empty_dir()
{
	let dir = tmp_base().join(format!("empty{}", std::process::id()));
	let _ = std::fs::create_dir_all(&dir);
	let _ = std::env::set_current_dir(&dir);
}
pub fn leave_empty_dir()
{
	let dir = tmp_base().join(format!("empty{}", std::process::id()));
	let _ = std::env::set_current_dir("/");
	let _ = std::fs::remove_dir(&dir);
}
