//! Text form of `Instruction` values shared by the codec / assembler harness binaries:
//! `Name field field ...` with flags as 0/1, registers / conditions / special registers by number,
//! immediates in signed hex, ImmReg as `I <hex>` or `R <n>`.
use trion::arm6m::asm::{ImmReg, Instruction};
use trion::arm6m::cond::Condition;
use trion::arm6m::reg::Register;
use trion::arm6m::regset::RegisterSet;
use trion::arm6m::sysreg::SystemReg;
use crate::{hex_i64, parse_hex_i64};

pub fn reg(n: u8) -> Register { Register::try_from(n).unwrap() }
pub fn cond(n: u8) -> Condition { Condition::try_from(n).unwrap() }
pub fn sys(n: u8) -> SystemReg { SystemReg::try_from(n).unwrap() }
pub const SYSREGS: [u8; 11] = [0, 1, 2, 3, 5, 6, 7, 8, 9, 16, 20];

fn r(x: Register) -> String { format!("{}", u8::from(x)) }
fn ir(x: ImmReg) -> String
{
	match x { ImmReg::Immediate(v) => format!("I {}", hex_i64(v as i64)), ImmReg::Register(x) => format!("R {}", u8::from(x)) }
}
fn b(x: bool) -> &'static str { if x { "1" } else { "0" } }

pub fn fmt_instr(i: &Instruction) -> String
{
	use Instruction::*;
	match *i
	{
		Adc{dst, rhs} => format!("Adc {} {}", r(dst), r(rhs)),
		Add{flags, dst, lhs, rhs} => format!("Add {} {} {} {}", b(flags), r(dst), r(lhs), ir(rhs)),
		Adr{dst, off} => format!("Adr {} {:x}", r(dst), off),
		And{dst, rhs} => format!("And {} {}", r(dst), r(rhs)),
		Asr{dst, value, shift} => format!("Asr {} {} {}", r(dst), r(value), ir(shift)),
		B{cond, off} => format!("B {} {}", u8::from(cond), hex_i64(off as i64)),
		Bic{dst, rhs} => format!("Bic {} {}", r(dst), r(rhs)),
		Bkpt{info} => format!("Bkpt {:x}", info),
		Bl{off} => format!("Bl {}", hex_i64(off as i64)),
		Blx{off} => format!("Blx {}", r(off)),
		Bx{off} => format!("Bx {}", r(off)),
		Cmn{lhs, rhs} => format!("Cmn {} {}", r(lhs), r(rhs)),
		Cmp{lhs, rhs} => format!("Cmp {} {}", r(lhs), ir(rhs)),
		Cps{enable} => format!("Cps {}", b(enable)),
		Dmb => "Dmb".into(),
		Dsb => "Dsb".into(),
		Eor{dst, rhs} => format!("Eor {} {}", r(dst), r(rhs)),
		Isb => "Isb".into(),
		Ldm{addr, registers} => format!("Ldm {} {:x}", r(addr), registers.get_bits()),
		Ldr{dst, addr, off} => format!("Ldr {} {} {}", r(dst), r(addr), ir(off)),
		Ldrb{dst, addr, off} => format!("Ldrb {} {} {}", r(dst), r(addr), ir(off)),
		Ldrh{dst, addr, off} => format!("Ldrh {} {} {}", r(dst), r(addr), ir(off)),
		Ldrsb{dst, addr, off} => format!("Ldrsb {} {} {}", r(dst), r(addr), r(off)),
		Ldrsh{dst, addr, off} => format!("Ldrsh {} {} {}", r(dst), r(addr), r(off)),
		Lsl{dst, value, shift} => format!("Lsl {} {} {}", r(dst), r(value), ir(shift)),
		Lsr{dst, value, shift} => format!("Lsr {} {} {}", r(dst), r(value), ir(shift)),
		Mov{flags, dst, src} => format!("Mov {} {} {}", b(flags), r(dst), ir(src)),
		Mrs{dst, src} => format!("Mrs {} {}", r(dst), u8::from(src)),
		Msr{dst, src} => format!("Msr {} {}", u8::from(dst), r(src)),
		Mul{dst, rhs} => format!("Mul {} {}", r(dst), r(rhs)),
		Mvn{dst, value} => format!("Mvn {} {}", r(dst), r(value)),
		Nop => "Nop".into(),
		Orr{dst, rhs} => format!("Orr {} {}", r(dst), r(rhs)),
		Pop{registers} => format!("Pop {:x}", registers.get_bits()),
		Push{registers} => format!("Push {:x}", registers.get_bits()),
		Rev{dst, value} => format!("Rev {} {}", r(dst), r(value)),
		Rev16{dst, value} => format!("Rev16 {} {}", r(dst), r(value)),
		Revsh{dst, value} => format!("Revsh {} {}", r(dst), r(value)),
		Ror{dst, rhs} => format!("Ror {} {}", r(dst), r(rhs)),
		Rsb{dst, lhs} => format!("Rsb {} {}", r(dst), r(lhs)),
		Sbc{dst, rhs} => format!("Sbc {} {}", r(dst), r(rhs)),
		Sev => "Sev".into(),
		Stm{addr, registers} => format!("Stm {} {:x}", r(addr), registers.get_bits()),
		Str{src, addr, off} => format!("Str {} {} {}", r(src), r(addr), ir(off)),
		Strb{src, addr, off} => format!("Strb {} {} {}", r(src), r(addr), ir(off)),
		Strh{src, addr, off} => format!("Strh {} {} {}", r(src), r(addr), ir(off)),
		Sub{flags, dst, lhs, rhs} => format!("Sub {} {} {} {}", b(flags), r(dst), r(lhs), ir(rhs)),
		Svc{info} => format!("Svc {:x}", info),
		Sxtb{dst, value} => format!("Sxtb {} {}", r(dst), r(value)),
		Sxth{dst, value} => format!("Sxth {} {}", r(dst), r(value)),
		Tst{lhs, rhs} => format!("Tst {} {}", r(lhs), r(rhs)),
		Udf{info} => format!("Udf {:x}", info),
		Udfw{info} => format!("Udfw {:x}", info),
		Uxtb{dst, value} => format!("Uxtb {} {}", r(dst), r(value)),
		Uxth{dst, value} => format!("Uxth {} {}", r(dst), r(value)),
		Wfe => "Wfe".into(),
		Wfi => "Wfi".into(),
		Yield => "Yield".into(),
	}
}

struct Toks<'a> { t: &'a [&'a str], p: usize }
impl<'a> Toks<'a>
{
	fn next(&mut self) -> &'a str { let s = self.t[self.p]; self.p += 1; s }
	fn reg(&mut self) -> Register { reg(self.next().parse().unwrap()) }
	fn flag(&mut self) -> bool { self.next() == "1" }
	fn i32(&mut self) -> i32 { parse_hex_i64(self.next()) as i32 }
	fn u16(&mut self) -> u16 { u16::from_str_radix(self.next(), 16).unwrap() }
	fn u8(&mut self) -> u8 { u8::from_str_radix(self.next(), 16).unwrap() }
	fn ir(&mut self) -> ImmReg
	{
		match self.next() { "I" => ImmReg::Immediate(self.i32()), _ => ImmReg::Register(self.reg()) }
	}
}

/// parse the text produced by `fmt_instr`; returns the instruction and the number of tokens consumed
pub fn parse_instr(t: &[&str]) -> (Instruction, usize)
{
	use Instruction::*;
	let mut k = Toks{t, p: 1};
	macro_rules! two { ($v:ident, $a:ident, $b:ident) => {{ let $a = k.reg(); let $b = k.reg(); $v{$a, $b} }} }
	macro_rules! mem { ($v:ident, $a:ident) => {{ let $a = k.reg(); let addr = k.reg(); let off = k.ir(); $v{$a, addr, off} }} }
	let i = match t[0]
	{
		"Adc" => two!(Adc, dst, rhs),
		"Add" => { let flags = k.flag(); let dst = k.reg(); let lhs = k.reg(); let rhs = k.ir(); Add{flags, dst, lhs, rhs} },
		"Adr" => { let dst = k.reg(); let off = k.u16(); Adr{dst, off} },
		"And" => two!(And, dst, rhs),
		"Asr" => { let dst = k.reg(); let value = k.reg(); let shift = k.ir(); Asr{dst, value, shift} },
		"B" => { let c = cond(k.next().parse().unwrap()); let off = k.i32(); B{cond: c, off} },
		"Bic" => two!(Bic, dst, rhs),
		"Bkpt" => Bkpt{info: k.u8()},
		"Bl" => Bl{off: k.i32()},
		"Blx" => Blx{off: k.reg()},
		"Bx" => Bx{off: k.reg()},
		"Cmn" => two!(Cmn, lhs, rhs),
		"Cmp" => { let lhs = k.reg(); let rhs = k.ir(); Cmp{lhs, rhs} },
		"Cps" => Cps{enable: k.flag()},
		"Dmb" => Dmb, "Dsb" => Dsb, "Isb" => Isb,
		"Eor" => two!(Eor, dst, rhs),
		"Ldm" => { let addr = k.reg(); let registers = RegisterSet::of(k.u16()); Ldm{addr, registers} },
		"Ldr" => mem!(Ldr, dst), "Ldrb" => mem!(Ldrb, dst), "Ldrh" => mem!(Ldrh, dst),
		"Ldrsb" => { let dst = k.reg(); let addr = k.reg(); let off = k.reg(); Ldrsb{dst, addr, off} },
		"Ldrsh" => { let dst = k.reg(); let addr = k.reg(); let off = k.reg(); Ldrsh{dst, addr, off} },
		"Lsl" => { let dst = k.reg(); let value = k.reg(); let shift = k.ir(); Lsl{dst, value, shift} },
		"Lsr" => { let dst = k.reg(); let value = k.reg(); let shift = k.ir(); Lsr{dst, value, shift} },
		"Mov" => { let flags = k.flag(); let dst = k.reg(); let src = k.ir(); Mov{flags, dst, src} },
		"Mrs" => { let dst = k.reg(); let src = sys(k.next().parse().unwrap()); Mrs{dst, src} },
		"Msr" => { let dst = sys(k.next().parse().unwrap()); let src = k.reg(); Msr{dst, src} },
		"Mul" => two!(Mul, dst, rhs),
		"Mvn" => two!(Mvn, dst, value),
		"Nop" => Nop,
		"Orr" => two!(Orr, dst, rhs),
		"Pop" => Pop{registers: RegisterSet::of(k.u16())},
		"Push" => Push{registers: RegisterSet::of(k.u16())},
		"Rev" => two!(Rev, dst, value), "Rev16" => two!(Rev16, dst, value), "Revsh" => two!(Revsh, dst, value),
		"Ror" => two!(Ror, dst, rhs), "Rsb" => two!(Rsb, dst, lhs), "Sbc" => two!(Sbc, dst, rhs),
		"Sev" => Sev,
		"Stm" => { let addr = k.reg(); let registers = RegisterSet::of(k.u16()); Stm{addr, registers} },
		"Str" => mem!(Str, src), "Strb" => mem!(Strb, src), "Strh" => mem!(Strh, src),
		"Sub" => { let flags = k.flag(); let dst = k.reg(); let lhs = k.reg(); let rhs = k.ir(); Sub{flags, dst, lhs, rhs} },
		"Svc" => Svc{info: k.u8()},
		"Sxtb" => two!(Sxtb, dst, value), "Sxth" => two!(Sxth, dst, value),
		"Tst" => two!(Tst, lhs, rhs),
		"Udf" => Udf{info: k.u8()},
		"Udfw" => Udfw{info: k.u16()},
		"Uxtb" => two!(Uxtb, dst, value), "Uxth" => two!(Uxth, dst, value),
		"Wfe" => Wfe, "Wfi" => Wfi, "Yield" => Yield,
		other => panic!("unknown instruction name {other}"),
	};
	(i, k.p)
}

/// result text of Instruction::decode
pub fn fmt_decode(bytes: &[u8]) -> String
{
	use trion::arm6m::asm::DecodeError::*;
	let b = bytes.to_vec();
	match crate::catch(move || Instruction::decode(&b))
	{
		Err(_) => "panic".into(),
		Ok(Ok((n, i))) => format!("ok {} {}", n, fmt_instr(&i)),
		Ok(Err(Underflow{need, have})) => format!("err underflow {} {}", need, have),
		Ok(Err(Undefined{..})) => "err undefined".into(),
		Ok(Err(Unpredictable{..})) => "err unpredictable".into(),
		Ok(Err(Reserved{..})) => "err reserved".into(),
	}
}

/// result text of Instruction::encode into a buffer of `cap` bytes
pub fn fmt_encode(i: &Instruction, cap: usize) -> (String, Vec<u8>)
{
	use trion::arm6m::asm::EncodeError::*;
	let mut buf = vec![0u8; cap];
	let ii = *i;
	let res = crate::catch(move || { let r = ii.encode(&mut buf); (r, buf) });
	match res
	{
		Err(_) => ("panic".into(), vec![]),
		Ok((Ok(n), buf)) => (format!("ok {}", crate::hex_bytes(&buf[..n])), buf[..n].to_vec()),
		Ok((Err(Unrepresentable), _)) => ("unrep".into(), vec![]),
		Ok((Err(Overflow{need, have}), _)) => (format!("overflow {} {}", need, have), vec![]),
	}
}
