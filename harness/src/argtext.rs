//! Text form of `Argument`, tokens and statements shared by the harness binaries; identical to ocaml/arg_io.ml.
use trion::asm::arcob::Arcob;
use trion::text::parse::{Argument, ElementValue};
use trion::text::token::{Number, TokenErrorKind, TokenValue};
use crate::{hex_bytes, hex_i64, parse_hex_bytes, parse_hex_i64};

pub fn fmt_arg(a: &Argument) -> String
{
	fn bin(op: &str, l: &Argument, r: &Argument) -> String { format!("( {} {} {} )", op, fmt_arg(l), fmt_arg(r)) }
	match a
	{
		Argument::Constant(Number::Integer(v)) => format!("( C {} )", hex_i64(*v)),
		Argument::Identifier(s) => format!("( I {} )", hex_bytes(s.as_ref().as_bytes())),
		Argument::String(s) => format!("( S {} )", hex_bytes(s.as_ref().as_bytes())),
		Argument::Add{lhs, rhs} => bin("+", lhs, rhs),
		Argument::Subtract{lhs, rhs} => bin("-", lhs, rhs),
		Argument::Multiply{lhs, rhs} => bin("*", lhs, rhs),
		Argument::Divide{lhs, rhs} => bin("/", lhs, rhs),
		Argument::Modulo{lhs, rhs} => bin("%", lhs, rhs),
		Argument::BitAnd{lhs, rhs} => bin("&", lhs, rhs),
		Argument::BitOr{lhs, rhs} => bin("|", lhs, rhs),
		Argument::BitXor{lhs, rhs} => bin("^", lhs, rhs),
		Argument::LeftShift{lhs, rhs} => bin("<<", lhs, rhs),
		Argument::RightShift{lhs, rhs} => bin(">>", lhs, rhs),
		Argument::Negate(v) => format!("( neg {} )", fmt_arg(v)),
		Argument::Not(v) => format!("( ! {} )", fmt_arg(v)),
		Argument::Address(v) => format!("( addr {} )", fmt_arg(v)),
		Argument::Sequence(l) => format!("( seq{} )", l.iter().map(|x| format!(" {}", fmt_arg(x))).collect::<String>()),
		Argument::Function{name, args} => format!("( fn {}{} )", hex_bytes(name.as_ref().as_bytes()), args.iter().map(|x| format!(" {}", fmt_arg(x))).collect::<String>()),
	}
}

pub fn fmt_args(l: &[Argument]) -> String { l.iter().map(fmt_arg).collect::<Vec<_>>().join(" ") }

fn owned_str(hex: &str) -> Arcob<'static, str>
{
	let b = parse_hex_bytes(hex);
	Arcob::Arced(String::from_utf8(b).expect("argtext: identifiers/strings must be UTF-8").into())
}

/// parse one argument starting at t[*p]
pub fn parse_arg(t: &[&str], p: &mut usize) -> Argument<'static>
{
	assert_eq!(t[*p], "("); *p += 1;
	let op = t[*p]; *p += 1;
	macro_rules! two { ($v:ident) => {{ let lhs = Box::new(parse_arg(t, p)); let rhs = Box::new(parse_arg(t, p)); Argument::$v{lhs, rhs} }} }
	let a = match op
	{
		"C" => { let v = parse_hex_i64(t[*p]); *p += 1; Argument::Constant(Number::Integer(v)) },
		"I" => { let s = owned_str(t[*p]); *p += 1; Argument::Identifier(s) },
		"S" => { let s = owned_str(t[*p]); *p += 1; Argument::String(s) },
		"+" => two!(Add), "-" => two!(Subtract), "*" => two!(Multiply), "/" => two!(Divide), "%" => two!(Modulo),
		"&" => two!(BitAnd), "|" => two!(BitOr), "^" => two!(BitXor), "<<" => two!(LeftShift), ">>" => two!(RightShift),
		"neg" => Argument::Negate(Box::new(parse_arg(t, p))),
		"!" => Argument::Not(Box::new(parse_arg(t, p))),
		"addr" => Argument::Address(Box::new(parse_arg(t, p))),
		"seq" => { let mut l = Vec::new(); while t[*p] != ")" { l.push(parse_arg(t, p)); } Argument::Sequence(l) },
		"fn" => { let name = owned_str(t[*p]); *p += 1; let mut l = Vec::new(); while t[*p] != ")" { l.push(parse_arg(t, p)); } Argument::Function{name, args: l} },
		other => panic!("argtext: unknown op {other}"),
	};
	assert_eq!(t[*p], ")"); *p += 1;
	a
}

pub fn fmt_token_value(v: &TokenValue) -> String
{
	match v
	{
		TokenValue::Separator => "sep".into(), TokenValue::Terminator => "term".into(), TokenValue::LabelMark => "label".into(),
		TokenValue::DirectiveMark => "dir".into(), TokenValue::Plus => "+".into(), TokenValue::Minus => "-".into(),
		TokenValue::Multiply => "*".into(), TokenValue::Divide => "/".into(), TokenValue::Modulo => "%".into(),
		TokenValue::Not => "!".into(), TokenValue::BitAnd => "&".into(), TokenValue::BitOr => "|".into(), TokenValue::BitXor => "^".into(),
		TokenValue::LeftShift => "<<".into(), TokenValue::RightShift => ">>".into(),
		TokenValue::Number(Number::Integer(v)) => format!("N:{}", hex_i64(*v)),
		TokenValue::Identifier(s) => format!("ID:{}", hex_bytes(s.as_bytes())),
		TokenValue::String(s) => format!("STR:{}", hex_bytes(s.as_ref().as_bytes())),
		TokenValue::BeginGroup => "LP".into(), TokenValue::EndGroup => "RP".into(), TokenValue::BeginAddr => "LB".into(),
		TokenValue::EndAddr => "RB".into(), TokenValue::BeginSeq => "LC".into(), TokenValue::EndSeq => "RC".into(),
	}
}

pub fn fmt_tok_err_kind(k: &TokenErrorKind) -> String
{
	match k
	{
		TokenErrorKind::BadUnicode => "BadUnicode".into(), TokenErrorKind::Invalid => "Invalid".into(),
		TokenErrorKind::BlockComment => "BlockComment".into(), TokenErrorKind::BadNumber => "BadNumber".into(),
		TokenErrorKind::BadCharacter => "BadCharacter".into(), TokenErrorKind::BadString => "BadString".into(),
		TokenErrorKind::Unexpected(c) => format!("Unexpected:{:x}", *c as u32),
	}
}

pub fn fmt_element_value(v: &ElementValue) -> String
{
	let (k, n, a): (&str, &str, &[Argument]) = match v
	{
		ElementValue::Label(n) => ("L", n.as_ref(), &[]),
		ElementValue::Directive{name, args} => ("D", name.as_ref(), args),
		ElementValue::Instruction{name, args} => ("X", name.as_ref(), args),
	};
	if a.is_empty() { format!("{} {}", k, hex_bytes(n.as_bytes())) } else { format!("{} {} {}", k, hex_bytes(n.as_bytes()), fmt_args(a)) }
}
